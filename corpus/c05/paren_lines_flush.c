struct rng { long lo; long hi; };

int hit(const struct rng *p, const struct rng *q, long eps)
{
if (p != 0 && q != 0 &&
(p->lo <= q->hi + eps &&
(q->lo <= p->hi + eps ||
(eps < 0 &&
q->lo <= p->hi))))
return 1;
return 0;
}

long pick(long a, long b, long c)
{
long r = (a > b &&
(b > 0 ||
(a < 0 &&
c == 0))) ? b : a;
while (r > 0 &&
(a != b ||
(b != c &&
c != a)))
r--;
return r;
}
