int g(int);
void h(void);

void f(int x)
{
    if (x) {
        while (x > 3) {
            x = g(x); /* shrink it */
        } /* end while */
        h();
    } /* end if */
    h(); /* always */
}
