#define A(x)\
  do {   \
    f(x); \
    g(x)  ,  h(x);     \
  } while (0)	\
  /* end */
int a = 1 +   \
  2;
char *s = "a"  \
  "b";
