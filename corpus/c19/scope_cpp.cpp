class A1 : public B { };
class A2 : public B { };
template <typename T> class C1;
template < typename T > class C2;
void f1() { a ::b(); }
void f2() { a:: b(); }
void f3() { x = new int; }
void f4() { throw (a); }
void f5() { try { a(); } catch (...) { } }
void f6() { try { a(); } catch (...) { } }
namespace N { int a; }
void f7() { auto l = [] (int a) { return a; }; }
int &r1 = x;
int &r2 = x;
void f8() { x = static_cast<int> (y); }
A::A() : b(1) { }
A::A(int) : c(1) { }
void f9() { operator + (a); }
