#define B(T, n)  \
  template <typename T>   \
  struct n {  \
    T   v[ 2 ];\
  }
int   f ( int  a ,int b )   { return a<b ? a : -b ; }
