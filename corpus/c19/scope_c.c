union U { int a; };
union U2 { int a; };
struct S { int a; };
enum E { EA, EB };
enum E2 { EA2, EB2 };
void f1(void) { int x; x = b + c; }
void f2(void) { a = b; }
void f3(void) { a = b; }
void f4(void) { if (a == b) c(); }
void f5(void) { if (a && b) c(); }
void f6(void) { x = a ? b : c; }
void f7(void) { x = a ? b : c; }
void f8(void) { g(a, b); }
void f9(void) { g(a , b); }
void f10(void) { g (a); }
void f11 (int a);
void f12 (int a) { }
void f13(void) { if (a) b(); }
void f14(void) { if (a) b(); }
void f15(void) { if (a) b(); }
void f17(void) { x = (a + b) * c; }
int *p1;
int *p2;
void f18(void) { x = *p; }
void f19(void) { x = &y; }
void f20(void) { x = !a; }
void f21(void) { x = ~a; }
void f22(void) { x = -a; }
void f23(void) { i++; }
void f24(void) { arr [1] = 2; }
void f25(void) { arr[ 1 ] = 2; }
void f26(void) { x = (int) y; }
void f27(void) { x = ( int ) y; }
void f28(void) { x = sizeof (int); }
int f29(void) { return (a); }
void f30(void) { for (i = 0; i < 3; i++) x(); }
void f31(void) { for (i = 0 ; i < 3; i++) x(); }
void f32(void) { x = 1 ; }
void f33(void) { p->m = 1; }
void f34(void) { s.m = 1; }
void f35(void) { do { x(); } while (a); }
void f36(void) { if (a) { b(); } else { c(); } }
void f37(void) { if (a) { b(); } else { c(); } }
void f38(void)
{ if (a) { b(); } }
void f39(void) { switch (a) { case 1 : break; } }
void f40(void) { x = a << 2; }
struct B1 { int a : 3; };
struct B2 { int a : 3; };
void f41(void) { while (a) b(); }
int f42(void) { return a; }
void f43(void) { x = a * b; }
void f44(void) { x = a | b; }
void f45(void) { x += 1; }
