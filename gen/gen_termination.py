"""Translator for C06: two inventories of /repo/src -> coq/Gen/Termination.v.
(1) every call of exit(): file, enclosing function, status expression, whether a diagnostic is written in the lines
    before it, whether the site lies in the output phase (output.cpp: text may already be on stdout);
(2) every loop that walks the chunk list (a variable re-assigned from its own GetNext*/GetPrev*): file, function,
    how its condition is protected against running off the end of the list -
      Guarded   an explicit IsNotNullChunk()/IsNullChunk()/NullChunkPtr test in the condition, or in the body with break/return
      Positive  the condition only holds for chunks of named types (Is(CT_x), IsNewline(), IsComment() ...): false on the null chunk
      Open      anything else (IsNot(..), !=, negations, 'true'): not shown to stop at the end of the list.
Fails loudly when it cannot find the enclosing function of a site."""
import os
import re

OUT = "Termination.v"
EXITS, LOOPS, FOR_LOOPS = [], [], []

DIAG = re.compile(r"LOG_FMT\(\s*(LERR|LWARN)|fprintf\(\s*stderr|usage_error\(|log_flush|perror|std::cerr|OptionWarning|LOG_FMT\(LSYS")
POSITIVE = re.compile(r"^(\(?\s*)*\w+->(Is|IsString|IsNewline|IsComment|IsCommentOrNewline|IsPointerOperator|IsParenClose|IsParenOpen|IsBraceOpen|IsBraceClose|"
                      r"IsVBrace|IsSemicolon|IsWord|IsStar|IsAddress|IsTypeDefinition|TestFlags)\([^()]*\)(\s*\)?)*$")


def coq_bytes(s):
    return "[" + ";".join(str(b) for b in s.encode("latin1", "replace")) + "]"


def strip(s):
    s = re.sub(r"/\*.*?\*/", lambda m: re.sub(r"[^\n]", " ", m.group(0)), s, flags=re.S)
    s = re.sub(r"//[^\n]*", lambda m: " " * len(m.group(0)), s)
    s = re.sub(r'"(?:[^"\\\n]|\\.)*"', lambda m: '"' + " " * (len(m.group(0)) - 2) + '"', s)
    s = re.sub(r"'(?:[^'\\\n]|\\.)'", "' '", s)
    return s


def balanced(s, i, o, c):
    d = 0
    for k in range(i, len(s)):
        if s[k] == o:
            d += 1
        elif s[k] == c:
            d -= 1
            if d == 0:
                return k
    return -1


def functions(src):
    """(name, start, end) of top-level function bodies in uncrustify's layout ('{' and '}' in column 0)"""
    out = []
    for m in re.finditer(r"^\{\n(.*?)^\}", src, flags=re.S | re.M):
        head = src[max(0, m.start() - 800):m.start()]
        hm = None
        for hm in re.finditer(r"(?:^|\n)[^\n;{}#]*?\b([\w:~]+)\s*\([^;{}]*\)\s*(?:const\s*)?(?:noexcept\s*)?(?::[^;{}]*)?\n$", head):
            pass
        out.append((hm.group(1) if hm else "?", m.start(), m.end()))
    return out


def fn_at(funcs, pos):
    for name, a, b in funcs:
        if a <= pos < b:
            return name
    return None


def cond_class(cond, body):
    if re.search(r"IsNotNullChunk|IsNullChunk|!=\s*nullptr|NullChunkPtr", cond):
        return "Guarded"
    if re.search(r"(IsNullChunk|IsNotNullChunk)\(\)", body) and re.search(r"\b(break|return)\b", body):
        return "Guarded"
    parts = re.split(r"&&|\|\|", cond)
    if all(POSITIVE.match(p.strip()) for p in parts if p.strip()) and "!" not in cond and "IsNot" not in cond:
        return "Positive"
    # a conjunction with one positive type test on the walked chunk is false on the null chunk
    if "||" not in cond and any(POSITIVE.match(p.strip()) and "!" not in p for p in cond.split("&&")):
        return "Positive"
    return "Open"


def generate(repo):
    src_dir = os.path.join(repo, "src")
    exits, loops, char_loops, for_loops = [], [], [], []
    for root, _, files in os.walk(src_dir):
        for fn in sorted(files):
            if not (fn.endswith(".cpp") or fn.endswith(".h")):
                continue
            if fn in ("verif_hooks.h", "uncrustify_emscripten.cpp"):
                continue
            path = os.path.join(root, fn)
            rel = os.path.relpath(path, src_dir)
            s = strip(open(path, errors="replace").read())
            funcs = functions(s)
            lines = s.split("\n")
            offs = [0]
            for l in lines:
                offs.append(offs[-1] + len(l) + 1)
            for i, l in enumerate(lines):
                for m in re.finditer(r"(?<![\w_.>])exit\(([^)]*)\)", l):
                    st = m.group(1).strip()
                    f = fn_at(funcs, offs[i] + m.start())
                    if f is None:
                        if fn.endswith(".h"):
                            f = "(inline)"
                        else:
                            raise ValueError("%s:%d: exit() outside a recognised function" % (rel, i + 1))
                    ctx = "\n".join(lines[max(0, i - 14):i + 1])
                    exits.append({"file": rel, "line": i + 1, "func": f, "status": st, "diag": bool(DIAG.search(ctx)), "output_phase": rel == "output.cpp"})
            if not fn.endswith(".cpp"):
                continue
            if "TokenContext" in s:
                for m in re.finditer(r"\bwhile\s*\(", s):
                    e = balanced(s, m.end() - 1, "(", ")")
                    cond = s[m.end():e]
                    k = e + 1
                    while k < len(s) and s[k] in " \n\t":
                        k += 1
                    if k >= len(s) or s[k] != "{":
                        continue
                    be = balanced(s, k, "{", "}")
                    body = s[k:be + 1]
                    if not re.search(r"\bctx\.(get|expect)\(", body + cond):
                        continue
                    c = re.sub(r"\s+", " ", cond).strip()
                    if "ctx.more()" in cond or (re.search(r"ctx\.more\(\)", body) and re.search(r"\b(break|return)\b", body)):
                        cls = "Guarded"
                    elif re.fullmatch(r"(\(?\s*(ctx\.peek\(\d*\)\s*==\s*'[^']*'|unc_is\w+\(ctx\.peek\(\d*\)\)|is_\w+\(ctx\.peek\(\d*\)\)|CharTable::\w+\(ctx\.peek\(\d*\)\))\s*\)?\s*(\|\||&&)?\s*)+", c):
                        cls = "Positive"        # only true for characters of a named class: false for the 0 that peek() returns at the end of the input
                    elif re.fullmatch(r"\w+--(\s*>\s*0)?", c):
                        cls = "Guarded"         # a counted loop
                    else:
                        cls = "Open"
                    f = fn_at(funcs, m.start())
                    if f is None:
                        raise ValueError("%s:%d: character loop outside a recognised function" % (rel, s.count("\n", 0, m.start()) + 1))
                    char_loops.append({"file": rel, "line": s.count("\n", 0, m.start()) + 1, "func": f, "cond": c, "cls": cls})
            for m in re.finditer(r"\bwhile\s*\(", s):
                e = balanced(s, m.end() - 1, "(", ")")
                cond = s[m.end():e]
                k = e + 1
                while k < len(s) and s[k] in " \n\t":
                    k += 1
                if k >= len(s) or s[k] != "{":
                    continue
                be = balanced(s, k, "{", "}")
                body = s[k:be + 1]
                walk = re.findall(r"\b(\w+)\s*=\s*\1->Get(?:Next|Prev)\w*\(", body)
                walk += re.findall(r"\(\s*(\w+)\s*=\s*\w+->Get(?:Next|Prev)\w*\([^)]*\)\s*\)\s*->Is", cond)
                # two-step walk:  Chunk *n = v->GetNext..();  ...  v = n;
                for n, v in re.findall(r"\b(\w+)\s*=\s*(\w+)->Get(?:Next|Prev)\w*\(", body):
                    if n != v and re.search(r"\b%s\s*=\s*%s\s*;" % (re.escape(v), re.escape(n)), body) and re.search(r"\b%s\b" % re.escape(v), cond):
                        walk.append(v)
                if not walk:
                    continue
                f = fn_at(funcs, m.start())
                if f is None:
                    raise ValueError("%s:%d: chunk-walk loop outside a recognised function" % (rel, s.count("\n", 0, m.start()) + 1))
                c = re.sub(r"\s+", " ", cond).strip()
                loops.append({"file": rel, "line": s.count("\n", 0, m.start()) + 1, "func": f, "cond": c, "cls": cond_class(cond, body)})
            # do-while loops that walk the chunk list:  do { v = v->GetNext..(); ... } while (cond);   (newline_case() hung in one)
            for m in re.finditer(r"\bdo\s*\{", s):
                k = s.index("{", m.start())
                be = balanced(s, k, "{", "}")
                body = s[k:be + 1]
                mw = re.match(r"\s*while\s*\(", s[be + 1:])
                if not mw:
                    continue
                cs = be + 1 + mw.end()
                e = balanced(s, cs - 1, "(", ")")
                cond = s[cs:e]
                walk = re.findall(r"\b(\w+)\s*=\s*\1->Get(?:Next|Prev)\w*\(", body)
                if not walk:
                    continue
                f = fn_at(funcs, m.start())
                if f is None:
                    raise ValueError("%s:%d: do-while chunk walk outside a recognised function" % (rel, s.count("\n", 0, m.start()) + 1))
                c = re.sub(r"\s+", " ", cond).strip()
                loops.append({"file": rel, "line": s.count("\n", 0, m.start()) + 1, "func": f, "cond": "do-while: " + c, "cls": cond_class(cond, body)})
            # for-loops that walk the chunk list in their increment:  for (init; cond; v = v->GetNext..())
            for m in re.finditer(r"\bfor\s*\(", s):
                e = balanced(s, m.end() - 1, "(", ")")
                hdr = s[m.end():e]
                parts, depth, cur = [], 0, ""
                for ch in hdr:
                    if ch in "([{":
                        depth += 1
                    elif ch in ")]}":
                        depth -= 1
                    if ch == ";" and depth == 0:
                        parts.append(cur)
                        cur = ""
                    else:
                        cur += ch
                parts.append(cur)
                if len(parts) != 3 or not re.search(r"\b(\w+)\s*=\s*\1->Get(?:Next|Prev)\w*\(", parts[2]):
                    continue
                k = e + 1
                while k < len(s) and s[k] in " \n\t":
                    k += 1
                body = s[k:balanced(s, k, "{", "}") + 1] if k < len(s) and s[k] == "{" else ""
                f = fn_at(funcs, m.start())
                if f is None:
                    raise ValueError("%s:%d: for-loop chunk walk outside a recognised function" % (rel, s.count("\n", 0, m.start()) + 1))
                cond = parts[1].strip()
                cls = cond_class(cond, body) if cond else ("Guarded" if re.search(r"(IsNullChunk|IsNotNullChunk)\(\)", body) and re.search(r"\b(break|return)\b", body) else "Open")
                for_loops.append({"file": rel, "line": s.count("\n", 0, m.start()) + 1, "func": f, "cond": re.sub(r"\s+", " ", cond) or "(none)", "cls": cls})
    if len(for_loops) < 60:
        raise ValueError("only %d for-loop chunk walks found" % len(for_loops))
    if len(exits) < 60 or len(loops) < 150:
        raise ValueError("inventory too small: %d exit sites, %d loops" % (len(exits), len(loops)))
    del EXITS[:]
    EXITS.extend(exits)
    del LOOPS[:]
    LOOPS.extend(loops)
    L = ["(* GENERATED by gen/gen_termination.py from every exit() call and every chunk-walk loop in /repo/src.  Do not edit. *)",
         "From Coq Require Import List ZArith.\nImport ListNotations.\nLocal Open Scope Z_scope.\n",
         "(* file, function, status expression, diagnostic written before it?, in the output phase? *)",
         "Definition exit_sites : list (list Z * list Z * list Z * bool * bool) := ["]
    L.append(";\n".join("  (%s, %s, %s, %s, %s) (* %s:%d %s exit(%s) *)" % (coq_bytes(x["file"]), coq_bytes(x["func"]), coq_bytes(x["status"]),
                                                                            "true" if x["diag"] else "false", "true" if x["output_phase"] else "false",
                                                                            x["file"], x["line"], x["func"], x["status"]) for x in exits))
    L.append("].\n")
    L.append("(* file, function, condition, class: 0 Guarded, 1 Positive, 2 Open *)")
    L.append("Definition chunk_loops : list (list Z * list Z * list Z * Z) := [")
    code = {"Guarded": 0, "Positive": 1, "Open": 2}
    L.append(";\n".join("  (%s, %s, %s, %d) (* %s:%d *)" % (coq_bytes(x["file"]), coq_bytes(x["func"]), coq_bytes(x["cond"][:200]), code[x["cls"]], x["file"], x["line"])
                        for x in loops))
    L.append("].\n")
    L.append("(* loops of the tokenizer that consume input characters: file, function, condition, class *)")
    L.append("Definition char_loops : list (list Z * list Z * list Z * Z) := [")
    L.append(";\n".join("  (%s, %s, %s, %d) (* %s:%d *)" % (coq_bytes(x["file"]), coq_bytes(x["func"]), coq_bytes(x["cond"][:200]), code[x["cls"]], x["file"], x["line"])
                        for x in char_loops))
    L.append("].\n")
    L.append("(* for-loops whose increment walks the chunk list: file, function, condition, class *)")
    L.append("Definition for_loops : list (list Z * list Z * list Z * Z) := [")
    L.append(";\n".join("  (%s, %s, %s, %d) (* %s:%d *)" % (coq_bytes(x["file"]), coq_bytes(x["func"]), coq_bytes(x["cond"][:200]), code[x["cls"]], x["file"], x["line"])
                        for x in for_loops))
    L.append("].\n")
    FOR_LOOPS[:] = for_loops
    if len(char_loops) < 30:
        raise ValueError("only %d character loops found in the tokenizer" % len(char_loops))
    from collections import Counter
    info = {"char_loops": len(char_loops), "char_loop_classes": dict(Counter(x["cls"] for x in char_loops)), "exit_sites": len(exits), "statuses": dict(Counter(x["status"] for x in exits)), "undiagnosed": sum(1 for x in exits if not x["diag"]),
            "for_loops": len(for_loops), "for_loop_classes": dict(Counter(x["cls"] for x in for_loops)), "loops": len(loops), "loop_classes": dict(Counter(x["cls"] for x in loops))}
    return {"file": OUT, "text": "\n".join(L), "info": info}


if __name__ == "__main__":
    r = generate("/repo")
    print(r["info"])
    for x in LOOPS:
        if x["cls"] == "Open":
            print("LOOP", x["file"], x["func"], "|", x["cond"][:100])
    for x in FOR_LOOPS:
        if x["cls"] == "Open":
            print("FOR", x["file"], x["line"], x["func"], "|", x["cond"][:100])
    for x in EXITS:
        if not x["diag"] or x["output_phase"]:
            print("EXIT", x)
