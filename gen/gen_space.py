"""Translator: the decision function do_space() of /repo/src/space.cpp -> coq/Gen/SpaceRules.v.
Every `return(...)` of do_space() becomes one site (line of the log_rule call that is last before it, rule name,
shape of the returned expression).  Any return or shape that is not recognised makes the translator fail loudly."""
import os
import re

OUT = "SpaceRules.v"
SITES = []     # for the harness: dicts of the last run


def coq_bytes(s):
    return "[" + ";".join(str(b) for b in s.encode("latin1")) + "]"


def body_of(src):
    i = src.index("static iarf_e do_space(Chunk *first, Chunk *second, int &min_sp)\n{")
    j = src.index("static iarf_e ensure_force_space(Chunk *first, Chunk *second, iarf_e av)\n{")
    return i, src[i:j]


IARF = {"IARF_IGNORE": 0, "IARF_ADD": 1, "IARF_REMOVE": 2, "IARF_FORCE": 3}


def generate(repo):
    src = open(os.path.join(repo, "src", "space.cpp")).read()
    # blank out comments (keeping every line break, so that line numbers stay right)
    src = re.sub(r"/\*.*?\*/", lambda m: re.sub(r"[^\n]", " ", m.group(0)), src, flags=re.S)
    src = re.sub(r"//[^\n]*", lambda m: " " * len(m.group(0)), src)
    start, body = body_of(src)
    line_of = lambda pos: src.count("\n", 0, start + pos) + 1
    # events in textual order
    ev = []
    for m in re.finditer(r'log_rule\("([^"]*)"\);', body):
        ev.append((m.start(), "log", m.group(1)))
    for m in re.finditer(r'log_rule\((?!")([^)]*)\);', body):
        ev.append((m.start(), "log", "(computed: %s)" % m.group(1).strip()))     # e.g. the text built for the two lookup tables
    for m in re.finditer(r"\breturn\(", body):
        # balanced parentheses
        k = m.end()
        depth = 1
        while depth:
            if body[k] == "(":
                depth += 1
            elif body[k] == ")":
                depth -= 1
            k += 1
        ev.append((m.start(), "ret", body[m.end():k - 1].strip()))
    for m in re.finditer(r"iarf_e\s+(\w+)\s*=\s*options::(\w+)\(\);", body):
        ev.append((m.start(), "var", (m.group(1), m.group(2))))
    for m in re.finditer(r"(?:iarf_flags_t|auto)\s+(\w+)\s*=\s*iarf_flags_t\{\s*options::(\w+)\(\)\s*\};", body):
        ev.append((m.start(), "var", (m.group(1), m.group(2))))
    for m in re.finditer(r"\b(\w+)\s*=\s*(?:\1\s*\|\s*IARF_ADD|IARF_IGNORE);", body):
        ev.append((m.start(), "mod", (m.group(1), body[m.start():m.end()])))
    for m in re.finditer(r"if \(options::(\w+)\(\) == IARF_REMOVE\)", body):
        ev.append((m.start(), "guard", m.group(1)))
    ev.sort()
    sites = []
    last_log = None
    var = {}
    mods = {}
    last_guard = None
    for pos, kind, val in ev:
        if kind == "log":
            last_log = (line_of(pos), val)
        elif kind == "var":
            var[val[0]] = (val[1], pos)
            mods[val[0]] = []
        elif kind == "mod":
            if val[0] in mods:
                mods[val[0]].append(val[1])
        elif kind == "guard":
            last_guard = (val, pos)
        else:
            e = val
            if last_log is None:
                raise ValueError("return(%s) at line %d without a preceding log_rule" % (e, line_of(pos)))
            line, rule = last_log
            if line_of(pos) - line > 40:
                raise ValueError("return(%s) at line %d: nearest log_rule is %d lines away" % (e, line_of(pos), line_of(pos) - line))
            m = re.fullmatch(r"options::(\w+)\(\)", e)
            if m:
                shape, opt, c = "Opt", m.group(1), 0
            elif e in IARF:
                shape, opt, c = "Const", "", IARF[e]
                # a constant returned under an option's name: must be the 'REMOVE is overridden with FORCE' guard
                if re.fullmatch(r"sp_\w+", rule) and e == "IARF_FORCE" and last_guard and last_guard[0] == rule and pos - last_guard[1] < 400:
                    shape, opt = "RemoveToForce", rule
            elif re.fullmatch(r"options::(\w+)\(\) \| IARF_ADD", e):
                shape, opt, c = "OrAdd", re.fullmatch(r"options::(\w+)\(\) \| IARF_ADD", e).group(1), 0
            elif re.fullmatch(r"(\w+) \| \(\(\1 != IARF_IGNORE\) \? IARF_ADD : IARF_IGNORE\)", e):
                v = re.fullmatch(r"(\w+) \|.*", e).group(1)
                if v not in var:
                    raise ValueError("unknown variable %s at line %d" % (v, line_of(pos)))
                shape, opt, c = "AddUnlessIgnore", var[v][0], 0
            elif re.fullmatch(r"\w+", e) and e in var:
                o = var[e][0]
                ms = mods.get(e, [])
                if not ms:
                    shape = "Opt"
                elif all("IARF_ADD" in x for x in ms):
                    shape = "MaybeOrAdd"
                elif all("IARF_IGNORE" in x for x in ms):
                    shape = "MaybeIgnore"
                else:
                    raise ValueError("variable %s modified in an unknown way before line %d" % (e, line_of(pos)))
                opt, c = o, 0
            else:
                raise ValueError("unrecognised return expression %r at line %d" % (e, line_of(pos)))
            sites.append({"line": line, "rule": rule, "shape": shape, "opt": opt, "const": c, "ret_line": line_of(pos)})
    nret = len(re.findall(r"\breturn\(", body))
    if nret != len(sites):
        raise ValueError("%d returns, %d sites" % (nret, len(sites)))
    del SITES[:]
    SITES.extend(sites)
    L = ["(* GENERATED by gen/gen_space.py from do_space() in /repo/src/space.cpp.  Do not edit. *)",
         "From Coq Require Import List ZArith.\nFrom UV Require Import Model.SpaceDefs.\nImport ListNotations.\nLocal Open Scope Z_scope.\n",
         "Definition space_sites : list site := ["]
    L.append(";\n".join("  mksite %d %s %s %s %d (* %s -> %s %s *)" % (s["line"], coq_bytes(s["rule"]), "S" + s["shape"], coq_bytes(s["opt"]), s["const"],
                                                                      s["rule"], s["shape"], s["opt"]) for s in sites))
    L.append("].\n")
    from collections import Counter
    info = {"sites": len(sites), "shapes": dict(Counter(s["shape"] for s in sites)), "log_rule_calls": body.count("log_rule(")}
    return {"file": OUT, "text": "\n".join(L), "info": info}


if __name__ == "__main__":
    r = generate("/repo")
    print(r["info"])
    for s in SITES:
        if s["shape"] not in ("Opt", "Const") or (s["shape"] == "Opt" and s["opt"] != s["rule"]):
            print(s)
