"""Translator: the mutable global `cpd` (struct cp_data_t, /repo/src/uncrustify_types.h) and every place in
/repo/src that writes one of its fields -> coq/Gen/Globals.v: for each field the functions that write it, split
into  R (uncrustify_end: the per-file reset, with the assigned value), P (assigned at the start of each file before
use: do_source_file, head of uncrustify_file, head of output_text, tail of tokenize), A (main: once per invocation)
and W (written while a file is processed).  Fails loudly when a field is written in a way it does not recognise."""
import os
import re

OUT = "Globals.v"
FIELDS = {}
STATICS = []

PREP_FUNCS = {"do_source_file", "uncrustify_file", "output_text", "uncrustify_start", "tokenize", "read_stdin", "load_mem_file", "codec_passthrough"}
ARG_FUNCS = {"main", "redir_stdout", "load_header_files", "load_mem_file_config", "process_source_list"}
# a write in one of PREP_FUNCS only counts as "prepared before use" when it is an unconditional top-level assignment
# of that function; that is decided per field in PREP_OK below (function -> fields), cross-checked against the scan
PREP_OK = {
    "do_source_file": {"lang_flags", "filename"},
    "uncrustify_file": {"bom", "enc", "unc_stage", "pass_count"},
    "output_text": {"fout", "did_newline", "column", "frag_cols", "output_tab_as_space", "output_trailspace"},
    "tokenize": {"newline"},
    "uncrustify_start": {"unc_stage", "frag_cols"},
}


def coq_bytes(s):
    return "[" + ";".join(str(b) for b in s.encode("latin1")) + "]"


def strip_comments(src):
    src = re.sub(r"/\*.*?\*/", lambda m: re.sub(r"[^\n]", " ", m.group(0)), src, flags=re.S)
    src = re.sub(r"//[^\n]*", lambda m: " " * len(m.group(0)), src)
    src = re.sub(r'"(?:[^"\\\n]|\\.)*"', lambda m: '"' + " " * (len(m.group(0)) - 2) + '"', src)
    return src


def functions(src):
    """(name, body) for top-level function definitions in uncrustify's own layout: '...name(...)' line(s), then '{' in column 0 ... '}' in column 0"""
    out = []
    for m in re.finditer(r"^\{\n(.*?)^\}", src, flags=re.S | re.M):
        head = src[max(0, m.start() - 600):m.start()]
        hm = None
        for hm in re.finditer(r"(?:^|\n)[^\n;{}#]*?\b(\w+)\s*\([^;{}]*\)\s*(?:const\s*)?\n$", head):
            pass
        name = hm.group(1) if hm else "?"
        out.append((name, m.group(1), m.start()))
    return out


def generate(repo):
    src_dir = os.path.join(repo, "src")
    th = strip_comments(open(os.path.join(src_dir, "uncrustify_types.h")).read())
    m = re.search(r"struct cp_data_t\s*\{(.*?)\n\};", th, re.S)
    if not m:
        raise ValueError("struct cp_data_t not found")
    fields = []
    for line in m.group(1).split("\n"):
        line = line.strip()
        if not line:
            continue
        fm = re.match(r"^(?:const\s+)?[\w:<>, \*]+?[\s\*]+\*?(\w+)(\[[^\]]*\])?\s*(=\s*[^;]+)?;$", line)
        if not fm:
            raise ValueError("cp_data_t member not recognised: %r" % line)
        fields.append((fm.group(1), (fm.group(3) or "").lstrip("= ").strip()))
    names = [f for f, _ in fields]
    info = {f: {"R": [], "P": [], "A": [], "W": [], "init": init} for f, init in fields}
    pat_w = [r"cpd\.(%s)(?:\[[^\]]*\])*(?:\.\w+)*\s*(?:=(?!=)|\+=|-=|\|=|&=)", r"cpd\.(%s)(?:\[[^\]]*\])*\s*(?:\+\+|--)", r"(?:\+\+|--)\s*cpd\.(%s)\b",
             r"cpd\.(%s)(?:\[[^\]]*\])*(?:\.|->)(?:clear|push_back|resize|insert|append|set|erase|pop_back|assign|reset)\s*\(",
             r"memset\(\s*&?cpd\.(%s)\b", r"&\s*cpd\.(%s)\b(?!\s*\[)", r"\(\s*cpd\.(%s)(?:\.\w+)?\s*,\s*[^)]*\)\s*;\s*//\s*OUT"]
    alt = "|".join(names)
    pats = [re.compile(p % alt) for p in pat_w]
    n_sites = 0
    for root, _, files in os.walk(src_dir):
        for fn in sorted(files):
            if not fn.endswith(".cpp") and fn != "verif_hooks.h":
                continue
            path = os.path.join(root, fn)
            src = strip_comments(open(path).read())
            # macros that write cpd fields
            src = re.sub(r"\bLE_COUNT\((\w+)\)", r"cpd.le_counts[LE_\1]", src)
            for name, body, pos in functions(src):
                for p in pats:
                    for wm in p.finditer(body):
                        f = wm.group(1)
                        n_sites += 1
                        stmt = body[wm.start():body.find(";", wm.start()) + 1].strip()
                        if name == "uncrustify_end":
                            info[f]["R"].append(stmt)
                        elif name in PREP_OK and f in PREP_OK[name] and body.count("{", 0, wm.start()) == body.count("}", 0, wm.start()) \
                                and re.match(r"cpd\.\w+\s*=(?!=)", stmt):
                            # an unconditional top-level assignment of the per-file set-up code
                            info[f]["P"].append("%s: %s" % (name, stmt[:60]))
                        elif name in ARG_FUNCS:
                            info[f]["A"].append(name)
                        else:
                            info[f]["W"].append("%s:%s" % (os.path.relpath(path, src_dir), name))
            # writes outside any recognised function body?
            total = sum(len(p.findall(src)) for p in pats)
            inside = sum(len(p.findall(b)) for _, b, _ in functions(src) for p in pats)
            if total != inside:
                raise ValueError("%s: %d writes of cpd fields, only %d inside recognised functions" % (fn, total, inside))
    if n_sites < 80:
        raise ValueError("only %d write sites found" % n_sites)
    # reset value must be the initial value for a reset to count
    zero = {"false", "0", "CT_NONE", "nullptr", ""}

    def reset_ok(f):
        if not info[f]["R"]:
            return False
        for stmt in info[f]["R"]:
            if stmt.startswith("memset"):
                continue
            if re.search(r"(?:\.|->)clear\(\)", stmt):
                continue
            v = stmt.split("=", 1)[1].strip(" ;") if "=" in stmt else "?"
            init = info[f]["init"] or "0"
            if not (v in zero and init in zero) and v != init:
                return False
        return True
    del_keys = []
    FIELDS.clear()
    FIELDS.update(info)
    L = ["(* GENERATED by gen/gen_globals.py from struct cp_data_t and every write of cpd.<field> in /repo/src.  Do not edit. *)",
         "From Coq Require Import List ZArith.\nImport ListNotations.\nLocal Open Scope Z_scope.\n",
         "(* field, written while processing a file?, reset to its initial value in uncrustify_end?, assigned per file before use? *)",
         "Definition cpd_fields : list (list Z * bool * bool * bool) := ["]
    rows = []
    for f in names:
        i = info[f]
        rows.append("  (%s, %s, %s, %s) (* %s: W=%s *)" % (coq_bytes(f), "true" if i["W"] else "false", "true" if reset_ok(f) else "false",
                                                          "true" if i["P"] else "false", f, ",".join(sorted(set(i["W"])))[:120]))
    L.append(";\n".join(rows))
    L.append("].\n")
    # ---- second inventory: static-storage variables outside cpd (file scope and function-local), every .cpp/.h
    statics = []
    for root, _, files in os.walk(src_dir):
        for fn in sorted(files):
            if not fn.endswith((".cpp", ".h")) or fn in ("verif_hooks.h", "uncrustify_emscripten.cpp"):
                continue
            path = os.path.join(root, fn)
            rel = os.path.relpath(path, src_dir)
            lines = strip_comments(open(path).read()).split("\n")
            for ln, line in enumerate(lines):
                sm = re.match(r"^(\s*)(?:thread_local\s+)?static\s+(.*)$", line)
                if not sm or "static_assert" in line or "operator" in line or "WINAPI" in line:
                    continue
                indent, rest = sm.group(1), sm.group(2).rstrip()
                head = re.split(r"[=;{]", rest, 1)[0]
                if not indent or fn.endswith(".h"):
                    # file scope / class scope: a '(' in front of any '=' means a function (declaration or definition)
                    if "(" in head or rest.endswith(",") or re.match(r"^(inline|constexpr\s+\w+\s+\w+\()", rest):
                        continue
                else:
                    # inside a function body every 'static' declares a variable, also 'static T name(args);'
                    head = head.split("(", 1)[0]
                nm = re.findall(r"[A-Za-z_]\w*", re.sub(r"\[[^\]]*\]", "", head))
                if not nm:
                    raise ValueError("%s:%d: static declaration not understood: %r" % (rel, ln + 1, line))
                const = bool(re.search(r"\b(const|constexpr)\b", head))
                statics.append({"file": rel, "name": nm[-1], "const": const, "local": bool(indent) and not fn.endswith(".h"), "line": ln + 1, "decl": rest[:90]})
    if len(statics) < 25:
        raise ValueError("only %d static variables found" % len(statics))
    STATICS[:] = statics
    L.append("(* static-storage variables outside cpd: file, name, declared const?, function-local? *)")
    L.append("Definition static_vars : list (list Z * list Z * bool * bool) := [")
    L.append(";\n".join("  (%s, %s, %s, %s) (* %s:%d %s *)" % (coq_bytes(x["file"]), coq_bytes(x["name"]), "true" if x["const"] else "false", "true" if x["local"] else "false",
                                                              x["file"], x["line"], x["decl"].replace("*)", "* )").replace("(*", "( *").replace('"', "'")) for x in statics))
    L.append("].\n")
    text = "\n".join(L)
    summary = {"fields": len(names), "write_sites": n_sites, "static_vars": len(statics),
               "W_not_reset_or_prepared": [f for f in names if info[f]["W"] and not reset_ok(f) and not info[f]["P"]],
               "reset": [f for f in names if reset_ok(f)]}
    return {"file": OUT, "text": text, "info": summary}


if __name__ == "__main__":
    r = generate("/repo")
    print(r["info"])
    for x in STATICS:
        print("STATIC", x["file"], x["name"], "const" if x["const"] else "mutable", "local" if x["local"] else "file", "|", x["decl"])
    for f, i in FIELDS.items():
        print(f, "| R:", i["R"], "| P:", i["P"][:2], "| A:", sorted(set(i["A"])), "| W:", sorted(set(i["W"]))[:6])
