#!/bin/sh
# Maintenance tool: like run_seeds.sh, for the stored seeds of the given property ids only; result lines on stdout
cd "$(dirname "$0")/.." || exit 2
[ -z "$(git -C /repo status --short -- src)" ] || { echo "/repo/src is not clean"; exit 2; }
for id in "$@"; do
  for p in seeded/$id/patch.diff seeded/$id/round*/patch.diff; do
    [ -f "$p" ] || continue
    if ! git -C /repo apply --check "/verif/$p" 2>/dev/null; then echo "$p no-longer-applies"; continue; fi
    git -C /repo apply "/verif/$p"
    res=missed
    for s in 1 2; do
        if VERIF_SEED=$s ./check "$id" 2>/dev/null | grep -q "^VIOLATION"; then res="caught(seed $s)"; break; fi
    done
    git -C /repo checkout -- src
    echo "$p $res"
  done
done
git checkout -- evidence 2>/dev/null
