#!/bin/sh
# Maintenance tool (not registered in MANIFEST.json): applies every stored seeded change to /repo in turn, runs the quick
# check of its property, reverts it, and reports whether the check fired.  /repo must be clean; it is left clean and the
# instrumented build is rebuilt from the clean tree at the end.
cd "$(dirname "$0")/.." || exit 2
[ -z "$(git -C /repo status --short -- src)" ] || { echo "/repo/src is not clean"; exit 2; }
out=${1:-/verif/_work/seed_matrix.txt}
: > "$out"
for p in seeded/C*/patch.diff seeded/C*/round*/patch.diff; do
    [ -f "$p" ] || continue
    id=$(echo "$p" | cut -d/ -f2)
    if ! git -C /repo apply --check "/verif/$p" 2>/dev/null; then
        echo "$p no-longer-applies" >> "$out"; continue
    fi
    git -C /repo apply "/verif/$p"
    res=missed
    for s in 1 2; do
        if VERIF_SEED=$s ./check "$id" 2>/dev/null | grep -q "^VIOLATION"; then res="caught(seed $s)"; break; fi
    done
    git -C /repo checkout -- src
    echo "$p $res" >> "$out"
done
./setup.sh >/dev/null 2>&1
VERIF_SEED=1 ./check C06 >/dev/null 2>&1     # rebuilds the sanitizer binary from the clean tree
cat "$out"
