#!/bin/sh
# Maintenance tool: tries the round-4 seeds of the given property ids (patches under /tmp/seed4_<ID>/demo/patch.diff) against the quick check
cd /verif || exit 2
for id in "$@"; do
    p=/tmp/${SEEDPFX:-seed4}_$id/demo/patch.diff
    [ -f "$p" ] || { echo "$id no-patch"; continue; }
    [ -z "$(git -C /repo status --short -- src)" ] || { echo "/repo/src is not clean"; exit 2; }
    git -C /repo apply --check "$p" 2>/dev/null || { echo "$id does-not-apply"; continue; }
    git -C /repo apply "$p"
    res=missed
    for s in 1 2; do
        VERIF_SEED=$s ./check "$id" > _work/${SEEDPFX:-seed4}_$id.$s.log 2>&1
        if grep -q "^VIOLATION" _work/${SEEDPFX:-seed4}_$id.$s.log; then res="caught(seed $s)"; break; fi
    done
    git -C /repo checkout -- src
    echo "$id $res $(grep '^VIOLATION' _work/${SEEDPFX:-seed4}_$id.*.log | head -2 | tr '\n' ' ')"
done
