#!/bin/sh
# Maintenance tool: confirms the round-4 seeds in their scratch worktrees (changed build passes ctest; demo exits 1 with the change, 0 without)
for id in "$@"; do
    wt=/tmp/${SEEDPFX:-seed4}_$id
    [ -d "$wt/demo" ] || { echo "$id no-demo"; continue; }
    # the worktree must still carry exactly the stored patch
    git -C "$wt" diff -- src > /tmp/${SEEDPFX:-seed4}_$id.cur.diff
    same=no; cmp -s /tmp/${SEEDPFX:-seed4}_$id.cur.diff "$wt/demo/patch.diff" && same=yes
    cmake --build "$wt/_build" -j16 >/dev/null 2>&1; b=$?
    (cd "$wt/_build" && ctest -j16 --timeout 900 > /tmp/${SEEDPFX:-seed4}_$id.ctest.log 2>&1)
    t=$(grep -E "tests passed" /tmp/${SEEDPFX:-seed4}_$id.ctest.log | head -1)
    sh "$wt/demo/demo.sh" "$wt/_build/uncrustify" >/dev/null 2>&1; d1=$?
    sh "$wt/demo/demo.sh" "$wt/_build_orig/uncrustify" >/dev/null 2>&1; d0=$?
    echo "$id patch-matches-worktree=$same build=$b ctest='$t' demo_changed=$d1 demo_original=$d0"
done
