#!/usr/bin/env python3
"""Maintenance tool (not run by any check): enumerates the fixed universe of generated programs of C05 (lib/props/c05.py
gen_program(0..UNIVERSE-1) x profiles) on the current build and rewrites the 'fixpoint|<profile>|gen:<i>' entries of
known_findings.json.  To be run - on the unchanged tree only - after the generators (lib/cprogs.py, lib/progs.py) were changed,
because program i is then another program.  The checks never write to known_findings.json."""
import json
import os
import sys
import tempfile
import threading
from collections import Counter
from concurrent.futures import ThreadPoolExecutor
ROOT = os.path.dirname(os.path.dirname(os.path.abspath(__file__)))
sys.path.insert(0, ROOT)
from lib.props import c05   # noqa: E402

CAUSE = {
    "space-before-comment:zero-gap": "a trailing comment keeps its original column; when the statement in front of it moves right past that column pass 1 writes the comment directly behind the code (';// t') and pass 2, seeing no gap, inserts one blank (profiles that leave sp_before_tr_cmt at ignore)",
    "trailing-comment:column": "trailing comments are placed from their ORIGINAL columns (align_right_cmt_span / KEEP_ABS): after pass 1 has moved the code the same rule yields another column in pass 2",
    "trailing-comment:after-brace": "a trailing comment behind a closing brace is a 'brace comment' when its gap is < 3; the gap is taken from the layout the first pass happens to produce, so pass 2 classifies and aligns it differently (get_comment_align_type / align_trailing_comments)",
    "alignment:assign": "align_assign_span > 0: a compound assignment directly after a declaration with initialiser inside a one-line block is aligned with the '=' of the declaration only in pass 2 (pass 1 still sees the block on one line)",
    "spacing:&": "profile klaus (mod_paren_on_return=add, sp_addr ignore, sp_arith force): '&' in an unparenthesised return expression is taken for address-of in pass 1 (author's spacing kept) and for the binary operator in pass 2",
    "spacing:^": "profile klaus (mod_paren_on_return=add): '^' after '(v1 > v3) * g2 <= v0' is taken for a block caret in pass 1 ('v0 ^f0(v0)') and for the operator in pass 2",
    "spacing:*": "profile klaus (sp_arith=force, sp_deref ignore): the classification of '*' depends on the spacing pass 1 produced",
    "content": "profiles ben/klaus (nl_var_def_blk_end_func_top=1): the blank line behind the variable definitions of a function whose whole body stood on one input line ('int vnest(int a) { int r = 0; int i; if (a) ...') is added only by pass 2; it shows only behind certain preceding functions (a dangling else with a trailing comment two functions earlier), and could not be reduced to a stand-alone input - the newline passes see the definitions still on the line of the opening brace in pass 1",
    "wholeline-comment:after-trailing": "indent_comment_align_thresh (default 3): a comment on its own line below a trailing comment is aligned with it when their ORIGINAL columns are at most 3 apart; pass 1 moves both lines and pass 2 measures other distances (indent.cpp indent_comment() rule 3)",
}


def main():
    profiles = sorted(f for f in os.listdir(c05.PROFILES) if f.endswith(".cfg"))
    tl = threading.local()
    base = tempfile.mkdtemp(prefix="c05u_", dir=c05.common.WORK)

    def work(job):
        i, p = job
        if not hasattr(tl, "wd"):
            tl.wd = tempfile.mkdtemp(dir=base)
        cpp, src = c05.gen_program(i)
        key, what = c05.passes(os.path.join(c05.PROFILES, p), "CPP" if cpp else "C", src, tl.wd, True)
        return i, p, key, what
    out = []
    with ThreadPoolExecutor(max_workers=14) as ex:
        for i, p, key, what in ex.map(work, [(i, p) for i in range(c05.UNIVERSE) for p in profiles]):
            if key and key != "skip":
                out.append((i, p, key, what))
    print(len(out), Counter(k for _, _, k, _ in out))
    path = os.path.join(ROOT, "known_findings.json")
    d = json.load(open(path))
    keep = [f for f in d["findings"] if not (f["property"] == "C05" and "|gen:" in (f.get("key") or ""))]
    for i, prof, key, what in out:
        cls = key.split(":", 1)[1] if ":" in key else key
        keep.append({"property": "C05", "key": "fixpoint|%s|gen:%d" % (prof[:-4], i),
                     "what": "listed exception of the generated universe: gen:%d under profile %s is not a fixed point after one pass [%s]: %s"
                             % (i, prof[:-4], cls, CAUSE.get(cls, "cause not yet analysed - look at it before listing it")),
                     "input": "lib/props/c05.py gen_program(%d) with profiles/%s, formatted twice; %s" % (i, prof, (what or "")[:160])})
    d["findings"] = keep
    json.dump(d, open(path, "w"), indent=1)
    import shutil
    shutil.rmtree(base, ignore_errors=True)


if __name__ == "__main__":
    main()
