(* Handlers for the further models are registered here (one section per model). *)
open Uvmodel

let register (_h : (string, string list -> string) Hashtbl.t)
    (_z_of_int : int -> z) (_int_of_z : z -> int)
    (_nat_of_int : int -> nat) (_int_of_nat : nat -> int)
    (_ints_of_csv : string -> z list) (_csv_of_ints : z list -> string) : unit = ()
