(* Handlers for the further models are registered here (one section per model). *)
open Uvmodel

let hexval c =
  match c with
  | '0'..'9' -> Char.code c - 48
  | 'a'..'f' -> Char.code c - 87
  | 'A'..'F' -> Char.code c - 55
  | _ -> failwith "hex"

let register (h : (string, string list -> string) Hashtbl.t)
    (z_of_int : int -> z) (int_of_z : z -> int)
    (nat_of_int : int -> nat) (int_of_nat : nat -> int)
    (ints_of_csv : string -> z list) (csv_of_ints : z list -> string) : unit =
  let bytes_of_hex (s : string) : z list =
    if s = "-" then [] else
    let n = String.length s / 2 in
    let rec go i acc = if i < 0 then acc else go (i - 1) (z_of_int (hexval s.[2*i] * 16 + hexval s.[2*i+1]) :: acc) in
    go (n - 1) [] in
  let hex_of_bytes (l : z list) : string =
    if l = [] then "-" else String.concat "" (List.map (fun z -> Printf.sprintf "%02x" ((int_of_z z) land 255)) l) in
  (* ---------------- Model E: FsProto ----------------
     fsproto <mode bits: in_place to_file no_backup if_changed do_check keep_mtime> <orig hex> <fmt hex|FAIL>
             <backup hex|none> <md5-of hex|none> <out hex|none> <tmp hex|none> <plan: k:fail;k:full=j;k:crash;k:crashw=j | none> *)
  let content_str = function
    | Data b -> "D:" ^ hex_of_bytes b
    | Digest b -> "G:" ^ hex_of_bytes b
    | DigestPrefix (b, j) -> "P" ^ string_of_int (int_of_nat j) ^ ":" ^ hex_of_bytes b in
  let fstate_str = function
    | Absent -> "A"
    | Closed c -> "C:" ^ content_str c
    | Writing (c, e) -> "W:" ^ content_str c ^ (if e then ":err" else ":ok") in
  let opk_str = function
    | KStat -> "stat" | KFopenR -> "fopen-r" | KFopenW -> "fopen-w" | KFread -> "fread" | KFclose -> "fclose"
    | KWrite -> "write" | KRename -> "rename" | KUnlink -> "unlink" | KOpen -> "open" | KRead -> "read"
    | KClose -> "close" | KUtime -> "utime" in
  let role_str = function RIn -> "in" | ROut -> "out" | RTmp -> "tmp" | RBackup -> "backup" | RMd5 -> "md5" in
  Hashtbl.replace h "fsproto" (fun args ->
    match args with
    | [bits; orig; fmt; backup; md5; outf; tmpf; plan_s] ->
      let b i = bits.[i] = '1' in
      let md = { in_place = b 0; to_file = b 1; no_backup = b 2; if_changed = b 3; do_check = b 4; keep_mtime = b 5 } in
      let orig_b = bytes_of_hex orig in
      let fmt_f = (fun _ -> if fmt = "FAIL" then None else Some (bytes_of_hex fmt)) in
      let file s mk = if s = "none" then Absent else Closed (mk (bytes_of_hex s)) in
      let d0 = (fun r -> match r with
        | RIn -> if orig = "none" then Absent else Closed (Data orig_b)
        | RBackup -> file backup (fun x -> Data x)
        | RMd5 -> file md5 (fun x -> Digest x)
        | ROut -> file outf (fun x -> Data x)
        | RTmp -> file tmpf (fun x -> Data x)) in
      let faults = ref [] and crash = ref None in
      if plan_s <> "none" then
        List.iter (fun item ->
          match String.split_on_char ':' item with
          | [k; "fail"] -> faults := (int_of_string k, FFail) :: !faults
          | [k; "crash"] -> crash := Some (nat_of_int (int_of_string k), None)
          | [k; a] when String.length a > 5 && String.sub a 0 5 = "full=" ->
            faults := (int_of_string k, FFull (nat_of_int (int_of_string (String.sub a 5 (String.length a - 5))))) :: !faults
          | [k; a] when String.length a > 7 && String.sub a 0 7 = "crashw=" ->
            crash := Some (nat_of_int (int_of_string k), Some (nat_of_int (int_of_string (String.sub a 7 (String.length a - 7)))))
          | _ -> failwith "plan") (String.split_on_char ';' plan_s);
      let pl = { faults = (fun n -> List.assoc_opt (int_of_nat n) !faults); crash = !crash } in
      let r = run pl md fmt_f d0 in
      let ex = match r.r_exit with None -> "K" | Some z -> string_of_int (int_of_z z) in
      let tr = String.concat ";" (List.map (fun e -> Printf.sprintf "%s %s %s" (opk_str e.e_op) (role_str e.e_role) (if e.e_ok then "ok" else "ERR")) r.r_trace) in
      let dsk = String.concat " " (List.map (fun ro -> role_str ro ^ "=" ^ fstate_str (r.r_disk ro)) [RIn; ROut; RTmp; RBackup; RMd5]) in
      let so = match r.r_out with None -> "none" | Some o -> hex_of_bytes o.stdout in
      Printf.sprintf "exit=%s ops=%d stdout=%s | %s | %s" ex (int_of_nat r.r_ops) so dsk tr
    | _ -> failwith "fsproto args");
  (* ---------------- Model E': Backup (content level; digest := bytes, h := identity) ----------------
     backup_step <file hex> <backup hex|none> <complete 0|1> <md5-of hex|none> <prot hex>
                 <event: E:<hex> | R:<out hex|FAIL>:<K0|K1.j|K2|K3|C>>
     -> admissible file backup complete md5 prot' *)
  (* ---------------- Model D: configuration ----------------
     cfg_load <line hex|-> ... (one argument per line; '-' = empty line); optional first arg "set:<name hex>:<value hex>" items
     -> N=<non default count> | saved lines (hex, ';' separated) | diags "line:kind:opt;..." *)
  let diag_str = function
    | DUnterminated -> "unterminated:-" | DUnexpectedText -> "unexpected-text:-"
    | DFewArgs c -> "few-args:" ^ hex_of_bytes c
    | DUnknownOption n -> "unknown-option:" ^ hex_of_bytes n
    | DUnknownType n -> "unknown-type:" ^ hex_of_bytes n
    | DUnknownLang n -> "unknown-lang:" ^ hex_of_bytes n
    | DBadValue o -> "bad-value:" ^ hex_of_bytes o
    | DBadRef (o, r) -> "bad-ref:" ^ hex_of_bytes o
    | DLess o -> "less:" ^ hex_of_bytes o
    | DGreater o -> "greater:" ^ hex_of_bytes o
    | DDeprecated n -> "deprecated:" ^ hex_of_bytes n
    | DBadVersion -> "bad-version:-" | DEmptyInclude -> "empty-include:-" in
  Hashtbl.replace h "cfg_load" (fun args ->
    let sets = List.filter (fun a -> String.length a > 4 && String.sub a 0 4 = "set:") args in
    let lines = List.filter (fun a -> not (String.length a > 4 && String.sub a 0 4 = "set:")) args in
    let lines_b = List.map bytes_of_hex lines in
    let printable = List.for_all line_printable lines_b in
    if not printable then "NOTPRINTABLE" else
    let (st, ds) = cfg_load cfg_init lines_b in
    let (st, ds2) = List.fold_left (fun (st, acc) a ->
        match String.split_on_char ':' a with
        | [_; n; v] -> let (st', d) = cfg_set_option st (bytes_of_hex n) (bytes_of_hex v) in (st', acc @ List.map (fun x -> (O, x)) d)
        | _ -> failwith "set arg") (st, []) sets in
    let saved = String.concat ";" (List.map hex_of_bytes (cfg_save st)) in
    let dstr = String.concat ";" (List.map (fun (ln, d) -> string_of_int (int_of_nat ln) ^ ":" ^ diag_str d) (ds @ ds2)) in
    let incs = String.concat ";" (List.map hex_of_bytes st.includes) in
    Printf.sprintf "N=%d | %s | %s | %s" (int_of_nat (cfg_non_default st)) saved dstr incs);
  (* ---------------- Model B: render ----------------
     render <opts iwt:ppiwt:ts:awt:akt:spnc:ftad:cts:inpp> <newline csv> <last_char> <spaces> <chunk>...
     chunk = kind:text:col:colind:nlcount:nlcol:origcol:origprevsp:pre:aligned:aftertab:lvlhack:ppdef:str:strmulti:ppignore:cmt:seg:segstate *)
  let zi s =
    if String.length s < 18 then z_of_int (int_of_string s)
    else (* size_t values that wrapped around: build the number digit by digit *)
      let acc = ref Z0 in
      String.iter (fun ch -> if ch >= '0' && ch <= '9' then
                      acc := Z.add (Z.mul !acc (z_of_int 10)) (z_of_int (Char.code ch - 48))) s;
      if String.length s > 0 && s.[0] = '-' then Z.opp !acc else !acc in
  let mk c =
    (match String.split_on_char ':' c with
     | [k; txt; col; ci; nc; ncol; oc; ops; pre; al; at; lh; pd; st; sm; pi; cm; sg; ss] ->
       let kind = (match k with "N" -> CKNewline | "C" -> CKNlCont | "M" -> CKComment | "I" -> CKIgnored | "O" -> CKOther | _ -> CKSkipped) in
       let (sc, ssp, sl, sd) = (match String.split_on_char '.' ss with
         | [a;b;c;d] -> (zi a, zi b, zi c, d = "1") | _ -> failwith "segstate") in
       { ck = kind; text = ints_of_csv txt; col = zi col; col_indent = zi ci; nl_count = zi nc; nl_col = zi ncol;
         orig_col = zi oc; orig_prev_sp = zi ops; preproc = (pre = "1"); was_aligned = (al = "1"); after_tab = (at = "1");
         lvl_hack = (lh = "1"); is_pp_define = (pd = "1"); is_string = (st = "1"); is_string_multi = (sm = "1");
         is_pp_ignore = (pi = "1"); is_comment_kind = (cm = "1"); seg = ints_of_csv sg;
         seg_column = sc; seg_spaces = ssp; seg_last = sl; seg_did_nl = sd }
     | _ -> failwith ("chunk fields: " ^ c)) in
  Hashtbl.replace h "render" (fun args ->
    match args with
    | os :: nl :: last :: sp :: chunks ->
      let o = (match String.split_on_char ':' os with
        | [a;b;c;d;e;f;g;hh;i] ->
          { indent_with_tabs = zi a; pp_indent_with_tabs = zi b; output_tab_size = zi c; align_with_tabs = (d = "1");
            align_keep_tabs = (e = "1"); sp_before_nl_cont = zi f; force_tab_after_define = (g = "1");
            cmt_convert_tab_to_spaces = (hh = "1"); in_preproc_at_output = (i = "1") }
        | _ -> failwith "render opts") in
      let l = List.map mk chunks in
      csv_of_ints (realise (ints_of_csv nl) (render o (zi last) (zi sp) l))
    | _ -> failwith "render args");
  (* K_nlmax (Model/NlMax.v): nlmax <N> <chunk>... -> "<accepted 0|1> <all chunks in the theorem's scope 0|1>" *)
  Hashtbl.replace h "nlmax" (fun args ->
    match args with
    | n :: chunks ->
      let l = List.map mk chunks in
      Printf.sprintf "%d %d" (if nlmax_ok (nat_of_int (int_of_string n)) l then 1 else 0)
        (if List.for_all in_scope l then 1 else 0)
    | _ -> failwith "nlmax args");
  (* Model/NlAuto.v: nlauto <lf|crlf|cr|auto> <n_lf> <n_crlf> <n_cr> <input hex|->
     -> "<terminator selected for the given census> <census of the bytes: lf,crlf,cr> <terminator selected for that census>" *)
  Hashtbl.replace h "nlauto" (fun args ->
    match args with
    | [s; a; b; c; hex] ->
      let st = (match s with "lf" -> SLf | "crlf" -> SCrlf | "cr" -> SCr | "auto" -> SAuto | _ -> failwith "nlauto setting") in
      let le_str = function LF -> "lf" | CRLF -> "crlf" | CR -> "cr" in
      let given = { n_lf = nat_of_int (int_of_string a); n_crlf = nat_of_int (int_of_string b); n_cr = nat_of_int (int_of_string c) } in
      let cs = census_of (bytes_of_hex hex) in
      Printf.sprintf "%s %d,%d,%d %s" (le_str (select_le st given)) (int_of_nat cs.n_lf) (int_of_nat cs.n_crlf) (int_of_nat cs.n_cr)
        (le_str (select_le st cs))
    | _ -> failwith "nlauto args");
  (* Model H (Model/ChunkList.v): listops <fuel> <op;op;...>  with op = A,o,r,nl,cnt | B,o,r,nl,cnt | D,x | M,x,r | S,a,b | L,a,b
     -> "F id:nlcount ... | R id ..."  (the same line the hook UNC_VERIF_LISTOPS prints) *)
  Hashtbl.replace h "listops" (fun args ->
    match args with
    | [fuel; ops] ->
      let n x = nat_of_int (int_of_string x) in
      let parse t = match String.split_on_char ',' t with
        | ["A"; o; r; nl; c] -> NewAfter (n o, n r, nl <> "0", n c)
        | ["B"; o; r; nl; c] -> NewBefore (n o, n r, nl <> "0", n c)
        | ["D"; x] -> Delete (n x)
        | ["M"; x; r] -> MoveAfter (n x, n r)
        | ["S"; a; b] -> Swap (n a, n b)
        | ["L"; a; b] -> SwapLines (n a, n b)
        | _ -> failwith "listops op" in
      let l = List.map parse (List.filter (fun t -> t <> "") (String.split_on_char ';' ops)) in
      let fu = n fuel in
      let (fw, bw) = cl_observe fu (cl_run fu l) in
      "F" ^ String.concat "" (List.map (fun (x, c) -> Printf.sprintf " %d:%d" (int_of_nat x) (int_of_nat c)) fw)
      ^ " | R" ^ String.concat "" (List.map (fun x -> Printf.sprintf " %d" (int_of_nat x)) bw)
    | _ -> failwith "listops args");
  (* slguard <fuel> <op;op;...> <a> <b> -> 1/0: swap_lines_guard (Proofs/ChunkListProofs.v, the hypothesis of C02_swap_lines_keeps_every_chunk) in the state after the ops *)
  Hashtbl.replace h "slguard" (fun args ->
    match args with
    | [fuel; ops; a; b] ->
      let n x = nat_of_int (int_of_string x) in
      let parse t = match String.split_on_char ',' t with
        | ["A"; o; r; nl; c] -> NewAfter (n o, n r, nl <> "0", n c)
        | ["B"; o; r; nl; c] -> NewBefore (n o, n r, nl <> "0", n c)
        | ["D"; x] -> Delete (n x)
        | ["M"; x; r] -> MoveAfter (n x, n r)
        | ["S"; a; b] -> Swap (n a, n b)
        | ["L"; a; b] -> SwapLines (n a, n b)
        | _ -> failwith "slguard op" in
      let l = List.map parse (List.filter (fun t -> t <> "") (String.split_on_char ';' ops)) in
      let fu = n fuel in
      if swap_lines_guard fu (cl_run fu l) (n a) (n b) then "1" else "0"
    | _ -> failwith "slguard args");
  Hashtbl.replace h "check_exit" (fun args ->
    match args with
    | [bits] ->
      let l = List.init (String.length bits) (fun i -> bits.[i] = '1') in
      string_of_int (int_of_z (check_exit l))
    | _ -> failwith "check_exit args");
  (* ---------------- Model C-off: Region ----------------
     region <enabling text csv> <text csv>  ->  chunks "I:<csv>" / "N:<count>" ... then "R:<length of what is left>" *)
  Hashtbl.replace h "region" (fun args ->
    match args with
    | [ont; txt] ->
      let l = ints_of_csv txt in
      let (cs, rest) = scan_off (ends_plain (ints_of_csv ont)) (nat_of_int (List.length l + 1)) l in
      String.concat " " (List.map (function RIgnored t -> "I:" ^ csv_of_ints t | RNewline n -> "N:" ^ string_of_int (int_of_nat n)) cs
                         @ ["R:" ^ string_of_int (List.length rest)])
    | _ -> failwith "region args");
  (* ---------------- LexSpecC ----------------
     lexc <text csv>  ->  one item per token: <kind letter><d|-><length>  (the texts are the consecutive slices of the input) *)
  Hashtbl.replace h "lexc" (fun args ->
    match args with
    | [txt] ->
      let l = ints_of_csv txt in
      let kl = function KWs -> "w" | KWord -> "W" | KNumber -> "N" | KPunct -> "P" | KStr -> "S" | KChar -> "C" | KCmtLine -> "l"
                      | KCmtBlock -> "b" | KDirHash -> "H" | KDirEnd -> "E" in
      let b = Buffer.create 4096 in
      List.iter (fun t -> Buffer.add_string b (kl t.tk); Buffer.add_string b (if t.tdir then "d" else "-");
                          Buffer.add_string b (string_of_int (List.length t.tt)); Buffer.add_char b ' ') (lex l);
      Buffer.contents b
    | _ -> failwith "lexc args");
  (* ---------------- TokDiff (C04 checker) ----------------
     tokdiff <allowed> <a> <b>   each a list of tokens "hexcsv;hexcsv;..." ("-" for none)  ->  "<diff_ok> <balanced a> <balanced b> <c04_ok>" *)
  Hashtbl.replace h "tokdiff" (fun args ->
    match args with
    | [al; a; b] ->
      let toks s = if s = "-" then [] else List.map ints_of_csv (String.split_on_char ';' s) in
      let bs x = if x then "1" else "0" in
      let (al, a, b) = (toks al, toks a, toks b) in
      String.concat " " [bs (diff_ok al a b); bs (balanced a); bs (balanced b); bs (c04_ok al a b)]
    | _ -> failwith "tokdiff args");
  Hashtbl.replace h "backup_step" (fun args ->
    match args with
    | [fl; bk; cpl; md; prot; ev] ->
      let s = { b_file = bytes_of_hex fl;
                b_backup = (if bk = "none" then None else Some (bytes_of_hex bk, cpl = "1"));
                b_md5 = (if md = "none" then None else Some (bytes_of_hex md)) } in
      let e = (match String.split_on_char ':' ev with
        | ["E"; c] -> Edit (bytes_of_hex c)
        | ["R"; out; ph] ->
          let f = (fun _ -> if out = "FAIL" then None else Some (bytes_of_hex out)) in
          let p = (if ph = "K0" then K0 else if ph = "K2" then K2 else if ph = "K3" then K3 else if ph = "C" then Completed
                   else K1 (nat_of_int (int_of_string (String.sub ph 3 (String.length ph - 3))))) in
          Run (f, p)
        | _ -> failwith "event") in
      let adm = admissible idh bytes_eqb s e in
      let s' = step idh bytes_eqb s e in
      let prot' = pstep idh bytes_eqb (bytes_of_hex prot) s e in
      let hx l = if l = [] then "-" else hex_of_bytes l in
      Printf.sprintf "%d %s %s %s %s" (if adm then 1 else 0) (hx s'.b_file)
        (match s'.b_backup with None -> "none 0" | Some (b, c) -> hx b ^ (if c then " 1" else " 0"))
        (match s'.b_md5 with None -> "none" | Some b -> hx b) (hx prot')
    | _ -> failwith "backup_step args")
