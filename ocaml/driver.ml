(* Line-oriented driver around the extracted models (Uvmodel).
   Trusted glue: conversion int <-> Z, hex parsing/printing, dispatch. *)
open Uvmodel

let rec pos_of_int (n : int) : positive =
  if n = 1 then XH
  else if n land 1 = 0 then XO (pos_of_int (n lsr 1))
  else XI (pos_of_int (n lsr 1))

let z_of_int (n : int) : z =
  if n = 0 then Z0 else if n > 0 then Zpos (pos_of_int n) else Zneg (pos_of_int (-n))

let rec int_of_pos (p : positive) : int =
  match p with XH -> 1 | XO q -> 2 * int_of_pos q | XI q -> 2 * int_of_pos q + 1

let int_of_z (z : z) : int =
  match z with Z0 -> 0 | Zpos p -> int_of_pos p | Zneg p -> - (int_of_pos p)

let rec nat_of_int n = if n <= 0 then O else S (nat_of_int (n - 1))
let rec int_of_nat = function O -> 0 | S n -> 1 + int_of_nat n

(* "-" = empty; otherwise comma separated hex numbers, or (for byte strings)
   a packed even-length hex string when prefixed with 'x' *)
let hexval c =
  match c with
  | '0'..'9' -> Char.code c - 48
  | 'a'..'f' -> Char.code c - 87
  | 'A'..'F' -> Char.code c - 55
  | _ -> failwith "hex"

let bytes_of_packed (s : string) : z list =
  let n = String.length s / 2 in
  let rec go i acc =
    if i < 0 then acc
    else go (i - 1) (z_of_int (hexval s.[2*i] * 16 + hexval s.[2*i+1]) :: acc) in
  go (n - 1) []

let packed_of_bytes (l : z list) : string =
  let b = Buffer.create 1024 in
  List.iter (fun z -> Buffer.add_string b (Printf.sprintf "%02x" ((int_of_z z) land 0xff))) l;
  if Buffer.length b = 0 then "-" else Buffer.contents b

let ints_of_csv (s : string) : z list =
  if s = "-" || s = "" then []
  else List.map (fun t -> z_of_int (int_of_string ("0x" ^ t))) (String.split_on_char ',' s)

let csv_of_ints (l : z list) : string =
  if l = [] then "-"
  else String.concat "," (List.map (fun z -> Printf.sprintf "%x" (int_of_z z)) l)

let iarf_of_string = function
  | "i" -> Ignore | "a" -> Add | "r" -> Remove | "f" -> Force | _ -> failwith "iarf"

let enc_name = function
  | E_ASCII -> "ASCII" | E_BYTE -> "BYTE" | E_UTF8 -> "UTF8"
  | E_UTF16LE -> "UTF16LE" | E_UTF16BE -> "UTF16BE"

let handlers : (string, string list -> string) Hashtbl.t = Hashtbl.create 64

let () =
  (* codec <check_min> <utf8_bom i|a|r|f> <utf8_byte> <utf8_force> <packed hex bytes or -> *)
  Hashtbl.replace handlers "codec" (fun args ->
    match args with
    | [cm; bom; ub; uf; data] ->
      let o = { utf8_bom = iarf_of_string bom; utf8_byte = (ub = "1"); utf8_force = (uf = "1") } in
      let bs = if data = "-" then [] else bytes_of_packed data in
      (match run_file (cm = "1") o (fun x -> x) bs with
       | Refused -> "R"
       | Written out -> "W " ^ packed_of_bytes out)
    | _ -> failwith "codec args");
  (* decode <check_min> <packed> -> enc bom cps *)
  Hashtbl.replace handlers "decode" (fun args ->
    match args with
    | [cm; data] ->
      let bs = if data = "-" then [] else bytes_of_packed data in
      (match decode_unicode (cm = "1") bs with
       | None -> "R"
       | Some d -> Printf.sprintf "D %s %d %s" (enc_name d.d_enc) (if d.d_bom then 1 else 0) (csv_of_ints d.d_data))
    | _ -> failwith "decode args");
  Hashtbl.replace handlers "repo_check_min" (fun _ -> if repo_check_min then "1" else "0")

let () = Driver_ext.register handlers z_of_int int_of_z nat_of_int int_of_nat ints_of_csv csv_of_ints

let () =
  try
    while true do
      let line = input_line stdin in
      let out =
        match String.split_on_char ' ' line with
        | [] | [""] -> "?"
        | cmd :: args ->
          (match Hashtbl.find_opt handlers cmd with
           | None -> "ERR unknown command " ^ cmd
           | Some h -> (try h args with e -> "ERR " ^ Printexc.to_string e)) in
      print_string out; print_newline ()
    done
  with End_of_file -> ()
