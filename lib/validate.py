#!/usr/bin/env python3
"""Validate MANIFEST.json and evidence files against the schemas (uses the tooling venv's jsonschema)."""
import json, sys, glob
import jsonschema
m = json.load(open('/verif/MANIFEST.json'))
jsonschema.validate(m, json.load(open('/root/.vp/MANIFEST.schema.json')))
es = json.load(open('/root/.vp/EVIDENCE.schema.json'))
for f in sorted(glob.glob('/verif/evidence/*.json')):
    jsonschema.validate(json.load(open(f)), es)
    print("ok", f)
ids = [json.loads(l)["id"] for l in open('/verif/properties.jsonl')]
claimed = [c["property_id"] for c in m["checks"]]
na = [n["property_id"] for n in m.get("not_applicable", [])]
assert sorted(claimed + na) == sorted(ids), (claimed, na)
print("manifest ok; claimed:", claimed)
