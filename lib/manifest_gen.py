#!/usr/bin/env python3
"""Regenerates MANIFEST.json from the table below (kept in one place so that it always validates)."""
import json
import os
import subprocess

ROOT = os.path.dirname(os.path.dirname(os.path.abspath(__file__)))
TECH = "machine-checked proof in Coq (Rocq) + model/implementation correspondence"
CLAIMS = {
    "C09": ("proof",
            "Coq theorems over a hand-written model of unicode.cpp and the BOM policy, unbounded in text length: UTF-8/UTF-16 round trips for all code points, decoder injectivity, 'never silently altered' for every byte string, write-back in the same encoding and commutation with transcoding for any formatter on code points. The model is tied to the code by running the extracted model and the real codec (hook) on every Unicode scalar value in every encoding plus a malformed-input stream on every run.",
            "Trusted: Coq 8.16.1 kernel (vm_compute in one witness), extraction with ExtrOcamlBasic, ocaml/driver.ml glue, hook UNC_VERIF_CODEC, Python codecs, libc file I/O. The formatter's independence from encoding/BOM is a Section hypothesis (F arbitrary on code points) validated end-to-end by transcoding runs.",
            "DESIGN.md section 6 C09"),
    "C07": ("proof",
            "Coq theorems (Properties_C07.v): a model of the tokenizer's 'off' state (parse_ignored/parse_newline/parse_off_newlines) proved lossless for EVERY text - each non-blank line becomes exactly one IGNORED chunk with the line's text, in order, and the scan stops only at the end of the text or in front of a non-empty line holding the enabling text; the output-stage model writes any sequence of IGNORED/NEWLINE/textless chunks raw with exactly nl_count terminators and leaves a writer state independent of the texts; composed under contract K_region into: the non-blank lines of the realised output equal those of the input region, for every text, newline style and writer state. Tie on every run: the extracted Region model vs the hook dump of the real tokenizer from the start of each region; K_region evaluated on the .tok/.fin dumps; Render correspondence; byte oracle between tagged marker lines; opacity by replacing the regions' content (same shape / other shape) and comparing the output outside.",
            "Trusted: Coq kernel, extraction, driver glue, hooks. The passes between tokenizer and output are NOT modelled: K_region is a hypothesis of the end-to-end theorem, evaluated on every explored run. Entering the off state (marker search, '#pragma asm') and the line holding the enabling text are validated by the byte oracle only. Opacity is proved for the lexer's resume point and the writer state; for the middle passes it is validated by replacement runs. Layout differences outside a region that come from its SHAPE (number of lines, blank first line) under options defined on line counts are recorded as known findings.",
            "DESIGN.md section 6 C07"),
    "C13": ("proof",
            "Coq theorem C13_all_or_nothing over a model of do_source_file()/backup.cpp as a monadic list of libc-level operations on an abstract file system: for EVERY fault plan (any number of failing operations / full devices) and EVERY crash point (before any operation, inside any write), in every in-place mode, the path holds the complete original or complete formatted bytes, a due backup holds the original whenever the path changed, and exit 0 implies completion. Tie: an LD_PRELOAD interposer numbers the real binary's operations the same way; every crash/fault point of every scenario is replayed on the binary and trace, exit status and every file are compared with the model; the theorem's statement is also checked on the real file system after each run.",
            "Trusted: Coq kernel, extraction, driver glue, the interposer (glibc stdio, /dev/full as ENOSPC), atomic rename(2), no durability/fsync modelling, files < 1 KiB in the compare loop, MD5 abstracted as an injective digest (checked against hashlib on explored runs).",
            "DESIGN.md section 6 C13"),
    "C14": ("proof",
            "Coq theorems over a content-level model of the backup protocol (coq/Model/Backup.v): for EVERY history of user edits and completed --replace runs (any formatter per run) the backup holds exactly the text the file had before the earliest run since the last edit and the md5 file describes what uncrustify last left (refinement to a digest-free specification, by induction over the history); with runs killed in any phase, the text to protect stays recoverable along every admissible history (inductive invariant). The one excluded kill window is proved to be a real loss (witness theorem) and is a recorded finding. Tie: all histories up to length 3 (thorough 4) over edits / two configurations / kill phases are executed on the real binary and compared after every step with Backup.step and with the operation-level model FsProto.run.",
            "Trusted: Coq kernel, extraction, driver glue, interposer for kills; MD5 is abstracted as an injective digest (Section hypothesis h_inj, checked against hashlib on explored runs); an edit that retypes exactly uncrustify's recorded output is indistinguishable from no edit by design of the protocol and is excluded by 'admissible'.",
            "DESIGN.md section 6 C14"),
    "C12": ("proof",
            "Coq theorems over model E (FsProto): --check leaves every file untouched for EVERY fault plan and crash point; its exit status is 0 exactly when formatting reproduces the file (1 when it differs, the formatter's status when formatting fails); several files: status 0 iff none failed; --if-changed with -o/stdout writes exactly when the formatted bytes differ, then exactly those bytes, and touches nothing else (in-place variants are covered by C13's theorem). Tie: interposer trace/exit/files vs the extracted model, and direct oracles on real runs: directory snapshot (size, mtime, inode) around --check, PASS/FAIL lines and exit status against an independent normal run, bytes written by --if-changed against a normal run, for formatted/unformatted/empty inputs and one-byte perturbations (same-size middle/last byte, size +-1) in ASCII, UTF-8+BOM, UTF-16.",
            "Trusted: Coq kernel, extraction, driver glue, interposer; the int index of bout_content_matches is modelled as list equality (sizes < 2^31); stdin+--if-changed is a recorded finding.",
            "DESIGN.md section 6 C12"),
    "C15": ("proof",
            "Coq theorems over a model of the configuration reader and writer (split_args as a state machine, process_option_line, Option<T>::read for every kind incl. strtol, references and validation, save_option_file) parameterised by the registry that a translator regenerates from options.h/option.h/option.cpp on every run: for EVERY well-formed option table (all generated options, all enumerated values, all in-range numbers, all string values whatsoever) loading the lines the writer prints reproduces the table from any previous state with no diagnostic; idempotence; quoted-string and number round trips for all strings / all longs. The generated tables' side conditions (857 names, aliases, compat names) are re-proved by computation each run. Tie: translator + correspondence (binary --update-config vs extracted model: saved lines, count, diagnostics) exhaustively over options x candidate values, aliases, references, directives; reload/idempotence/with-doc/behaviour oracles on the binary.",
            "Trusted: Coq kernel incl. vm_compute for the generated-table checks, extraction, driver glue, translator gen/gen_registry.py. Keyword/file_ext lines are covered by correspondence and oracles, not by the load/save theorem. NUL bytes excluded; 'include' is an oracle.",
            "DESIGN.md section 6 C15"),
    "C16": ("proof",
            "Coq theorems over the same configuration model and generated registry: a value that is not accepted (wrong type, out of range, dangling or ill-typed reference) leaves the whole state unchanged and yields a diagnostic; unknown options likewise; an accepted value changes exactly the named option; accepted numbers lie within the generated bounds of every bounded option; malformed quoting changes nothing; the nl_max guard is characterised over the generated list of options it compares. Tie: translator + correspondence on a malformed stream (values just outside both bounds of every bounded option, wrong types, bad references, quoting errors, long lines, non-ASCII, garbage text) with diagnostics compared by kind/line/option; direct oracles on the binary: no effect on --update-config output or formatted bytes, a diagnostic naming file/line/option, no crash or hang, include cycles, nl_max refusals.",
            "Trusted: as C15. Diagnostics are compared by kind, line and option, not by message text. The strchr(\"-\", 0) read past an empty value is modelled as 'bad value' (no observable difference).",
            "DESIGN.md section 6 C16"),
    "C17": ("proof",
            "Coq theorems over a model of the output stage (add_char with space buffering and the tab-after-space guard, output_to_column, the chunk loop of output_text incl. newline/backslash-newline/ignored/ordinary chunks and the allow_tabs logic): with tabs disabled the writer emits no tab for EVERY chunk list with tab-free texts; a chunk that starts a line is preceded by exactly column-1 spaces and its last character is the last thing written (padding is only buffered, so no blank can trail it). The chunk-text invariant (no leading/trailing blanks) and the passes computing columns are contracts. Tie: the extracted model reproduces code point for code point what the real writer emitted for the dumped chunk list (comment writers as recorded oracle segments) on a corpus slice and generated programs with randomised whitespace x tab/indent/align options; direct oracle on the real output with every character attributed to its chunk (trailing blanks, tabs/space-before-tab in indentation incl. preprocessor lines, end-of-file policy).",
            "Trusted: Coq kernel, extraction, driver glue, hooks H1 + write_char recorder. Comment writers and the middle passes are not modelled (oracle segments / contracts evaluated on explored runs). The indent_with_tabs=1/2 'no space before tab' clause is decided by the oracle and the correspondence, not by a theorem.",
            "DESIGN.md section 6 C17"),
    "C08": ("proof",
            "Coq theorems over the output-stage model: for EVERY chunk list and option set no character written through the single writer is a bare CR or LF (every line break is the NL symbol, realised as exactly the configured sequence), and the symbol stream is independent of the newline setting (crlf output = lf output with breaks replaced). The input side (terminator census, CR/CRLF parsing) and the middle passes are validated end-to-end, not proved. Tie: Render correspondence on every run + oracles on real runs over LF/CRLF/CR/mixed re-encodings x newlines in {lf,crlf,cr,auto}: format(convert x) = format x, crlf = subst(lf), auto picks the input's terminator, no stray CR/LF outside literals/comments.",
            "Trusted: as C17. The lexer side of the commutation claim is a validated hypothesis (oracle on explored inputs).",
            "DESIGN.md section 6 C08"),
    "C20": ("proof",
            "Coq theorem over the output-stage model: a NEWLINE chunk is written as exactly nl_count line breaks (no blank-line indentation), so the runs in the output are the nl_count fields of the final chunk list. The passes computing those counts are not modelled: the bound is the contract K_nlmax evaluated on the dumped final chunk list of every explored run, together with a byte-level run scan, file start/end counts against nl_start/end_of_file(+_min) and brace-adjacent blanks. Tie: Render correspondence + oracles on generated programs with 0..6 injected blank lines x nl_max 0..6 x start/end options x eat_blanks x count options, plus a corpus slice.",
            "Trusted: as C17. The newline passes (do_blank_lines etc.) are covered by contract + oracle only.",
            "DESIGN.md section 6 C20"),
    "C18": ("proof",
            "Coq theorem over the output-stage model: the first chunk of a line is preceded by exactly column-1 columns of whitespace. The indent pass computing the columns is not modelled: 'statement-start column = nesting depth x indent_columns' is the contract K_indent, evaluated on every explored run against the generator's known depth; independence from the original indentation is validated by formatting two random layouts of each program. Tie: Render correspondence + oracle on generated block-structured programs (depth <= 6, per-line random indentation with tabs) x indent_columns x indent_with_tabs x output_tab_size.",
            "Trusted: as C17. The indent pass is covered by contract + oracle only; default brace style.",
            "DESIGN.md section 6 C18"),
    "C19": ("proof",
            "A translator regenerates, on every run, the table of all return sites of do_space() (359: rule logged, shape of the returned expression, option read) and fails loudly on any unknown shape; the Coq theorem C19_rules_faithful is re-proved by computation against the regenerated option registry: every site returns a constant under a non-option label or (a listed function of) the value of the VERY option it logs. Further theorems: what each shape can return relative to the configured value (only the lexical-exception shapes turn Remove into Add/Force), ensure_force_space only adds, and the column arithmetic of the decision (Remove 0, Force max(1,min_sp), Add at least that, Ignore keeps the original gap). Tie: translator + hook H2: every pair decided by space_text() on the explored runs (all sp_ options at each of the four values and random joint assignments over a corpus slice) is looked up by source line in the table and checked for the returned value and the gap; when the table theorem breaks, a targeted search sets the two confused options differently and looks for a concrete pair.",
            "Trusted: Coq kernel (vm_compute), translators gen_space.py/gen_registry.py, hook H2, extraction/driver. do_space()'s branch conditions (which site fires for which pair) are not modelled; virtual-brace and trailing-comment adjustments are excluded from the gap check.",
            "DESIGN.md section 6 C19"),
    "C11": ("proof",
            "A general Coq frame theorem (any number of files, any order, ARBITRARY processing function constrained only by 'writes nothing outside W' and 'result depends on input and store'): if every field written while a file is processed is reset in uncrustify_end or prepared per file, a batch gives every file the output of a separate invocation. Its instance is re-proved on every run over the inventory a translator regenerates from the source (all 45 fields of the global cpd, every write site in src/, the reset values in uncrustify_end): each written field is reset to its initial value, assigned unconditionally by the per-file set-up code, or carries a reviewed justification; a dropped reset, a new write or a new field breaks the theorem. Tie: translator + oracle: all ordered pairs (and random longer sequences) of a 24-file pool chosen to leave state behind (ends inside a directive/disabled region/#pragma asm, unbalanced #if, CRLF, BOM, empty, Objective-C tokens under -l C, Qt macros, include sorting) are run positional and via -F, with and without -l, and compared byte for byte with single runs; the writer state at the end of each file is checked against the justification.",
            "Trusted: Coq kernel (vm_compute), translator gen_globals.py, the reviewed justifications in coq/Proofs/FrameInst.v. File-scope statics other than cpd and the option objects (options_for_QT.cpp) are outside the inventory and covered by the oracle only. The two frame assumptions on the unmodelled processing are Section hypotheses.",
            "DESIGN.md section 6 C11"),
}


def main():
    props = [json.loads(l) for l in open(os.path.join(ROOT, "properties.jsonl"))]
    checks = []
    for pid, (cat, text, note, ref) in sorted(CLAIMS.items()):
        checks.append({"property_id": pid, "quick_cmd": "./check %s --tier quick" % pid,
                       "thorough_cmd": "./check %s --tier thorough" % pid,
                       "evidence_file": "evidence/%s.json" % pid,
                       "replay_cmd_template": "./check %s --replay {path}" % pid, "engine": "coq-uv",
                       "level_claimed": {"category": cat, "text": text, "design_ref": ref},
                       "level_note": note, "technique": TECH})
    na = [{"property_id": p["id"],
           "reason": "check under construction in this build phase (DESIGN.md section 9); not claimed until its theorems and correspondence run"}
          for p in props if p["id"] not in CLAIMS]
    hooks_commits = subprocess.run(["git", "-C", "/repo", "log", "--format=%h %s"], stdout=subprocess.PIPE).stdout.decode().splitlines()
    hook_ids = [l.split()[0] for l in hooks_commits if "verif hook" in l]
    man = {"version": 1, "setup_cmd": "./setup.sh",
           "hooks": {"guard": "UNCRUSTIFY_VERIF",
                     "enable": "cmake -S /repo -B /verif/_work/build-v -G Ninja -DCMAKE_BUILD_TYPE=Release -DCMAKE_CXX_FLAGS='-DUNCRUSTIFY_VERIF -Wno-error' && cmake --build /verif/_work/build-v -j16 (done by ./setup.sh and again by every ./check, from /repo's current working tree)",
                     "baseline_off_cmd": "cmake --build /repo/_build -j16 && ctest --test-dir /repo/_build -j8 --timeout 900",
                     "source_commits": hook_ids, "add_only": True},
           "engines": [{"name": "coq-uv", "path": "coq/", "serves_properties": sorted(CLAIMS),
                        "kind_free_text": "Coq 8.16.1 development (models, proofs, property theorems; generated tables under coq/Gen), extracted to OCaml and run against the hook-enabled binary by ./check"}],
           "checks": checks, "not_applicable": na,
           "notes": "Every check rebuilds the hook binary from /repo's working tree, regenerates coq/Gen, runs a full make of the Coq development (no -vos), extracts the model, then runs correspondence and oracle cases. known_findings.json lists recorded defects and fixes."}
    json.dump(man, open(os.path.join(ROOT, "MANIFEST.json"), "w"), indent=1)


if __name__ == "__main__":
    main()
