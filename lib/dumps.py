"""Parsing the hook dumps (UNC_VERIF_DUMP=<prefix>): <prefix>.N.tok / .fin / .out / .sp"""
import os

FIELDS = ["type", "ptype", "orig_line", "orig_col", "orig_col_end", "orig_prev_sp", "column", "column_indent", "nl_count", "nl_column",
          "level", "brace_level", "pp_level", "flags", "after_tab", "text"]
PCF_IN_PREPROC = 1 << 0
PCF_WAS_ALIGNED = 1 << 22
PCF_STMT_START = 1 << 18
PCF_EXPR_START = 1 << 19
PCF_FORCE_SPACE = 1 << 17
PCF_PUNCTUATOR = 1 << 33
PCF_INSERTED = 1 << 34


def cps(s):
    return [] if s == "-" else [int(x, 16) for x in s.split(",")]


def parse_chunks(path):
    hdr, opts, chunks = {}, {}, []
    with open(path, "rb") as f:
        for raw in f:
            line = raw.decode("latin1").rstrip("\n")
            if line.startswith("H "):
                for item in line[2:].split(" "):
                    if "=" in item:
                        k, v = item.split("=", 1)
                        hdr[k] = v
            elif line.startswith("O "):
                for item in line[2:].split(" "):
                    if "=" in item:
                        k, v = item.split("=", 1)
                        opts[k] = int(v)
            elif line.startswith("C "):
                p = line[2:].split(" ")
                c = dict(zip(FIELDS, p))
                for k in FIELDS[2:13]:
                    c[k] = int(c[k])
                c["flags"] = int(c["flags"], 16)
                c["after_tab"] = int(c["after_tab"])
                c["text"] = cps(c["text"])
                chunks.append(c)
    return hdr, opts, chunks


def parse_out(path):
    recs, cur = [], None
    with open(path, "rb") as f:
        for raw in f:
            p = raw.decode("latin1").split()
            if not p:
                continue
            if p[0] == "B":
                cur = {"begin": int(p[1]), "pre": (int(p[2]), int(p[3]), int(p[4]), int(p[5]))}
            elif p[0] == "E" and cur is not None:
                cur.update({"end": int(p[2]), "column": int(p[3]), "post": (int(p[4]), int(p[5]), int(p[6]), int(p[7])), "chars": cps(p[8])})
                recs.append(cur)
                cur = None
    return recs


def parse_sp(path):
    out = []
    if not os.path.exists(path):
        return out
    with open(path, "rb") as f:
        for raw in f:
            line = raw.decode("latin1").rstrip("\n")
            if not line.startswith("S "):
                continue
            body, rule = line.split("\t", 1) if "\t" in line else (line, "")
            p = body.split(" ")
            out.append({"l1": int(p[1]), "c1": int(p[2]), "l2": int(p[3]), "c2": int(p[4]), "rule_line": int(p[5]), "raw_av": int(p[6]), "av": int(p[7]),
                        "min_sp": int(p[8]), "forced": int(p[9]), "prev_column": int(p[10]), "column": int(p[11]), "orig_col_end": int(p[12]),
                        "len": int(p[13]), "nl_count": int(p[14]), "next_prev_sp": int(p[15]), "t1": p[16], "t2": p[17], "next_comment": int(p[18]),
                        "text1": cps(p[19]), "text2": cps(p[20]), "rule": rule})
    return out


def text_str(c):
    return "".join(chr(x) if x < 0x110000 else "?" for x in c["text"])


def run_with_dumps(unc_args, workdir, inp=None, timeout=60, binary=None):
    from . import common
    prefix = os.path.join(workdir, "d")
    for f in os.listdir(workdir):
        if f.startswith("d.") and f.split(".")[-1] in ("tok", "fin", "out", "sp", "lops"):
            os.remove(os.path.join(workdir, f))
    rc, out, err = common.run_unc(unc_args, inp=inp, env_extra={"UNC_VERIF_DUMP": prefix}, timeout=timeout, binary=binary)
    return rc, out, err, prefix


def parse_lops(path):
    """records of the hook in Chunk::MoveAfter / Swap / SwapLines: (kind, a_null, b_null, same, a_head, b_head, b_before_a, a_before_b, newline bits, same_line)"""
    out = []
    if not os.path.exists(path):
        return out
    for ln in open(path, errors="replace"):
        p = ln.split()
        if len(p) == 10 and p[0] in ("M", "S", "L"):
            out.append((p[0],) + tuple(int(v) for v in p[1:]))
    return out
