"""Shared machinery for the /verif checks: build, prove, extract, run, report."""
import base64
import fcntl
import hashlib
import json
import os
import random
import re
import shutil
import subprocess
import sys
import time

ROOT = os.path.dirname(os.path.dirname(os.path.abspath(__file__)))
REPO = os.environ.get("VERIF_REPO", "/repo")
WORK = os.path.join(ROOT, "_work")
BUILD_V = os.path.join(WORK, "build-v")
BUILD_ASAN = os.path.join(WORK, "build-asan")
COQ = os.path.join(ROOT, "coq")
OCAML_OUT = os.path.join(WORK, "ocaml")
UNC = os.path.join(BUILD_V, "uncrustify")
UNC_ASAN = os.path.join(BUILD_ASAN, "uncrustify")
MODEL = os.path.join(OCAML_OUT, "uvmodel")
SHIM = os.path.join(WORK, "fsshim.so")
GUARD = "UNCRUSTIFY_VERIF"

os.makedirs(WORK, exist_ok=True)


def log(msg):
    sys.stderr.write(msg + "\n")
    sys.stderr.flush()


class Lock:
    def __init__(self, name="lock"):
        self.path = os.path.join(WORK, name)

    def __enter__(self):
        self.f = open(self.path, "w")
        fcntl.flock(self.f, fcntl.LOCK_EX)
        return self

    def __exit__(self, *a):
        fcntl.flock(self.f, fcntl.LOCK_UN)
        self.f.close()


def sh(cmd, cwd=None, timeout=3600, env=None, check=False, inp=None):
    p = subprocess.run(cmd, cwd=cwd, shell=isinstance(cmd, str), stdout=subprocess.PIPE,
                       stderr=subprocess.STDOUT, timeout=timeout, env=env, input=inp)
    out = p.stdout.decode("utf-8", "replace")
    if check and p.returncode != 0:
        raise RuntimeError("command failed (%d): %s\n%s" % (p.returncode, cmd, out[-4000:]))
    return p.returncode, out


# --------------------------------------------------------------------------- build uncrustify

def build_uncrustify(asan=False):
    """(Re)build the hook-enabled binary from /repo's CURRENT working tree."""
    bdir = BUILD_ASAN if asan else BUILD_V
    if asan:
        flags = "-D%s -Wno-error -O1 -g -fsanitize=address,undefined -fno-sanitize-recover=all -fno-omit-frame-pointer" % GUARD
        btype = "None"
    else:
        flags = "-D%s -Wno-error" % GUARD
        btype = "Release"
    if not os.path.exists(os.path.join(bdir, "build.ninja")):
        rc, out = sh(["cmake", "-S", REPO, "-B", bdir, "-G", "Ninja", "-DCMAKE_BUILD_TYPE=" + btype,
                      "-DCMAKE_CXX_FLAGS=" + flags], timeout=600)
        if rc != 0:
            raise RuntimeError("cmake configure failed:\n" + out[-3000:])
    rc, out = sh(["cmake", "--build", bdir, "-j16"], timeout=3000)
    if rc != 0:
        raise RuntimeError("build of uncrustify failed:\n" + out[-6000:])
    return os.path.join(bdir, "uncrustify")


# --------------------------------------------------------------------------- translators + coq

def write_if_changed(path, text):
    try:
        with open(path) as f:
            if f.read() == text:
                return False
    except FileNotFoundError:
        pass
    os.makedirs(os.path.dirname(path), exist_ok=True)
    with open(path, "w") as f:
        f.write(text)
    return True


def run_translators():
    """Regenerate coq/Gen/*.v from /repo's current sources. Returns {name: info}."""
    sys.path.insert(0, os.path.join(ROOT, "gen"))
    import importlib
    infos = {}
    gendir = os.path.join(ROOT, "gen")
    for fn in sorted(os.listdir(gendir)):
        if fn.startswith("gen_") and fn.endswith(".py"):
            mod = importlib.import_module(fn[:-3])
            try:
                res = mod.generate(REPO)  # {"file": name, "text": coq source, "info": {...}}
            except Exception as e:  # unknown shape: fail loudly, recorded per generator
                infos[fn] = {"error": "%s: %s" % (type(e).__name__, e)}
                # an unparsable source yields a Gen file that does not compile
                write_if_changed(os.path.join(COQ, "Gen", getattr(mod, "OUT", fn[4:-3] + ".v")),
                                 "(* translator %s failed: %s *)\nDefinition translator_failed : False := I.\n" % (fn, str(e).replace("*)", "* )")))
                continue
            outs = res if isinstance(res, list) else [res]
            for r in outs:
                changed = write_if_changed(os.path.join(COQ, "Gen", r["file"]), r["text"])
                info = dict(r.get("info", {}))
                info["changed"] = changed
                infos[r["file"]] = info
    return infos


def coq_files():
    out = []
    with open(os.path.join(COQ, "_CoqProject")) as f:
        for line in f:
            line = line.strip()
            if line.endswith(".v"):
                out.append(line)
    return out


def coq_make():
    """Full .vo build (make -k). Returns (ok_files, failed_files, log)."""
    if not os.path.exists(os.path.join(COQ, "Makefile")) or \
            os.path.getmtime(os.path.join(COQ, "Makefile")) < os.path.getmtime(os.path.join(COQ, "_CoqProject")):
        sh(["coq_makefile", "-f", "_CoqProject", "-o", "Makefile"], cwd=COQ, check=True)
    rc, out = sh("timeout 3000 make -k -j16 TIMED=1 2>&1", cwd=COQ, timeout=3100)
    ok, failed = [], []
    status = {}

    def good(v):
        """a .vo counts only if it is newer than its source AND than the .vo of everything it depends on
        (make -k leaves a stale .vo in place when a re-proof fails)"""
        if v in status:
            return status[v]
        status[v] = False
        vo = os.path.join(COQ, v[:-2] + ".vo")
        src = os.path.join(COQ, v)
        if not (os.path.exists(vo) and os.path.exists(src)):
            return False
        t = os.path.getmtime(vo)
        if t < os.path.getmtime(src):
            return False
        for d in coq_deps(v):
            if d == v:
                continue
            dvo = os.path.join(COQ, d[:-2] + ".vo")
            if not good(d) or not os.path.exists(dvo) or os.path.getmtime(dvo) > t:
                return False
        status[v] = True
        return True
    for v in coq_files():
        if v == "Extract.v":
            continue
        (ok if good(v) else failed).append(v)
    with open(os.path.join(WORK, "coq_make.log"), "w") as f:
        f.write(out)
    return ok, failed, out


def forbidden_scan():
    """No Admitted/admit/Axiom/Parameter/... anywhere in the development."""
    bad = []
    pat = re.compile(r"\b(Admitted|admit|Axiom|Axioms|Parameter|Parameters|Conjecture|Admit Obligations|"
                     r"Unset Guard Checking|Unset Positivity Checking|Unset Universe Checking|bypass_check|"
                     r"type-in-type|impredicative-set)\b")
    for v in coq_files():
        p = os.path.join(COQ, v)
        if not os.path.exists(p):
            continue
        txt = open(p).read()
        # strip comments (non-nested is enough for our files; nested handled by loop)
        prev = None
        while prev != txt:
            prev = txt
            txt = re.sub(r"\(\*[^()]*?\*\)", "", txt, flags=re.S)
        txt = re.sub(r"\(\*.*?\*\)", "", txt, flags=re.S)
        for m in pat.finditer(txt):
            bad.append("%s: %s" % (v, m.group(0)))
    # Variable/Hypothesis outside a section
    return bad


def extract_and_build_model():
    os.makedirs(OCAML_OUT, exist_ok=True)
    srcs = [os.path.join(COQ, "Extract.v")] + [os.path.join(COQ, v) for v in coq_files() if v.startswith("Model/") or v.startswith("Gen/") or v.startswith("Base/")]
    srcs += [os.path.join(ROOT, "ocaml", f) for f in os.listdir(os.path.join(ROOT, "ocaml")) if f.endswith(".ml")]
    newest = max(os.path.getmtime(s) for s in srcs if os.path.exists(s))
    if os.path.exists(MODEL) and os.path.getmtime(MODEL) >= newest:
        return
    sh(["coqc", "-Q", COQ, "UV", os.path.join(COQ, "Extract.v")], cwd=OCAML_OUT, check=True, timeout=900)
    for f in os.listdir(os.path.join(ROOT, "ocaml")):
        if f.endswith(".ml"):
            shutil.copy(os.path.join(ROOT, "ocaml", f), OCAML_OUT)
    sh("ocamlfind ocamlopt -w -a uvmodel.mli uvmodel.ml driver_ext.ml driver.ml -o uvmodel.tmp && mv uvmodel.tmp uvmodel",
       cwd=OCAML_OUT, check=True, timeout=900)


def build_shim():
    src = os.path.join(ROOT, "shim", "fsshim.c")
    if not os.path.exists(src):
        return
    if os.path.exists(SHIM) and os.path.getmtime(SHIM) >= os.path.getmtime(src):
        return
    sh(["gcc", "-O1", "-shared", "-fPIC", "-o", SHIM, src, "-ldl"], check=True)


_BUILD_STATE = None


def ensure_built(need_asan=False):
    """Steps (1)-(3) of every check, serialised by a lock. Returns a dict describing the build."""
    global _BUILD_STATE
    t0 = time.time()
    with Lock():
        st = {"errors": []}
        try:
            build_uncrustify(False)
            st["uncrustify"] = "ok"
        except Exception as e:
            st["uncrustify"] = "failed"
            st["errors"].append(str(e))
        if need_asan:
            try:
                build_uncrustify(True)
            except Exception as e:
                st["errors"].append(str(e))
        st["gen"] = run_translators()
        ok, failed, out = coq_make()
        st["coq_ok"], st["coq_failed"] = ok, failed
        st["coq_log_tail"] = out[-3000:] if failed else ""
        st["forbidden"] = forbidden_scan()
        try:
            extract_and_build_model()
            st["model"] = "ok"
        except Exception as e:
            st["model"] = "failed"
            st["errors"].append(str(e))
        build_shim()
    st["build_s"] = round(time.time() - t0, 1)
    _BUILD_STATE = st
    return st


# --------------------------------------------------------------------------- proof accounting

def coq_deps(vfile):
    """Transitive UV dependencies (as .v paths relative to coq/) of a file, including itself."""
    seen, todo = [], [vfile]
    while todo:
        v = todo.pop()
        if v in seen:
            continue
        seen.append(v)
        p = os.path.join(COQ, v)
        if not os.path.exists(p):
            continue
        txt = open(p).read()
        for m in re.finditer(r"From UV Require (?:Import |Export )?(.*?)\.(?:\s|$)", txt, flags=re.S):
            for name in m.group(1).split():
                cand = name.replace(".", "/") + ".v"
                if os.path.exists(os.path.join(COQ, cand)):
                    todo.append(cand)
    return seen


STMT = re.compile(r"^\s*(Theorem|Lemma|Corollary|Example|Fact|Proposition|Remark)\s+([A-Za-z_0-9']+)", re.M)


def proof_status(prop_id, build):
    """Obligations = statements in the dependency cone of Properties_<id>.v; discharged = those in files
    whose .vo was produced by this build."""
    pv = "Properties/Properties_%s.v" % prop_id
    cone = coq_deps(pv)
    obligations, discharged, names, broken = 0, 0, [], []
    for v in cone:
        p = os.path.join(COQ, v)
        if not os.path.exists(p):
            broken.append(v)
            continue
        stmts = STMT.findall(open(p).read())
        obligations += len(stmts)
        if v in build["coq_ok"]:
            discharged += len(stmts)
        else:
            broken.append(v)
        if v == pv:
            names = [n for _, n in stmts]
    assumptions = []
    logp = os.path.join(WORK, "coq_make.log")
    # Print Assumptions output is captured in per-file logs produced on (re)compilation; keep a cache
    cache = os.path.join(WORK, "assumptions_%s.txt" % prop_id)
    vo = os.path.join(COQ, pv[:-2] + ".vo")
    if os.path.exists(vo) and (not os.path.exists(cache) or os.path.getmtime(cache) < os.path.getmtime(vo)):
        rc, out = sh(["coqc", "-Q", COQ, "UV", os.path.join(COQ, pv)], cwd=COQ, timeout=900)
        open(cache, "w").write(out)
    if os.path.exists(cache):
        txt = open(cache).read()
        closed = txt.count("Closed under the global context")
        ax = re.findall(r"^Axioms:\n((?:.+\n)+?)(?=\S|$)", txt, flags=re.M)
        assumptions = ["%d statements: Closed under the global context" % closed] + [a.strip() for a in ax]
    return {"file": pv, "cone": cone, "obligations": obligations, "discharged": discharged,
            "theorems": names, "broken_files": broken, "assumptions": assumptions}


# --------------------------------------------------------------------------- model process

class Model:
    def __init__(self):
        def big_stack():
            import resource
            try:
                resource.setrlimit(resource.RLIMIT_STACK, (resource.RLIM_INFINITY, resource.RLIM_INFINITY))
            except Exception:
                pass
        # extracted functions are not tail recursive: give the model an unlimited system stack
        self.p = subprocess.Popen([MODEL], stdin=subprocess.PIPE, stdout=subprocess.PIPE, bufsize=1 << 20,
                                  preexec_fn=big_stack)

    def ask(self, line):
        self.p.stdin.write((line + "\n").encode())
        self.p.stdin.flush()
        return self.p.stdout.readline().decode().rstrip("\n")

    def ask_many(self, lines):
        """Pipelined: write everything (in a thread) and read as many answers."""
        import threading
        data = ("\n".join(lines) + "\n").encode()

        def w():
            self.p.stdin.write(data)
            self.p.stdin.flush()
        t = threading.Thread(target=w)
        t.start()
        res = [self.p.stdout.readline().decode().rstrip("\n") for _ in lines]
        t.join()
        return res

    def close(self):
        try:
            self.p.stdin.close()
            self.p.wait(timeout=5)
        except Exception:
            self.p.kill()


def run_unc(args, inp=None, env_extra=None, timeout=60, binary=None, cwd=None):
    env = dict(os.environ)
    if env_extra:
        env.update(env_extra)
    try:
        p = subprocess.run([binary or UNC] + args, input=inp, stdout=subprocess.PIPE, stderr=subprocess.PIPE,
                           timeout=timeout, env=env, cwd=cwd)
        return p.returncode, p.stdout, p.stderr
    except subprocess.TimeoutExpired as e:
        return -999, e.stdout or b"", e.stderr or b""


# --------------------------------------------------------------------------- findings, evidence, reporting

def load_known():
    p = os.path.join(ROOT, "known_findings.json")
    if not os.path.exists(p):
        return {"findings": [], "fixed": []}
    return json.load(open(p))


class Report:
    def __init__(self, prop_id, tier, seed, level):
        self.id, self.tier, self.seed, self.level = prop_id, tier, seed, level
        self.t0 = time.time()
        self.violations = []      # (key, description, replay dict)
        self.known_hit = []
        self.cov = {"evaluations": 0, "distinct_nontrivial": 0, "traces_validated_against_impl": 0,
                    "samples": [], "rule": "", "explanation": ""}
        self.assumptions = []
        self._distinct = set()
        self.known = [f for f in load_known().get("findings", []) if f.get("property") == prop_id]
        rdir = os.path.join(WORK, "replay")
        if os.path.isdir(rdir):
            for fn in os.listdir(rdir):
                if fn.startswith("%s_%s_" % (prop_id, seed)):
                    os.remove(os.path.join(rdir, fn))

    def count(self, key=None, nontrivial=False, n=1):
        self.cov["evaluations"] += n
        if nontrivial and key is not None:
            self._distinct.add(hashlib.sha1(repr(key).encode()).hexdigest())

    def validated(self, n=1):
        self.cov["traces_validated_against_impl"] += n

    def sample(self, s):
        if len(self.cov["samples"]) < 6:
            self.cov["samples"].append(s)

    def finding(self, key, what, replay):
        """A concrete failing case. key identifies it against known_findings.json."""
        for k in self.known:
            if k.get("key") == key or (k.get("key_prefix") and key.startswith(k["key_prefix"])):
                if key not in [x[0] for x in self.known_hit]:
                    self.known_hit.append((key, k.get("what", what)))
                return False
        if key not in [v[0] for v in self.violations]:
            self.violations.append((key, what, replay))
        return True

    def unproved(self, what, detail):
        """A proof obligation / correspondence that no longer checks, with no failing input found."""
        self.violations.append(("no-input:" + what, what, {"kind": "no-failing-input-found", "broken": what, "detail": detail}))

    def finish(self, proof=None, extra_cov=None):
        self.cov["distinct_nontrivial"] = len(self._distinct)
        if extra_cov:
            self.cov.update(extra_cov)
        if proof is not None:
            self.cov["obligations"] = proof["obligations"]
            self.cov["discharged"] = proof["discharged"]
            self.cov["checker_cmd"] = "cd /verif/coq && coq_makefile -f _CoqProject -o Makefile && make -k -j16  (coqc 8.16.1, full .vo build; %s)" % proof["file"]
            self.cov["theorems"] = proof["theorems"]
            self.cov["print_assumptions"] = proof["assumptions"]
        for key, what in self.known_hit:
            print("KNOWN-FINDING: property=%s %s" % (self.id, what))
        rc = 0
        os.makedirs(os.path.join(ROOT, "evidence"), exist_ok=True)
        rdir = os.path.join(WORK, "replay")
        os.makedirs(rdir, exist_ok=True)
        for i, (key, what, replay) in enumerate(self.violations[:8]):
            path = os.path.join(rdir, "%s_%s_%d.json" % (self.id, self.seed, i))
            replay = dict(replay)
            replay.update({"property": self.id, "key": key, "what": what, "seed": self.seed,
                           "replay_cmd": "./check %s --replay %s" % (self.id, path)})
            with open(path, "w") as f:
                json.dump(replay, f, indent=1)
            tail = " no-failing-input-found" if replay.get("kind") == "no-failing-input-found" else ""
            print("VIOLATION property=%s replay=%s%s" % (self.id, path, tail))
            rc = 1
        ev = {"property_id": self.id, "tier": self.tier, "seed": self.seed, "level": self.level,
              "coverage": self.cov, "assumptions": self.assumptions,
              "wall_s": round(time.time() - self.t0, 2), "violations": len(self.violations),
              "known_findings_hit": [w for _, w in self.known_hit]}
        with open(os.path.join(ROOT, "evidence", "%s.json" % self.id), "w") as f:
            json.dump(ev, f, indent=1, default=str)
        print("%s: %s tier=%s seed=%d evaluations=%d distinct_nontrivial=%d validated=%d violations=%d wall=%.1fs" % (
            self.id, "FAIL" if rc else "ok", self.tier, self.seed, self.cov["evaluations"],
            self.cov["distinct_nontrivial"], self.cov["traces_validated_against_impl"], len(self.violations),
            time.time() - self.t0))
        return rc


def b64(b):
    return base64.b64encode(b).decode()


def unb64(s):
    return base64.b64decode(s)


def rng(seed, salt=""):
    return random.Random("%s/%s" % (seed, salt))


def corpus():
    """(language, config path, input path) triples from tests/*.test."""
    out = []
    tdir = os.path.join(REPO, "tests")
    langmap = {"c": "C", "cpp": "CPP", "c-sharp": "CS", "d": "D", "ecma": "ECMA", "java": "JAVA",
               "objective-c": "OC", "pawn": "PAWN", "vala": "VALA", "imported": None, "staging": None}
    for fn in sorted(os.listdir(tdir)):
        if not fn.endswith(".test"):
            continue
        suite = fn[:-5]
        for line in open(os.path.join(tdir, fn), errors="replace"):
            line = line.strip()
            if not line or line.startswith("#"):
                continue
            parts = line.split()
            if len(parts) < 3:
                continue
            cfg = os.path.join(tdir, "config", parts[1])
            inp = os.path.join(tdir, "input", parts[2])
            lang = parts[3] if len(parts) > 3 else None
            if os.path.exists(cfg) and os.path.exists(inp):
                out.append((lang, cfg, inp, suite, parts[0]))
    return out


def lang_of_path(path):
    ext = os.path.splitext(path)[1].lower()
    return {".c": "C", ".h": "CPP", ".cpp": "CPP", ".cc": "CPP", ".hpp": "CPP", ".cs": "CS", ".d": "D", ".di": "D",
            ".es": "ECMA", ".js": "ECMA", ".java": "JAVA", ".m": "OC", ".mm": "OC+", ".p": "PAWN", ".pawn": "PAWN",
            ".sma": "PAWN", ".vala": "VALA", ".sqc": "C", ".inl": "CPP"}.get(ext, "C")
