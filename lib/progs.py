"""Grammar-based generator of block-structured C programs with a known shape.
Every generated line carries: the statement-nesting depth (brace depth incl. brace-less bodies as one level),
whether it starts a statement, and the token list; the layout (indentation, blank lines, spaces, terminators,
tabs) is randomised from the caller's PRNG, so the same AST can be laid out in different ways."""

IDENT = ["a", "b", "cnt", "idx", "val", "tmp", "x1", "y2", "res", "ptr"]
TYPES = ["int", "long", "char", "unsigned", "short", "double"]


class Line:
    __slots__ = ("depth", "toks", "stmt", "kind", "brace_body", "nsb")

    def __init__(self, depth, toks, stmt=True, kind="stmt", nsb=0):
        # nsb: number of enclosing brace blocks that belong to a statement (if/else/for/while/do/switch), counting the
        # block whose brace starts this line ('close'/'else' kinds): the blocks that the indent_brace option bumps
        self.depth, self.toks, self.stmt, self.kind, self.nsb = depth, toks, stmt, kind, nsb


def expr(r, d=0):
    k = r.random()
    if d > 2 or k < 0.35:
        return [r.choice(IDENT)] if r.random() < 0.6 else [str(r.randint(0, 99))]
    if k < 0.7:
        return expr(r, d + 1) + [r.choice(["+", "-", "*", "/", "<", ">", "==", "!=", "&&", "||", "&", "|", "<<"])] + expr(r, d + 1)
    if k < 0.8:
        return ["("] + expr(r, d + 1) + [")"]
    if k < 0.9:
        return [r.choice(IDENT), "("] + expr(r, d + 1) + [")"]
    return [r.choice(["-", "!", "~", "*", "&"])] + [r.choice(IDENT)]


def simple(r):
    k = r.random()
    if k < 0.4:
        return [r.choice(IDENT), "="] + expr(r) + [";"]
    if k < 0.55:
        return [r.choice(IDENT), r.choice(["++", "--"]), ";"]
    if k < 0.7:
        return [r.choice(IDENT), "("] + expr(r) + [")", ";"]
    if k < 0.8:
        return [r.choice(TYPES), r.choice(IDENT), "="] + expr(r) + [";"]
    if k < 0.9:
        return ["return"] + expr(r) + [";"]
    return [r.choice(IDENT), r.choice(["+=", "-=", "*=", "|="])] + expr(r) + [";"]


def block(r, depth, budget, lines, max_depth, nsb=0, rich=False):
    """emit 1..n statements at [depth]"""
    n = r.randint(1, 3)
    for _ in range(n):
        stmt(r, depth, budget, lines, max_depth, nsb, rich)


def stmt(r, depth, budget, lines, max_depth, nsb=0, rich=False):
    budget[0] -= 1
    k = r.random()
    L = lambda d, toks, **kw: Line(d, toks, nsb=kw.pop("n", nsb), **kw)
    if depth >= max_depth or budget[0] <= 0 or k < 0.45:
        lines.append(L(depth, simple(r)))
        return
    if k < 0.65:
        lines.append(L(depth, ["if", "("] + expr(r) + [")", "{"], kind="open"))
        block(r, depth + 1, budget, lines, max_depth, nsb + 1, rich)
        while rich and r.random() < 0.4:
            lines.append(L(depth, ["}", "else", "if", "("] + expr(r) + [")", "{"], stmt=False, kind="else", n=nsb + 1))
            block(r, depth + 1, budget, lines, max_depth, nsb + 1, rich)
        if r.random() < 0.4:
            lines.append(L(depth, ["}", "else", "{"], stmt=False, kind="else", n=nsb + 1))
            block(r, depth + 1, budget, lines, max_depth, nsb + 1, rich)
        lines.append(L(depth, ["}"], stmt=False, kind="close", n=nsb + 1))
    elif k < 0.75:
        lines.append(L(depth, ["while", "("] + expr(r) + [")", "{"], kind="open"))
        block(r, depth + 1, budget, lines, max_depth, nsb + 1, rich)
        lines.append(L(depth, ["}"], stmt=False, kind="close", n=nsb + 1))
    elif k < 0.83:
        v = r.choice(IDENT)
        lines.append(L(depth, ["for", "(", v, "=", "0", ";", v, "<", str(r.randint(1, 9)), ";", v, "++", ")", "{"], kind="open"))
        block(r, depth + 1, budget, lines, max_depth, nsb + 1, rich)
        lines.append(L(depth, ["}"], stmt=False, kind="close", n=nsb + 1))
    elif k < 0.88:
        if rich and r.random() < 0.5:
            lines.append(L(depth, ["switch", "("] + expr(r) + [")", "{"], kind="open"))
            for ci in range(r.randint(1, 3)):
                if r.random() < 0.25:
                    # a brace-less statement that starts on the label's own line: its body is one level below the case's statements
                    lines.append(L(depth, ["case", str(ci), ":"] + r.choice([["if", "("] + expr(r) + [")"], ["while", "("] + expr(r) + [")"]]), stmt=False, kind="case", n=nsb + 1))
                    lines.append(L(depth + 2, simple(r), n=nsb + 1))
                else:
                    lines.append(L(depth, ["case", str(ci), ":"] if r.random() < 0.8 else ["default", ":"], stmt=False, kind="case", n=nsb + 1))
                lines.append(L(depth + 1, simple(r), n=nsb + 1))      # (a brace directly after a case label is the case's own block: indent_case_brace)
                block(r, depth + 1, budget, lines, max_depth, nsb + 1, rich)
                lines.append(L(depth + 1, ["break", ";"], n=nsb + 1))
            lines.append(L(depth, ["}"], stmt=False, kind="close", n=nsb + 1))
        else:
            lines.append(L(depth, ["do", "{"], kind="open"))
            block(r, depth + 1, budget, lines, max_depth, nsb + 1, rich)
            lines.append(L(depth, ["}", "while", "("] + expr(r) + [")", ";"], stmt=False, kind="close", n=nsb + 1))
    elif k < 0.93:
        lines.append(L(depth, ["{"], kind="open"))
        block(r, depth + 1, budget, lines, max_depth, nsb, rich)
        lines.append(L(depth, ["}"], stmt=False, kind="close"))
    else:   # brace-less body: one level deeper (virtual braces)
        lines.append(L(depth, ["if", "("] + expr(r) + [")"], kind="vopen"))
        lines.append(L(depth + 1, simple(r)))


def program(r, nfunc=2, max_depth=4, size=25, rich=False):
    """rich: also else-if chains and switch/case (used where the expected columns have a closed form for them)"""
    lines = []
    for f in range(nfunc):
        lines.append(Line(0, [r.choice(TYPES), "fn%d" % f, "(", r.choice(TYPES), r.choice(IDENT), ")", "{"], kind="open"))
        budget = [size]
        block(r, 1, budget, lines, max_depth, 0, rich)
        lines.append(Line(0, ["}"], stmt=False, kind="close"))
    return lines


def allman(lines):
    """the same program with every opening brace on a line of its own and 'else' on its own line"""
    out = []
    for ln in lines:
        t = ln.toks
        if ln.kind == "else":       # } else [if (..)] {
            out.append(Line(ln.depth, ["}"], stmt=False, kind="close", nsb=ln.nsb))
            out.append(Line(ln.depth, t[1:-1], stmt=False, kind="else-head", nsb=ln.nsb - 1))
            out.append(Line(ln.depth, ["{"], stmt=False, kind="brace", nsb=ln.nsb))
        elif ln.kind == "open" and len(t) > 1 and t[-1] == "{":
            head = Line(ln.depth, t[:-1], kind="head", nsb=ln.nsb)
            out.append(head)
            is_stmt = t[0] in ("if", "while", "for", "do", "switch")
            out.append(Line(ln.depth, ["{"], stmt=False, kind="brace", nsb=ln.nsb + (1 if is_stmt else 0)))
        else:
            out.append(ln)
    return out


def join_tokens(r, toks, loose):
    out = ""
    for i, t in enumerate(toks):
        if i:
            p = toks[i - 1]
            need = (p[-1].isalnum() or p[-1] == "_") and (t[0].isalnum() or t[0] == "_")
            need = need or (p in "+-&|<>=!*/" and t[0] in "+-&|<>=*/") or (p in ("+", "-", "&", "*", "/", "<", ">", "=", "!", "|") and t in ("+", "-", "&", "*", "=", "++", "--", "/"))
            if need:
                out += " " * (1 if not loose else r.randint(1, 3))
            elif loose and r.random() < 0.5:
                out += " " * r.randint(1, 2)
        out += t
    return out


def layout(r, lines, indent="random", blank_max=0, nl="\n", tabs=False, trailing=False, comments=False, joined=None):
    """source text for the lines; indent: 'random' (per line 0..12 columns) or an int (columns per depth)"""
    out = []
    for li, ln in enumerate(lines):
        if blank_max and r.random() < 0.35:
            for _ in range(r.randint(1, blank_max)):
                out.append((" " * r.randint(0, 3) if trailing and r.random() < 0.3 else "") + nl)
        if indent == "random":
            ws = " " * r.randint(0, 12)
            if tabs and r.random() < 0.4:
                ws = r.choice(["\t", " \t", "\t ", "  \t  "])
        else:
            ws = " " * (indent * ln.depth)
        s = ws + (joined[li] if joined is not None else join_tokens(r, ln.toks, loose=True))
        if comments and r.random() < 0.15:
            s += r.choice(["  // note", " /* c */", "\t// t"])
        if trailing and r.random() < 0.3:
            s += r.choice([" ", "\t", "   "])
        out.append(s + nl)
    return "".join(out)
