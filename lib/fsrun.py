"""Running one do_source_file() scenario on the real binary (under the LD_PRELOAD interposer) and on the
extracted model E (coq/Model/FsProto.v), and comparing them."""
import hashlib
import os
import shutil
import subprocess

from . import common

ROLES = ["in", "out", "tmp", "backup", "md5"]


def md5hex(b):
    return hashlib.md5(b).hexdigest()


class Scenario:
    """mode: dict(in_place,to_file,no_backup,if_changed,do_check,keep_mtime); files: initial contents."""

    def __init__(self, mode, orig, cfg_text="", backup=None, md5_of=None, out=None, tmp=None, argv_style="replace", lang=None):
        self.mode = mode
        self.orig = orig
        self.cfg_text = cfg_text
        self.backup = backup
        self.md5_of = md5_of
        self.out = out
        self.tmp = tmp
        self.argv_style = argv_style
        self.lang = lang

    def bits(self):
        m = self.mode
        return "".join("1" if m.get(k) else "0" for k in ["in_place", "to_file", "no_backup", "if_changed", "do_check", "keep_mtime"])

    def key(self):
        return (self.bits(), self.argv_style, self.orig, self.cfg_text, self.backup, self.md5_of, self.out)


def paths(root, style=None):
    P = {"in": os.path.join(root, "a.c"), "out": os.path.join(root, "b.c"), "tmp": os.path.join(root, "a.c.uncrustify"),
         "backup": os.path.join(root, "a.c.unc-backup~"), "md5": os.path.join(root, "a.c.unc-backup.md5~")}
    if style == "positional":     # FILE -> FILE.uncrustify (default suffix), written directly
        P["out"] = os.path.join(root, "a.c.uncrustify")
        P["tmp"] = os.path.join(root, "a.c.uncrustify.uncrustify")
    return P


def setup_dir(base, scn):
    root = os.path.join(base, "root")
    shutil.rmtree(base, ignore_errors=True)
    os.makedirs(root)
    P = paths(root, scn.argv_style)
    cfg = os.path.join(base, "u.cfg")
    with open(cfg, "w") as f:
        f.write(scn.cfg_text)
    if scn.orig is not None:
        open(P["in"], "wb").write(scn.orig)
    if scn.backup is not None:
        open(P["backup"], "wb").write(scn.backup)
    if scn.md5_of is not None:
        open(P["md5"], "wb").write(("%s  a.c\n" % md5hex(scn.md5_of)).encode())
    if scn.out is not None:
        open(P["out"], "wb").write(scn.out)
    if scn.tmp is not None:
        open(P["tmp"], "wb").write(scn.tmp)
    return root, P, cfg


def argv_for(scn, P, cfg):
    a = ["-q", "-c", cfg]
    if scn.lang:
        a += ["-l", scn.lang]
    m = scn.mode
    if m.get("if_changed"):
        a.append("--if-changed")
    if m.get("keep_mtime"):
        a.append("--mtime")
    st = scn.argv_style
    if st == "replace":                 # --replace FILE  (backup)
        a += ["--replace", P["in"]]
    elif st == "replace-no-backup":     # --replace --no-backup FILE
        a += ["--replace", "--no-backup", P["in"]]
    elif st == "no-backup":             # --no-backup FILE
        a += ["--no-backup", P["in"]]
    elif st == "f-o-same":              # -f FILE -o FILE
        a += ["-f", P["in"], "-o", P["in"]]
    elif st == "f-o":                   # -f FILE -o OTHER
        a += ["-f", P["in"], "-o", P["out"]]
    elif st == "f":                     # -f FILE  (stdout)
        a += ["-f", P["in"]]
    elif st == "positional":            # FILE  (-> FILE.uncrustify)
        a += [P["in"]]
    elif st == "check":                 # --check FILE
        a = [x for x in a if x != "-q"] + ["--check", P["in"]]
    else:
        raise ValueError(st)
    return a


def mode_for(style, if_changed=False, keep_mtime=False):
    base = {"replace": dict(in_place=1, to_file=1, no_backup=0), "replace-no-backup": dict(in_place=1, to_file=1, no_backup=1),
            "no-backup": dict(in_place=1, to_file=1, no_backup=1), "f-o-same": dict(in_place=1, to_file=1, no_backup=0),
            "f-o": dict(in_place=0, to_file=1, no_backup=0), "f": dict(in_place=0, to_file=0, no_backup=0),
            "positional": dict(in_place=0, to_file=1, no_backup=0),
            "check": dict(in_place=0, to_file=0, no_backup=0, do_check=1)}[style]
    d = dict(base)
    d["if_changed"] = 1 if if_changed else 0
    d["keep_mtime"] = 1 if keep_mtime else 0
    d.setdefault("do_check", 0)
    return d


def plan_env(plan):
    """plan: list of (k, action) with action in 'fail', 'crash', 'full=j', 'crashw=j'."""
    items = []
    for k, act in plan:
        if act == "fail":
            items.append("%d:fail=EIO" % k)
        else:
            items.append("%d:%s" % (k, act))
    return ",".join(items)


def canon_log(log_text, style=None):
    """interposer log -> list of 'op role result' as the model prints them."""
    out = []
    name2role = {"a.c": "in", "b.c": "out", "a.c.uncrustify": "tmp", "a.c.unc-backup~": "backup", "a.c.unc-backup.md5~": "md5"}
    if style == "positional":
        name2role["a.c.uncrustify"] = "out"
    for line in log_text.splitlines():
        parts = line.split()
        if len(parts) < 2 or not parts[0].isdigit():
            continue
        kind = parts[1]
        if kind in ("CRASH", "CRASHW", "FULL"):
            continue
        role = name2role.get(parts[2], parts[2])
        if kind == "fopen":
            op = "fopen-r" if parts[3].startswith("r") else "fopen-w"
            res = parts[4]
        elif kind in ("fread", "read", "write", "close"):
            op, res = kind, "ok"
        elif kind == "rename":
            op, res = "rename", parts[4]
        else:
            op, res = kind, parts[3] if len(parts) > 3 else "ok"
        out.append("%s %s %s" % (op, role, "ok" if res in ("ok", "EEXIST") else "ERR"))
    return out


def run_impl(base, scn, plan=(), timeout=30):
    root, P, cfg = setup_dir(base, scn)
    log = os.path.join(base, "ops.log")
    env = dict(os.environ)
    env.update({"LD_PRELOAD": common.SHIM, "FSSHIM_ROOT": root + "/", "FSSHIM_LOG": log})
    if plan:
        env["FSSHIM_PLAN"] = plan_env(plan)
    p = subprocess.run([common.UNC] + argv_for(scn, P, cfg), stdout=subprocess.PIPE, stderr=subprocess.PIPE, env=env, timeout=timeout)
    disk = {}
    for r in ROLES:
        disk[r] = open(P[r], "rb").read() if os.path.exists(P[r]) else None
    extra = sorted(set(os.listdir(root)) - set(os.path.basename(x) for x in P.values()))
    logtxt = open(log).read() if os.path.exists(log) else ""
    return {"rc": p.returncode, "stdout": p.stdout, "stderr": p.stderr, "disk": disk, "trace": canon_log(logtxt, scn.argv_style),
            "rawlog": logtxt, "extra_files": extra}


def hx(b):
    return "none" if b is None else (b.hex() if b else "-")


def run_model(m, scn, formatted, plan=()):
    """formatted: bytes or None (formatting fails)."""
    # a transient device-full condition ('glitch') is, for the model, a failed write like any other: the stream's error flag is sticky
    pl = "none" if not plan else ";".join("%d:%s" % (k, a.replace("glitch=", "full=")) for k, a in plan)
    line = "fsproto %s %s %s %s %s %s %s %s" % (scn.bits(), hx(scn.orig), "FAIL" if formatted is None else hx(formatted),
                                               hx(scn.backup), hx(scn.md5_of), hx(scn.out), hx(scn.tmp), pl)
    ans = m.ask(line)
    if ans.startswith("ERR"):
        raise RuntimeError("model: " + ans)
    head, dsk, tr = [x.strip() for x in ans.split("|")]
    hd = dict(x.split("=", 1) for x in head.split())
    disk = {}
    for item in dsk.split():
        role, v = item.split("=", 1)
        f = v.split(":")
        if f[0] == "A":
            disk[role] = ("A", None, None)
        else:
            b = b"" if f[2] == "-" else bytes.fromhex(f[2])
            disk[role] = (f[0], f[1], b) + ((f[3],) if f[0] == "W" else ())
    trace = [t for t in tr.split(";") if t]
    so = hd["stdout"]
    return {"exit": hd["exit"], "ops": int(hd["ops"]), "stdout": None if so == "none" else (b"" if so == "-" else bytes.fromhex(so)),
            "disk": disk, "trace": trace}


def disk_agrees(impl_disk, model_disk):
    """real file contents vs the model's prediction (prefix semantics for files open for writing)."""
    bad = []
    for r in ROLES:
        real = impl_disk[r]
        st = model_disk[r]
        if st[0] == "A":
            if real is not None:
                bad.append("%s: exists (%r) but model says absent" % (r, real[:20]))
            continue
        if real is None:
            bad.append("%s: absent but model says %s" % (r, st[0]))
            continue
        kind, b = st[1], st[2]
        if kind == "G":   # md5 file
            exp = ("%s  a.c\n" % md5hex(b)).encode()
        elif kind.startswith("P"):
            exp = ("%s  a.c\n" % md5hex(b)).encode()[:int(kind[1:])]
        else:
            exp = b
        if st[0] == "C":
            if real != exp:
                bad.append("%s: %r != model %r" % (r, real[:40], exp[:40]))
        else:             # Writing: any prefix may be on disk
            if not exp.startswith(real):
                bad.append("%s: %r is not a prefix of model's %r" % (r, real[:40], exp[:40]))
    return bad


def exit_agrees(rc, model_exit):
    if model_exit == "K":
        return rc == 137
    me = int(model_exit)
    if me == 0:
        return rc == 0
    return rc != 0 and rc != 137 and rc > 0
