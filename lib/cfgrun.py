"""Configuration model D vs the binary: load a config text with `uncrustify -c CFG --update-config`, compare the
saved lines, the count of non-default options and the diagnostics (kind, line, option) with the extracted model."""
import os
import re
import subprocess

from . import common


def hx(b):
    if isinstance(b, str):
        b = b.encode("latin1")
    return b.hex() if b else "-"


def impl_load(cfg_bytes, workdir, sets=(), with_doc=False, timeout=30):
    cfg = os.path.join(workdir, "t.cfg")
    with open(cfg, "wb") as f:
        f.write(cfg_bytes)
    args = [common.UNC, "-c", cfg, "--update-config-with-doc" if with_doc else "--update-config"]
    for k, v in sets:
        args += ["--set", "%s=%s" % (k, v)]
    try:
        p = subprocess.run(args, stdout=subprocess.PIPE, stderr=subprocess.PIPE, timeout=timeout)
    except subprocess.TimeoutExpired:
        return {"rc": -999, "lines": [], "diags": [], "stderr": b"TIMEOUT", "n": None}
    out = p.stdout.split(b"\n")
    lines, n = [], None
    for i, l in enumerate(out):
        if i == 0 and l.startswith(b"# Uncrustify"):
            continue
        m = re.match(rb"# option\(s\) with 'not default' value: (\d+)", l)
        if m:
            n = int(m.group(1))
            continue
        if with_doc and (l.startswith(b"#") or l == b""):
            continue
        if l in (b"#", b""):
            continue
        if with_doc:
            l = re.sub(rb"\s+# [^#\"]*$", b"", l)
        lines.append(l)
    return {"rc": p.returncode, "lines": lines, "diags": parse_stderr(p.stderr, cfg), "stderr": p.stderr, "n": n}


def parse_stderr(err, cfg):
    out = []
    txt = err.decode("latin1")
    cfgq = re.escape(cfg)
    for line in txt.split("\n"):
        m = re.match(r"^%s:(\d+): (.*)$" % cfgq, line)
        if m:
            ln, msg = int(m.group(1)), m.group(2)
            if msg.startswith("found unterminated quoted-string"):
                out.append((ln, "unterminated", "-"))
            elif msg.startswith("unexpected text following quoted-string"):
                out.append((ln, "unexpected-text", "-"))
            elif "requires at least" in msg:
                out.append((ln, "few-args", msg.split(" requires")[0]))
            elif msg.startswith("unknown option '"):
                out.append((ln, "unknown-option", msg[len("unknown option '"):-1].lower()))
            elif msg.startswith("set: unknown type '"):
                out.append((ln, "unknown-type", msg[len("set: unknown type '"):-1]))
            elif msg.startswith("file_ext: unknown language '"):
                out.append((ln, "unknown-lang", msg[len("file_ext: unknown language '"):-1]))
            elif msg.startswith("option '") and ("deprecated" in msg or "never works" in msg):
                out.append((ln, "deprecated", msg[len("option '"):].split("'")[0]))
            elif "requires a version number" in msg:
                out.append((ln, "bad-version", "-"))
            elif msg.startswith("include: path cannot be empty"):
                out.append((ln, "empty-include", "-"))
            else:
                out.append((ln, "other", msg[:60]))
            continue
        m = re.match(r"^Option<[^>]*>: at .*?:(\d+): (.*)$", line)
        if m:
            ln, msg = int(m.group(1)), m.group(2)
            if msg.startswith("Expected"):
                mm = re.search(r", for '([^']*)'; got", msg)
                out.append((ln, "bad-value", mm.group(1) if mm else "?"))
            elif "references option" in msg:
                out.append((ln, "bad-ref", msg.split(" references")[0]))
            elif "is less than the minimum" in msg:
                out.append((ln, "less", re.search(r"for option '([^']*)'", msg).group(1)))
            elif "is greater than the maximum" in msg:
                out.append((ln, "greater", re.search(r"for option '([^']*)'", msg).group(1)))
            else:
                out.append((ln, "other", msg[:60]))
    return out


def model_load(m, cfg_bytes, sets=()):
    lines = cfg_bytes.split(b"\n")
    if lines and lines[-1] == b"":
        lines = lines[:-1]
    # std::getline splits at \n only; a trailing \r stays in the line
    args = [hx(l) for l in lines] + ["set:%s:%s" % (hx(k), hx(v)) for k, v in sets]
    ans = m.ask("cfg_load " + " ".join(args)) if args else m.ask("cfg_load")
    if ans == "NOTPRINTABLE":
        return {"notprintable": True}
    if ans.startswith("ERR"):
        raise RuntimeError(ans[:300])
    head, saved, dstr, incs = [x.strip() for x in ans.split("|")]
    out_lines = [] if not saved else [(b"" if h == "-" else bytes.fromhex(h)) for h in saved.split(";")]
    diags = []
    if dstr:
        for item in dstr.split(";"):
            ln, kind, opt = item.split(":")
            diags.append((int(ln), kind, "-" if opt == "-" else bytes.fromhex(opt).decode("latin1")))
    return {"n": int(head[2:]), "lines": out_lines, "diags": diags, "notprintable": False,
            "includes": [bytes.fromhex(h) for h in incs.split(";") if h and h != "-"]}


def compare(I, M, ignore_set_lines=False):
    diffs = []
    if M.get("notprintable"):
        if I["rc"] == 0 or b"not printable" not in I["stderr"]:
            diffs.append("model: not printable (exit), impl rc=%s" % I["rc"])
        return diffs
    if I["rc"] != 0:
        diffs.append("impl exit %s: %r" % (I["rc"], I["stderr"][-200:]))
        return diffs
    if I["lines"] != M["lines"]:
        for a, b in zip(I["lines"] + [None] * 5, M["lines"] + [None] * 5):
            if a != b:
                diffs.append("saved line: impl %r / model %r" % (a, b))
                break
    if I["n"] != M["n"]:
        diffs.append("non-default count impl %s / model %s" % (I["n"], M["n"]))
    nm = lambda o: "-" if o in ("", "-") else o          # an empty option name is printed as '' by the binary and as '-' by the driver
    di = [(l, k, nm(o.lower() if k in ("few-args",) else o)) for l, k, o in I["diags"]]
    dm = [(l, k, nm(o)) for l, k, o in M["diags"]]
    if ignore_set_lines:
        di = [(0 if (l, k, o) not in dm else l, k, o) for l, k, o in di]
    if [(k, o) for _, k, o in di] != [(k, o) for _, k, o in dm] or (not ignore_set_lines and [l for l, _, _ in di] != [l for l, _, _ in dm]):
        diffs.append("diagnostics impl %s / model %s" % (di[:6], dm[:6]))
    return diffs
