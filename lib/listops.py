"""Correspondence Model/ChunkList.v <-> src/ListManager.h + the list surgery of src/chunk.cpp.

Random operation sequences are run (a) on real Chunk objects through the hook UNC_VERIF_LISTOPS of the instrumented
binary and (b) on the extracted model (driver command `listops`); the forward walk (with nl_count) and the backward walk
are compared line by line.  Independently of the model, sequences that stay inside the contract of the theorems
(arguments are linked chunks, Swap not with the first chunk unless neighbours) are judged against a plain Python list:
a difference there is a concrete failure of "no chunk is dropped, duplicated or reordered" and is reported with the
scenario as replay."""
import os
import subprocess
import tempfile

from . import common


def parse(line):
    """'F 1:0 2:1 | R 2 1' -> ([(1,0),(2,1)], [2,1])"""
    try:
        f, b = line.split("|")
        fw = [tuple(int(v) for v in t.split(":")) for t in f.split()[1:]]
        bw = [int(t) for t in b.split()[1:]]
        return fw, bw
    except Exception:
        return None


def model_line(m, ops, nids):
    return m.ask("listops %d %s" % (nids + 2, ";".join(",".join(str(v) for v in o) for o in ops)))


def py_apply(L, o, NL=None, CNT=None):
    """abstract list semantics inside the contract; returns the new list or None when the op leaves the contract / is not judged.
    NL / CNT (chunk -> is newline / nl_count) are kept up to date when given; SwapLines is judged only with them."""
    k = o[0]
    L = list(L)
    if k in "AB" and NL is not None:
        NL[o[1]], CNT[o[1]] = bool(o[3]), o[4]
    if k == "L" and NL is not None:
        _, a, b = o
        if NL.get(a) or NL.get(b):
            return None
        lines, cur = [], []
        for x in L:
            cur.append(x)
            if NL.get(x):
                lines.append(cur)
                cur = []
        if cur:
            lines.append(cur)
        ia = [i for i, ln in enumerate(lines) if a in ln][0]
        ib = [i for i, ln in enumerate(lines) if b in ln][0]
        if ia == ib:
            return L
        la, lb = lines[ia], lines[ib]
        wa, na = ([x for x in la if not NL.get(x)], [x for x in la if NL.get(x)])
        wb, nb = ([x for x in lb if not NL.get(x)], [x for x in lb if NL.get(x)])
        # the words of the two lines change places; the two newline chunks change places too and exchange their counts, so the spacing stays where it was
        if na and nb:
            CNT[na[0]], CNT[nb[0]] = CNT[nb[0]], CNT[na[0]]
            lines[ia], lines[ib] = wb + nb, wa + na
        else:
            lines[ia], lines[ib] = wb + na, wa + nb
        return [x for ln in lines for x in ln]
    if k in "AB":
        _, n, r, nl, c = o
        if r == 0:
            return [n] + L if k == "A" else L + [n]
        i = L.index(r)
        L.insert(i + 1 if k == "A" else i, n)
        return L
    if k == "D":
        L.remove(o[1])
        return L
    if k == "M":
        _, x, r = o
        if x == r:
            return L
        L.remove(x)
        L.insert(L.index(r) + 1, x)
        return L
    if k == "S":
        _, a, b = o
        if a == b:
            return L if L[0] != a else None
        i, j = L.index(a), L.index(b)
        if abs(i - j) != 1 and (i == 0 or j == 0):
            return None
        L[i], L[j] = L[j], L[i]
        return L
    return None


GUARD_QUERIES = []


def gen_scenario(r, m, maxlen):
    """returns (ops, expected abstract list or None, number of ids)"""
    ops, L, nl, exp = [], [], {}, []
    eNL, eCNT = {}, {}
    nid = 0
    n_ops = r.randint(3, maxlen)
    in_contract = r.random() < 0.5        # half of the scenarios stay inside the contract of the theorems and are judged against the Python list
    for _ in range(n_ops):
        choice = r.random()
        if len(L) < 2 or choice < 0.30:
            nid += 1
            isnl = 1 if (L and r.random() < 0.3) else 0
            ref = r.choice(L + [0]) if L else 0
            o = (r.choice("AB"), nid, ref, isnl, r.randint(1, 3) if isnl else 0)
            nl[nid] = isnl
        elif choice < 0.38:
            o = ("D", r.choice(L))
        elif choice < 0.58:
            o = ("M", r.choice(L), r.choice(L))
        elif choice < 0.80:
            a = r.choice(L)
            i = L.index(a)
            # aim at the case splits of Swap: neighbours on either side, the first chunk, the last chunk, itself
            cands = [L[i - 1] if i > 0 else L[-1], L[(i + 1) % len(L)], L[0], L[-1], r.choice(L), a]
            o = ("S", a, r.choice(cands))
            if in_contract and py_apply(L, o) is None:
                o = ("M", a, L[-1])
        else:
            line0, k0 = {}, 0
            for x in L:
                line0[x] = k0
                if nl.get(x):
                    k0 += 1
            words = [x for x in L if not nl.get(x)]
            good = [(x, y) for x in words for y in words if line0[x] != line0[y]]
            o = ("L",) + r.choice(good) if good and (in_contract or r.random() < 0.7) else ("L", r.choice(L), r.choice(L))
            if in_contract and not good:
                o = ("M", r.choice(L), L[-1])
            # the shape the passes use (and the hook judges on real calls): two non-newline chunks of different lines -> the theorem's executable
            # hypothesis swap_lines_guard is expected to hold in the state before the call
            line, ln = {}, 0
            for x in L:
                line[x] = ln
                if nl.get(x):
                    ln += 1
            if not nl.get(o[1]) and not nl.get(o[2]) and line[o[1]] != line[o[2]]:
                GUARD_QUERIES.append((list(ops), o[1], o[2], nid))
        ops.append(o)
        if exp is not None:
            exp = py_apply(exp, o, eNL, eCNT)
        cur = parse(model_line(m, ops, nid))
        if cur is None:
            break
        fw = [x for x, _ in cur[0]]
        if cur[1] != fw[::-1] or (o[0] in "SLM" and sorted(fw) != sorted(L)):
            L = fw
            break          # a chunk was lost or the links disagree: nothing more is done with this list
        L = fw
    return ops, (exp, dict(eCNT)) if exp is not None else None, nid


def correspond(rep, r, n, maxlen=14):
    """returns (compared, differences, stats); findings are put on rep"""
    m = common.Model()
    scen = []
    stats = {"scenarios": 0, "ops": {}, "judged_against_python_list": 0, "not_judged_swaplines_or_out_of_contract": 0, "max_len": 0}
    fixed = [
        [("A", 1, 0, 0, 0), ("A", 2, 1, 0, 0), ("A", 3, 2, 0, 0), ("S", 1, 3)],
        [("A", 1, 0, 0, 0), ("A", 2, 1, 0, 0), ("A", 3, 2, 0, 0), ("S", 1, 1)],
        [("A", 1, 0, 0, 0), ("A", 2, 1, 0, 0), ("A", 3, 2, 0, 0), ("S", 2, 2)],
        [("A", 1, 0, 0, 0), ("A", 2, 1, 0, 0), ("A", 3, 2, 0, 0), ("A", 4, 3, 0, 0), ("S", 2, 4), ("S", 3, 4), ("S", 4, 3), ("M", 1, 4)],
        [("A", 1, 0, 0, 0), ("A", 2, 1, 1, 1), ("A", 3, 2, 0, 0), ("A", 4, 3, 1, 3), ("L", 1, 3)],
        [("A", 1, 0, 0, 0), ("A", 2, 1, 1, 1), ("A", 3, 2, 0, 0), ("A", 4, 3, 1, 3), ("L", 3, 1)],
        [("A", 1, 0, 0, 0), ("A", 2, 1, 1, 1), ("A", 3, 2, 0, 0), ("A", 4, 3, 0, 0), ("L", 1, 4)],
        [("A", 1, 0, 0, 0), ("A", 2, 1, 1, 2), ("A", 3, 2, 0, 0), ("A", 4, 3, 1, 1), ("A", 5, 4, 0, 0), ("A", 6, 5, 1, 3), ("L", 5, 1), ("L", 3, 3)],
        [("B", 1, 0, 0, 0), ("B", 2, 0, 0, 0), ("B", 3, 1, 0, 0), ("D", 3), ("D", 2), ("D", 1), ("A", 4, 0, 0, 0)],
        # SwapLines whose other chunk is the newline of a blank line while the first line opens the list: its final Swap meets the first chunk, a chunk is lost
        [("A", 1, 0, 0, 0), ("A", 2, 1, 1, 1), ("A", 3, 2, 1, 2), ("L", 1, 3)],
    ]
    for ops in fixed:
        exp, fNL, fCNT = [], {}, {}
        for o in ops:
            exp = py_apply(exp, o, fNL, fCNT) if exp is not None else None
        scen.append((ops, (exp, dict(fCNT)) if exp is not None else None, max(o[1] for o in ops if o[0] in "AB")))
    for _ in range(n):
        scen.append(gen_scenario(r, m, maxlen))
    lines = []
    for ops, exp, nid in scen:
        lines.append(";".join(" ".join(str(v) for v in o) for o in ops))
        stats["scenarios"] += 1
        stats["max_len"] = max(stats["max_len"], len(ops))
        for o in ops:
            stats["ops"][o[0]] = stats["ops"].get(o[0], 0) + 1
    with tempfile.NamedTemporaryFile("w", suffix=".listops", dir=common.WORK, delete=False) as f:
        f.write("\n".join(lines) + "\n")
        path = f.name
    env = dict(os.environ, UNC_VERIF_LISTOPS=path)
    try:
        out = subprocess.run([common.UNC], env=env, stdout=subprocess.PIPE, stderr=subprocess.DEVNULL, timeout=300).stdout.decode(errors="replace").splitlines()
    except subprocess.TimeoutExpired:
        out = []
    os.unlink(path)
    real = [ln for ln in out if ln.startswith("F")]
    diffs = []
    if len(real) != len(scen):
        diffs.append("hook UNC_VERIF_LISTOPS printed %d result lines for %d scenarios" % (len(real), len(scen)))
        return 0, diffs, stats
    models = m.ask_many(["listops %d %s" % (nid + 2, ";".join(",".join(str(v) for v in o) for o in ops)) for ops, exp, nid in scen])
    # the link between the contract judged on real calls and the hypothesis of C02_swap_lines_keeps_every_chunk (a test of that link, not a proof)
    qs = GUARD_QUERIES[:2000]
    del GUARD_QUERIES[:]
    if qs:
        ans = m.ask_many(["slguard %d %s %d %d" % (nid + 2, ";".join(",".join(str(v) for v in o) for o in ops) or ";", a, b) for ops, a, b, nid in qs])
        stats["swap_lines_guard_queries"] = len(qs)
        stats["swap_lines_guard_true"] = sum(1 for x in ans if x == "1")
        for (ops, a, b, nid), x in zip(qs, ans):
            if x != "1":
                diffs.append("swap_lines_guard is false for SwapLines(%d, %d) on two non-newline chunks of different lines after ops '%s'" % (a, b, ";".join(" ".join(str(v) for v in o) for o in ops)))
                break
    compared = 0
    for (ops, exp, nid), rl, ml, text in zip(scen, real, models, lines):
        compared += 1
        rep.count(key=("listops", text), nontrivial=len(ops) > 2)
        pr = parse(rl)
        if exp is not None:
            exp, ecnt = exp
            stats["judged_against_python_list"] += 1
            fw = [x for x, _ in pr[0]] if pr else None
            if fw != exp or pr[1] != exp[::-1] or any(ecnt.get(x, 0) != c for x, c in pr[0]):
                rep.finding("listops|%s" % text[:80], "chunk list surgery inside its contract does not yield the expected sequence: ops '%s' give forward %s / backward %s, expected %s"
                            % (text, fw, pr[1] if pr else None, exp), {"kind": "listops", "ops": text, "expected": exp})
        else:
            stats["not_judged_swaplines_or_out_of_contract"] += 1
        if rl.strip() != ml.strip():
            diffs.append("ops '%s': binary '%s' / Model/ChunkList.v '%s'" % (text, rl.strip(), ml.strip()))
    return compared, diffs, stats


def replay(rp):
    text = rp["ops"]
    with tempfile.NamedTemporaryFile("w", suffix=".listops", dir=common.WORK, delete=False) as f:
        f.write(text + "\n")
        path = f.name
    out = subprocess.run([common.UNC], env=dict(os.environ, UNC_VERIF_LISTOPS=path), stdout=subprocess.PIPE, stderr=subprocess.DEVNULL, timeout=60).stdout.decode(errors="replace")
    os.unlink(path)
    pr = parse(out.splitlines()[0]) if out.strip() else None
    exp = rp.get("expected")
    fw = [x for x, _ in pr[0]] if pr else None
    print("ops:", text, "\nbinary:", out.strip(), "\nexpected:", exp)
    if exp is not None and (fw != exp or pr[1] != exp[::-1]):
        print("VIOLATION reproduced: list surgery does not yield the expected sequence")
        return 1
    print("property holds on this replay")
    return 0


# ------------------------------------------------------------------------------------------------ contract of the list theorems on REAL calls
CALL_STATS = {"MoveAfter": 0, "Swap": 0, "SwapLines": 0, "swap_neighbours": 0, "swap_far": 0, "runs_with_calls": 0}


def judge_calls(R, findings):
    """Every call of Chunk::MoveAfter / Swap / SwapLines made by the passes during a real run (hook records in <prefix>.N.lops) is judged
    against the hypotheses of the list theorems of Properties_C02.v: arguments are chunks (not the null chunk), MoveAfter not onto itself's
    absence, Swap with a different chunk that is a neighbour or with neither chunk first in the list (C02_swap_keeps_every_chunk),
    SwapLines with two non-newline chunks of different lines (the shape for which swap_lines_guard holds)."""
    recs = getattr(R, "lops", None) or []
    if recs:
        CALL_STATS["runs_with_calls"] += 1
    for k, an, bn, same, ah, bh, b_before_a, a_before_b, nlbits, same_line in recs:
        if k == "M":
            CALL_STATS["MoveAfter"] += 1
            if an or bn:
                findings.append(("list-contract|MoveAfter|null", "Chunk::MoveAfter called with the null chunk (this null: %d, reference null: %d)" % (an, bn)))
        elif k == "S":
            CALL_STATS["Swap"] += 1
            neigh = b_before_a or a_before_b
            CALL_STATS["swap_neighbours" if neigh else "swap_far"] += 1
            if an or bn or same or not (neigh or (not ah and not bh)):
                findings.append(("list-contract|Swap", "Chunk::Swap called outside the contract of C02_swap_keeps_every_chunk (null: %d/%d, same chunk: %d, first of the list: %d/%d, "
                                 "neighbours: %d): ChunkListManager::Swap loses a chunk there" % (an, bn, same, ah, bh, neigh)))
        elif k == "L":
            CALL_STATS["SwapLines"] += 1
            if an or bn or nlbits or same_line:
                findings.append(("list-contract|SwapLines", "Chunk::SwapLines called with a null chunk, a newline chunk or two chunks of one line (null: %d/%d, newline bits: %d, same line: %d)"
                                 % (an, bn, nlbits, same_line)))
