"""Client of the extracted lexical specification (coq/Model/LexC.v): token lists of a text, and the streams the
properties C02/C03/C04 compare."""
import re


def decode(data):
    try:
        return data.decode("utf-8")
    except UnicodeDecodeError:
        return data.decode("latin1")


def lex(model, text):
    """[(kind letter, text, in_directive)] - kinds: w W N P S C l b H E (see ocaml/driver_ext.ml 'lexc')"""
    if not text:
        return []
    ans = model.ask("lexc " + ",".join("%x" % ord(c) for c in text))
    out = []
    pos = 0
    for item in ans.split():
        k, d, n = item[0], item[1] == "d", int(item[2:])
        out.append((k, text[pos:pos + n], d))
        pos += n
    if pos != len(text):
        raise ValueError("lexc: token lengths do not add up (%d of %d)" % (pos, len(text)))
    return out


def code_stream(toks):
    """the non-comment tokens with the preprocessor structure: (text, in_directive) plus ('<DIR>', ..) / ('<EOD>', ..) marks.
    '>>' is compared as two '>' (a template closer may be written either way); a final end-of-directive mark is dropped
    (a missing line break at the end of the file)."""
    out = []
    for k, t, d in toks:
        if k in "wlb":
            continue
        if k == "H":
            out.append(("<DIR>", False))
            continue
        if k == "E":
            out.append(("<EOD>", True))
            continue
        if k == "P" and t in (">>", ">>="):
            out.append((">", d))
            out.append((t[1:], d))
            continue
        out.append((t, d))
    while out and out[-1][0] == "<EOD>":
        out.pop()
    return out


def norm_comment(k, t):
    """a comment's text apart from the layout of its continuation lines: per line, leading blanks, a repeated '//' leader,
    and trailing blanks are dropped; a trailing line splice is kept as a mark"""
    lines = re.split(r"\r\n|\n|\r", t)
    out = []
    for i, ln in enumerate(lines):
        s = ln.strip(" \t\f\v")
        if k == "l" and i > 0:
            s = re.sub(r"^//", "", s).strip(" \t")
        if k == "l":
            nb = len(s) - len(s.rstrip("\\"))
            s = s.rstrip("\\").rstrip(" \t") + ("" if nb == 0 else "\\" if nb % 2 else "\\\\")
        out.append(s)
    if k == "l":
        out[0] = re.sub(r"^//\s*", "//", out[0])
    return (k, tuple(out))


def comments(toks):
    return [norm_comment(k, t) for k, t, d in toks if k in "lb"]


def literals(toks):
    return [(k, t) for k, t, d in toks if k in "SC"]


def first_diff(a, b):
    k = 0
    while k < min(len(a), len(b)) and a[k] == b[k]:
        k += 1
    return k
