"""C02 — Token stream is preserved exactly under whitespace-only configurations.
Theorems: coq/Properties/Properties_C02.v — the output stage (Model/Render.v) writes the text of every chunk exactly once,
in list order, and otherwise only white space (all chunk lists, all option values); the lexical specification LexC
(Model/LexC.v) with which input and output are re-lexed partitions a text without loss and always makes progress.
NOT modelled: uncrustify's tokenizer (contract K_lossless: the chunks carry the input's characters), the passes between
tokenizer and output (contract K_tok: they leave the chunk texts alone) and the spacing decisions (contract K_space: the
rendered text re-lexes to the same tokens) - all three evaluated on every explored run.
Tie: Render correspondence on the dumps; LexC is independent of the implementation by design (it follows the languages'
rules) and is exercised on every input and output."""
import os
import re

from .. import common, dumps, lexc, listops, progs
from . import lex_common as lx, render_common as rc

LEVEL = "proof"
ASSUME = ["Coq kernel; extraction; driver glue; hooks",
          "tokenizer and middle passes are covered by the contracts K_lossless/K_tok/K_space evaluated on every run, not by theorems",
          "LexC is a specification of the C family only (C, C++, Objective-C); the other six languages are judged by re-tokenising the output with uncrustify's own "
          "tokenizer and comparing chunk texts (cannot see a tokenizer defect that is the same on both sides)",
          "'>>' is compared as two '>' (template closers); digraph spellings are compared as written",
          "Model/ChunkList.v mirrors ChunkListManager and Chunk::MoveAfter/Swap/SwapLines/CopyAndAdd/Delete; tied by running random operation sequences on real Chunk "
          "objects (hook UNC_VERIF_LISTOPS). That the passes call these operations inside the contract of the theorems (arguments are linked chunks; Swap not with the "
          "first chunk unless neighbours) is not proved"]


DIGRAPHS = {"<:", ":>", "<%", "%>", "%:", "%:%:"}


def norm_stream(st):
    out = []
    for t, d in st:
        if len(t) > 1 and t[0] == "$" and (t[1].isalpha() or t[1] == "_"):
            out.append(("$", d))                 # embedded SQL host variables / '$' is not a C identifier character
            out.append((t[1:], d))
        elif t in DIGRAPHS:
            out.extend((ch, d) for ch in t)      # digraphs are only tokens for uncrustify with enable_digraphs (a tokenizer option, at its default here)
        else:
            out.append((t, d))
    return out


def tclass(t):
    if t in ("<DIR>", "<EOD>"):
        return t
    if t[0].isdigit() or (t[0] == "." and len(t) > 1 and t[1].isdigit()):
        return "NUM"
    if t[0].isalpha() or t[0] in "_$" or ord(t[0]) > 127 or (t[0] == "@" and len(t) > 1 and t[1].isalpha()):
        return "WORD"
    if t[0] in "\"'" or (t[-1] in "\"'" and len(t) > 1):
        return "LIT"
    return t


def classify(a, b, k):
    """names the smallest re-grouping of characters around the first difference"""
    if k >= len(a) or k >= len(b):
        return "dropped-or-added"
    if "<DIR>" in (a[k][0], b[k][0]) or "<EOD>" in (a[k][0], b[k][0]) or a[k][1] != b[k][1]:
        return "directive-structure"
    for m in range(1, 5):
        for n in range(1, 5):
            if (m, n) != (1, 1) and "".join(t for t, d in a[k:k + m]) == "".join(t for t, d in b[k:k + n]) and len(a[k:k + m]) == m and len(b[k:k + n]) == n:
                return "regroup|%s=>%s" % (" ".join(tclass(t) for t, d in a[k:k + m]), " ".join(tclass(t) for t, d in b[k:k + n]))
    return "changed"


def judge(case, R, tin, tout, f):
    if tin is not None:
        a, b = norm_stream(lexc.code_stream(tin)), norm_stream(lexc.code_stream(tout))
        if a != b:
            k = lexc.first_diff(a, b)
            cls = classify(a, b, k)
            if re.search(rb"//[^\n]*[^\\\n](\\\\)+\r?\n", case.data):
                cls = "even-backslashes"          # '// ... \\\\' + line break: spliced by the languages' rules, not by uncrustify's tokenizer (see C03)
            if cls == "directive-structure" and re.match(rb"^\s*\\\r?\n\s*#", case.data):
                cls += "|leading-splice"          # the file starts with a line splice in front of a directive
            f.append(("tokens|%s" % cls, "the output does not lex to the input's tokens: at token %d input %s, output %s"
                      % (k, [t for t, d in a[max(0, k - 2):k + 3]], [t + ("" if not d else "") for t, d in b[max(0, k - 2):k + 3]])))
    # contracts on the dumps
    if R.tok is not None and R.fin is not None:
        ct, cf = lx.code_texts(R.tok), lx.code_texts(R.fin)
        if ct != cf:
            k = lexc.first_diff(ct, cf)
            f.append(("K_tok", "the passes changed the text of the code chunks: ...%r vs ...%r" % (ct[max(0, k - 15):k + 15], cf[max(0, k - 15):k + 15])))
        strip = lambda s: "".join(ch for ch in s if ch not in " \t\r\n\f\v\\")
        alltok = strip("".join("".join(chr(x) for x in c["text"]) for c in R.tok))
        src = strip(lexc.decode(case.data).lstrip("﻿"))
        if alltok != src and not case.data.startswith((b"\xff\xfe", b"\xfe\xff")):
            k = lexc.first_diff(alltok, src)
            f.append(("K_lossless", "the tokenizer's chunks do not carry the input's characters: chunks ...%r, input ...%r" % (alltok[max(0, k - 15):k + 15], src[max(0, k - 15):k + 15])))
    if tin is None and R.tok is not None:
        # other languages: uncrustify's own tokenizer on the output
        import tempfile
        with tempfile.TemporaryDirectory(prefix="re_", dir=common.WORK) as wd:
            c2 = rc.Case("relex", case.lang, "", R.out)
            R2 = rc.run_case(wd, c2, timeout=20)
            if R2.rc == 0 and R2.tok is not None:
                def seq(cs):
                    out = []
                    for c in cs:
                        if c["type"] in ("NEWLINE", "NL_CONT", "COMMENT", "COMMENT_CPP", "COMMENT_MULTI") or not c["text"]:
                            continue
                        t = dumps.text_str(c)
                        if t in (">>", ">>=", ">>>"):
                            out.extend((ch, False) for ch in t)      # generic closers may be written either way
                        else:
                            out.append((t, False))
                    return out
                a, b = seq(R.tok), seq(R2.tok)
                if a != b:
                    k = lexc.first_diff(a, b)
                    f.append(("retok|%s" % classify(a, b, k), "%s: uncrustify's own tokenizer reads other tokens from the output: at %d input %s, output %s"
                              % (case.lang, k, [t for t, d in a[max(0, k - 2):k + 3]], [t for t, d in b[max(0, k - 2):k + 3]])))


_BIN_C = ["+", "-", "*", "/", "%", "<<", ">>", "<", ">", "<=", ">=", "==", "!=", "&", "^", "|", "&&", "||", "=", "*=", "/=", "%=", "+=", "-=", "<<=", ">>=", "&=", "^=", "|=", ","]
PUNCT_C = ("#define CAT(a, b) a ## b\n#define STR(x) # x\n#define VA(...) f(__VA_ARGS__)\nstruct s { int m; int n : 3; };\nint f(struct s *p, struct s v, int a, int b, ...)\n{\n"
           + "".join("    x = a%sb;\n    y = a %s b;\n" % (o, o) for o in _BIN_C)
           + "    a++; ++a; b--; --b; x = !a; y = ~b; z = -a + +b; w = *q; u = &a;\n    p->m = v.n; x = a ? b : c; arr[1] = 2; goto l1;\nl1: ;\n    return (a);\n}\n"
           )
PUNCT_CPP = (PUNCT_C.replace("struct s *p, struct s v,", "s *p, s v,")
             + "struct T { int m; int f(); };\nint T::*pm = &T::m;\nint (T::*pf)() = &T::f;\nint h(T *p, T v)\n{\n    x = p->*pm; y = v.*pm; z = (p ->* pf)(); w = (v .* pf)();\n"
             "    a = b <=> c; a = (b<=>c) < 0; n = ::g; m = T::m;\n    bool q = a and b or not c; q = a bitand b bitor c xor d; q = compl a; a and_eq b; a or_eq b; a xor_eq b; q = a not_eq b;\n    return 0;\n}\n"
             "template <typename... A> int k(A... a) { return sizeof...(a); }\nauto l = [](auto&&... x) -> int { return 0; };\n")


POS_TOKENS = """class Derived // the derived class
   : public Base
   , public Other // second base
   , private Third
{
public:
   Derived(int a) // constructor
      : Base(a)
      , m(1) // member
      , n(2)
   {
   }
   Derived(long b) :
      Base(b), // trailing
      m(3)
   {
   }
};
class D
#ifdef X
#endif
   : public B
#ifdef Y
   , public C
#endif
{
};
struct E : // colon at the end
   public F,
   public G // last
{
};
int f(int a, int b, int c)
{
   int x = a // first
           + b
           - c; // done
   int y = a + // plus at the end
           b *
           c;
   bool t = a == b // eq
            && b != c
            || c < a; // rel
   bool u = a <= b && // and at the end
            b >= c ||
            c > a;
   int z = a ? // question at the end
           b :
           c;
   int w = a // cond
           ? b // then
           : c;
   x = // assign at the end
       y;
   x // lhs
      = y;
   x = a << // shift
       b
       >> c;
#ifdef X
   x = a
#else
   x = b
#endif
       + c;
   return x;
}
enum K
{
   K1 // one
   , K2
   , K3 // three
};
enum L
{
   L1, // one
   L2,
   L3
};
"""

BRACE_DIRECTIVE = """int f(int x) { // entry
#ifdef TRACE
    t(x);
#endif
    if (x) { // c
#if FOO
        a();
#endif
    }
    for (x = 0; x < 3; x++) { /* loop */
#pragma omp parallel for
        for (int i = 0; i < 2; i++) { b(i); }
    }
    while (x)
    { // own line already
#if BAR
        x--;
#endif
    }
    if (x) // comment before the brace
#if BAZ
    {
        c();
    }
#else
    {
        d();
    }
#endif
    struct s { /* fields */
#ifdef WIDE
        long v;
#else
        int v;
#endif
    } y;
    return x;
}
"""


def make_cases(r, tier):
    nc, ng, no = (60, 60, 30) if tier == "quick" else (1100, 1500, 500)
    cases = []
    sp_remove, sp_force = "\n".join(lx.all_sp("remove")) + "\n", "\n".join(lx.all_sp("force")) + "\n"

    def cfg_for(i):
        k = i % 6
        if k == 0:
            return "", "default"
        if k == 1:
            return sp_remove + "\n".join(lx.ws_config(r, 6)) + "\n", "sp-remove"
        if k == 2:
            return sp_force + "\n".join(lx.ws_config(r, 6)) + "\n", "sp-force"
        if k == 3:
            return "\n".join(lx.ws_config(r, r.choice([5, 15, 40]), aggressive=True)) + "\n", "random"
        if k == 4:
            return "\n".join(lx.ws_config(r, 12, family="pos_") + lx.ws_config(r, 25, family="nl_") + ["code_width=%d" % r.choice([20, 40, 70])]) + "\n", "pos-nl-width"
        return "\n".join(lx.ws_config(r, 12, family="pp_") + lx.ws_config(r, 10, family="align_") + lx.ws_config(r, 10, family="indent_")
                         + ["nl_remove_extra_newlines=%d" % r.choice([0, 1, 2])]) + "\n", "pp-align-indent"
    for i, c in enumerate(lx.corpus_cases(r, nc)):
        c.cfg_text, tag = cfg_for(i)
        c.label += ":" + tag
        cases.append(c)
    for i in range(ng):
        k = i % 3
        if k == 0:
            src, lang = lx.token_program(r), r.choice(["C", "CPP"])
        elif k == 1:
            src, lang = lx.class_program(r), "CPP"
        else:
            src, lang = lx.literal_program(r, 8), "CPP"
        cfg, tag = cfg_for(r.randrange(6))
        if k == 1 and r.random() < 0.7:
            cfg += "pos_class_colon=%s\npos_constr_colon=%s\npos_class_comma=%s\npos_constr_comma=%s\n" % tuple(r.choice(lx.TOKPOS) for _ in range(4))
        cases.append(lx.LCase("gen:%d:%s:%s" % (i, ["tokens", "class", "literals"][k], tag), lang, cfg, src.encode("utf-8")))
    # every punctuator of the C and C++ standards (ISO C 6.4.6, C++ [lex.operators]) once glued and once spaced, under the default,
    # the all-remove and the all-force configuration: a missing or mis-flagged entry of the tokenizer's symbol table shows here
    for lang, text in (("C", PUNCT_C), ("CPP", PUNCT_CPP)):
        for tag, cfg in (("default", ""), ("sp-remove", sp_remove), ("sp-force", sp_force)):
            cases.append(lx.LCase("punctuators:%s:%s" % (lang, tag), lang, cfg, text.encode()))
    # braces that the nl_*_brace options move, with a comment behind them and a directive on the next line: moving a token must
    # never carry it across a preprocessor line
    brace_opts = [o["name"] for o in lx.registry() if o["name"].startswith("nl_") and o["name"].endswith("_brace") and o["type"] == "iarf_e"]
    for v in ("add", "force", "remove"):
        cfg = "".join("%s=%s\n" % (o, v) for o in brace_opts)
        for lang in ("C", "CPP"):
            cases.append(lx.LCase("brace-comment-directive:%s:%s" % (lang, v), lang, cfg, BRACE_DIRECTIVE.encode()))
    # tokens that the pos_* options move across a line break (class/constructor colons and commas, arithmetic, boolean, comparison, conditional,
    # assignment, shift operators, enum commas), each once at the start and once at the end of a line, with a // comment or a directive on the
    # neighbouring line: every pos_ option at every value, singly and all together, in every tier (round-4 seed: the SafeToDeleteNl() test of the
    # TRAIL branch of newlines_class_colon_pos() asked the colon instead of the newline; only one of two random seeds had drawn the shape)
    pos_opts = [o["name"] for o in lx.registry() if o["name"].startswith("pos_") and o["type"] == "token_pos_e"]
    for v in lx.TOKPOS:
        cases.append(lx.LCase("pos-tokens:all=%s" % v, "CPP", "".join("%s=%s\n" % (o, v) for o in pos_opts), POS_TOKENS.encode()))
        for o in pos_opts:
            cases.append(lx.LCase("pos-tokens:%s=%s" % (o, v), "CPP", "%s=%s\n" % (o, v), POS_TOKENS.encode()))
    others = lx.corpus_cases(r, no, langs=("CS", "D", "JAVA", "PAWN", "VALA", "ECMA"))
    for i, c in enumerate(others):
        c.cfg_text, tag = cfg_for(i)
        c.label += ":" + tag
        cases.append(c)
    return cases


def run(rep, build, tier, seed):
    r = common.rng(seed, "C02")
    rep.cov["rule"] = ("corpus files of the C family and of the six other languages, generated programs with hard token neighbourhoods (unary after binary operators, "
                       "'/ *', '- -', '< ::', pp-numbers, '#'/'##', multi-line macro bodies, directives inside functions, '//' comments before code), C++ classes with "
                       "constructor/base colons next to comments and directives, literal programs; x six configuration families of whitespace-only options "
                       "(default; every sp_ option = remove; every sp_ option = force; up to 40 random options; pos_/nl_/code_width; pp_/align_/indent_/"
                       "nl_remove_extra_newlines). mod_, cmt_, tok_, string_ options stay at their defaults. Non-trivial = exit 0 and more than 5 chunks.")
    if build.get("uncrustify") != "ok" or build.get("model") != "ok":
        rep.unproved("build failed", "\n".join(build["errors"])[-3000:])
        return rep.finish(common.proof_status("C02", build))
    cases = make_cases(r, tier)
    stats = {"rc": {}}
    corr = lx.explore(rep, cases, judge, stats)
    rep.cov["input_distribution"] = {"cases": len(cases), "exit_status": {str(k): v for k, v in stats["rc"].items()},
                                     "languages": {L: sum(1 for c in cases if c.lang == L) for L in sorted(set(c.lang for c in cases))}}
    from .. import listops as _lo
    rep.cov["input_distribution"]["list_calls_judged_against_the_contract"] = dict(_lo.CALL_STATS)
    rep.sample({"config_head": (cases[1].cfg_text or "")[:200], "input_head": cases[1].data[:200].decode("latin1")})
    # Model/ChunkList.v <-> ListManager.h / chunk.cpp: operation sequences on real Chunk objects (hook UNC_VERIF_LISTOPS)
    n_cmp, ldiff, lstats = listops.correspond(rep, r, 400 if tier == "quick" else 6000)
    rep.cov["input_distribution"]["listops"] = lstats
    rep.cov["traces_validated_against_impl"] = rep.cov.get("traces_validated_against_impl", 0) + n_cmp
    if ldiff:
        corr = list(corr or []) + ["Model/ChunkList.v <-> ListManager.h/chunk.cpp: " + d for d in ldiff[:3]]
    return rc.finish(rep, build, "C02", corr, "correspondence Model/Render.v <-> output.cpp (emitted code points)",
                     "Theorems of Properties_C02.v re-checked by make; %d runs: LexC(input) vs LexC(output) token streams with directive structure (C family), "
                     "uncrustify's own tokenizer on the output (other languages), contracts K_lossless and K_tok on the dumps, Render correspondence." % len(cases), ASSUME)


def replay(rp, build):
    if rp.get("kind") == "listops":
        return listops.replay(rp)
    return lx.replay_with(rp, judge)
