"""C10 — Output depends only on (bytes, language, configuration, file name).
Theorems: coq/Properties/Properties_C10.v over Model/FsProto.v (the model of do_source_file() that C12/C13 tie to the
binary by operation traces): without faults every delivery/output mode completes with status 0 and delivers exactly the
formatter's bytes; any two modes agree.  Hypothesis of the theorem: the formatter is a function of the input bytes
(language/configuration/file name fixed) - independent of observer options, environment, locale, working directory,
address-space layout and history.  That hypothesis is validated here, on every explored input, by running the real
binary through every mode, every observer option and several environments and comparing the delivered bytes.
Tie: for the four modes of the model the extracted model is run on (input bytes, bytes delivered by plain -f) and its
final file system is compared with the real one."""
import os
import shutil
import subprocess
import tempfile
import threading
from concurrent.futures import ThreadPoolExecutor

from .. import common, progs
from . import lex_common as lx

LEVEL = "proof"
ASSUME = ["Coq kernel; extraction; driver glue",
          "that the formatter is a function of (bytes, language, configuration, file name) is the theorem's hypothesis: validated by differential execution over all "
          "modes/observers/environments on every explored input, not proved",
          "argument parsing (main(), process_source_list(), path building for --prefix/--suffix) is not modelled: covered by the mode comparison only",
          "address-space layout: each mode is a fresh process under the kernel's default ASLR; valgrind is not part of the registered commands"]

EXT = {"C": ".c", "CPP": ".cpp", "CS": ".cs", "D": ".d", "JAVA": ".java", "OC": ".m", "PAWN": ".pawn", "VALA": ".vala", "ECMA": ".es"}


def unc(argv, inp=None, cwd=None, env=None, timeout=30):
    e = dict(os.environ)
    if env:
        e.update(env)
    try:
        p = subprocess.run([common.UNC] + argv, input=inp, stdout=subprocess.PIPE, stderr=subprocess.PIPE, cwd=cwd, env=e, timeout=timeout)
        return p.returncode, p.stdout
    except subprocess.TimeoutExpired:
        return -999, b""


def modes_for(wd, name, data, cfg, lang):
    """yields (mode name, callable -> (rc, delivered bytes)); every mode works on a pristine copy under the same file name"""
    def fresh(tag):
        d = os.path.join(wd, tag)
        shutil.rmtree(d, ignore_errors=True)
        os.makedirs(d)
        p = os.path.join(d, name)
        open(p, "wb").write(data)
        return d, p

    def read(p):
        try:
            return open(p, "rb").read()
        except OSError:
            return None
    out = []

    def m_stdin_assume():
        return unc(["-q", "-c", cfg, "--assume", name], inp=data)

    def m_stdin_l():
        return unc(["-q", "-c", cfg, "-l", lang], inp=data)

    def m_stdin_l_assume():
        return unc(["-q", "-c", cfg, "-l", lang, "--assume", name], inp=data)

    def m_f():
        d, p = fresh("f")
        return unc(["-q", "-c", cfg, "-f", p])

    def m_l_f():
        d, p = fresh("lf")
        return unc(["-q", "-c", cfg, "-l", lang, "-f", p])

    def m_f_o():
        d, p = fresh("fo")
        rc, _ = unc(["-q", "-c", cfg, "-f", p, "-o", os.path.join(d, "out.txt")])
        return rc, read(os.path.join(d, "out.txt"))

    def m_prefix():
        d, p = fresh("pre")
        rc, _ = unc(["-q", "-c", cfg, "--prefix", "outdir", name], cwd=d)
        return rc, read(os.path.join(d, "outdir", name))

    def m_suffix():
        d, p = fresh("suf")
        rc, _ = unc(["-q", "-c", cfg, "--suffix", ".fmt", p])
        return rc, read(p + ".fmt")

    def m_default_suffix():
        d, p = fresh("dsuf")
        rc, _ = unc(["-q", "-c", cfg, p])
        return rc, read(p + ".uncrustify")

    def m_list_prefix():
        d, p = fresh("lst")
        open(os.path.join(d, "files.txt"), "w").write(name + "\n")
        rc, _ = unc(["-q", "-c", cfg, "--prefix", "o2", "-F", "files.txt"], cwd=d)
        return rc, read(os.path.join(d, "o2", name))

    def m_replace_nb():
        d, p = fresh("rnb")
        rc, _ = unc(["-q", "-c", cfg, "--replace", "--no-backup", p])
        return rc, read(p)

    def m_replace():
        d, p = fresh("rep")
        rc, _ = unc(["-q", "-c", cfg, "--replace", p])
        return rc, read(p)

    def m_no_backup():
        d, p = fresh("nb")
        rc, _ = unc(["-q", "-c", cfg, "--no-backup", p])
        return rc, read(p)

    def m_list_replace():
        d, p = fresh("lrep")
        open(os.path.join(d, "files.txt"), "w").write(p + "\n")
        rc, _ = unc(["-q", "-c", cfg, "--replace", "--no-backup", "-F", os.path.join(d, "files.txt")])
        return rc, read(p)

    def m_f_o_same():
        d, p = fresh("same")
        rc, _ = unc(["-q", "-c", cfg, "-f", p, "-o", p])
        return rc, read(p)
    # observers
    def obs(extra, tag, quiet=True):
        def go():
            d, p = fresh(tag)
            a = (["-q"] if quiet else []) + ["-c", cfg, "-f", p] + [x.replace("@", d) for x in extra]
            return unc(a)
        return go
    # environments
    def m_env():
        d, p = fresh("env")
        return unc(["-q", "-c", cfg, "-f", p], cwd="/", env={"LC_ALL": "de_DE.UTF-8", "LANG": "tr_TR", "HOME": "/nonexistent", "TZ": "Asia/Tokyo", "COLUMNS": "7"})

    def m_env2():
        d, p = fresh("env2")
        return unc(["-q", "-c", os.path.relpath(cfg, d), "-f", name], cwd=d, env={"LC_ALL": "C", "HOME": d, "MALLOC_PERTURB_": "165"})

    def m_repl_obs():
        d, p = fresh("robs")
        rc, _ = unc(["-c", cfg, "--replace", "--no-backup", "-L", "A", "-s", p])
        return rc, read(p)
    out = [("stdin--assume", m_stdin_assume), ("stdin-l", m_stdin_l), ("-f", m_f), ("stdin-l--assume", m_stdin_l_assume), ("-l-f", m_l_f), ("-f-o", m_f_o), ("--prefix", m_prefix), ("--suffix", m_suffix),
           ("positional", m_default_suffix), ("-F--prefix", m_list_prefix), ("--replace--no-backup", m_replace_nb), ("--replace", m_replace), ("--no-backup", m_no_backup),
           ("-F--replace", m_list_replace), ("-f-o-same", m_f_o_same),
           ("obs:-p", obs(["-p", "@/parsed.txt"], "op")), ("obs:-p-csv", obs(["-p", "@/parsed.csv", "--debug-csv-format"], "ocsv")),
           ("obs:-L-A-s", obs(["-L", "A", "-s"], "ola", quiet=False)), ("obs:-L-9,21,66", obs(["-L", "9,21,66"], "ol2", quiet=False)),
           ("obs:no-q", obs([], "onq", quiet=False)), ("obs:--dump-steps", obs(["--dump-steps", "@/steps"], "ods")),
           ("env:cwd-locale-home", m_env), ("env:relative-malloc-perturb", m_env2), ("repeat:-f", m_f), ("obs+mode:--replace-L-A", m_repl_obs)]
    return out


SPECIAL = [
    ("same-length-brace", "C", "nl_fdef_brace=add\nindent_with_tabs=0\n", b"int f() {\n    return 1;\n}\n"),
    ("same-length-star", "C", "sp_before_ptr_star=force\nsp_after_ptr_star=remove\n", b"char* p;\nchar* q;\n"),
    ("empty", "C", "", b""),
    ("only-newline", "C", "", b"\n"),
    ("no-final-newline", "C", "indent_columns=3\n", b"int f(){return 1;}"),
    ("crlf", "C", "newlines=auto\n", b"int  a;\r\nint   b ;\r\n"),
    ("bom", "C", "", b"\xef\xbb\xbfint  a ;\n"),
    ("cr-only", "C", "newlines=auto\n", b"int  a;\rint   b ;\r"),
    ("latin1", "C", "", b"/* caf\xe9 */ int  a ;\n"),
    ("unchanged", "C", "", b"int a;\n"),
    # configurations that consult the FILE NAME (part of the property's argument list): the file is src.cpp / src.c in every mode
    ("name-sort", "CPP", "mod_sort_include=true\nmod_sort_incl_import_prioritize_filename=true\n", b"#include \"zeta.h\"\n#include \"src.h\"\n#include \"alpha.h\"\nint  a ;\n"),
    # options whose code paths carry logging statements with many arguments: the log level must not steer the result
    ("defargs-align", "CPP", "align_assign_span=1\n", b"void open_stream(const char *name, int mode = 0, bool create = false);\nvoid close(int fd = -1, unsigned long timeout_ms = 1000);\n"
     b"int  seek_to(long offset, int whence = 0, bool relative_to_end = true);\n"),
    ("defargs-align-decl", "CPP", "align_assign_span=1\nalign_assign_decl_func=1\n", b"void f(int a = 1, int b = 22, long c = 3);\nvoid g(int aa = 1, int b = 22);\nstruct S { S() = default; S(const S &) = delete; };\n"),
    ("align-mix", "CPP", "align_assign_span=2\nalign_var_def_span=2\nalign_func_proto_span=2\nalign_typedef_span=2\nalign_right_cmt_span=3\nalign_enum_equ_span=2\nalign_var_struct_span=2\n"
     "align_struct_init_span=2\nalign_nl_cont=1\nalign_pp_define_span=2\n",
     b"#define A 1 // x\n#define BBB(x) \\\n  do { x; } \\\n  while (0)\ntypedef int t1;\ntypedef unsigned long ttt2;\nenum E { a = 1, bbb = 22, c };\nstruct P { int x; unsigned long yy; char *z; };\n"
     b"struct P ps[] = { { 1, 2, 0 }, { 100, 20000, 0 } };\nint f(int a, int b = 2, int cc = 3); // one\nvoid gg(long q = 0, int r = 1); // two\nint main() {\n  int i = 0; // c1\n  long jjj = 10; // c2\n  i += 3;\n  jjj <<= 2;\n  return i;\n}\n"),
    ("name-sort-c", "C", "mod_sort_include=true\nmod_sort_incl_import_prioritize_filename=true\nindent_columns=3\n", b"#include <z.h>\n#include \"src.h\"\n#include \"b.h\"\nvoid f(){return;}\n"),
]


def model_tie(model, data, fmt):
    """the four modes of Model/FsProto.v on (input, bytes delivered by plain -f): (exit, delivered) per mode"""
    hx = lambda b: b.hex() or "-"
    res = {}
    for name, bits, where in (("-f", "000000", "stdout"), ("-f-o", "010000", "out"), ("--replace--no-backup", "111000", "in"), ("--replace", "110000", "in")):
        ans = model.ask("fsproto %s %s %s none none none none none" % (bits, hx(data), hx(fmt)))
        head, disk, _ = ans.split(" | ")
        kv = dict(x.split("=", 1) for x in head.split())
        files = dict(x.split("=", 1) for x in disk.split())
        if where == "stdout":
            got = bytes.fromhex(kv["stdout"]) if kv["stdout"] != "-" else b""
        else:
            v = files[where]
            got = bytes.fromhex(v.split(":")[2]) if v.startswith("C:D:") and v.split(":")[2] != "-" else (b"" if v.startswith("C:D:") else None)
        res[name] = (int(kv["exit"]), got)
    return res


def run_case(wd, model, label, lang, cfg_text, data, findings, stats):
    name = "src" + EXT.get(lang, ".c")
    cfg = os.path.join(wd, "u.cfg")
    open(cfg, "w").write(cfg_text)
    results = []
    for mname, fn in modes_for(wd, name, data, cfg, lang):
        if mname == "stdin-l" and label.startswith("name-"):
            continue              # no file name is given in that mode: a name-dependent configuration legitimately sees 'stdin'
        rc, got = fn()
        results.append((mname, rc, got))
    ref = next(x for x in results if x[0] == "-f")          # plain -f
    stats["modes"] += len(results)
    if ref[1] != 0:
        # refused input: every mode must refuse as well (delivered bytes are not compared)
        for mname, rc, got in results:
            if rc == 0 and not mname.startswith("stdin"):
                findings.append(("status|%s" % mname, "%s: plain -f exits %d but mode %s exits 0" % (label, ref[1], mname)))
        return False
    for mname, rc, got in results:
        if rc != 0:
            findings.append(("status|%s" % mname, "%s: plain -f exits 0 but mode %s exits %s" % (label, mname, rc)))
        elif got != ref[2]:
            k = 0
            a, b = ref[2], got or b""
            while k < min(len(a), len(b)) and a[k] == b[k]:
                k += 1
            findings.append(("bytes|%s" % mname, "%s: mode %s delivers other bytes than plain -f (%s bytes vs %d; first difference at %d: %r vs %r)"
                             % (label, mname, len(got) if got is not None else None, len(ref[2]), k, a[k:k + 20], b[k:k + 20])))
    # the model's four modes
    if len(data) < 20000:
        try:
            mt = model_tie(model, data, ref[2])
            stats["tie"] += 1
            real = {r[0]: r for r in results}
            for mname, (mrc, mgot) in mt.items():
                if mrc != 0 or mgot != ref[2]:
                    findings.append(("model|%s" % mname, "%s: Model/FsProto.v mode %s: exit %d, delivered %r..." % (label, mname, mrc, (mgot or b"")[:30])))
        except Exception as e:
            findings.append(("model|error", "%s: model run failed: %s" % (label, str(e)[:100])))
    return True


def sweep_case(wd, label, lang, cfg_text, data, k, findings):
    """observer sweep: plain -f against logging on (all severities; one single severity, cycling with k) and a parse dump; 4 executions"""
    name = "src" + EXT.get(lang, ".c")
    cfg = os.path.join(wd, "u.cfg")
    open(cfg, "w").write(cfg_text)
    p = os.path.join(wd, name)
    open(p, "wb").write(data)
    base = ["-c", cfg, "-l", lang, "-f", p]
    rc0, ref = unc(["-q"] + base)
    if rc0 != 0:
        return False, 1
    sev = str(k % 106)
    for mname, extra in (("obs:-L-A", ["-L", "A"]), ("obs:-L-%s" % sev, ["-L", sev]), ("obs:-p", ["-q", "-p", os.path.join(wd, "parsed.txt")])):
        rc, got = unc(base + extra, timeout=90)
        if rc != 0:
            findings.append(("status|%s" % mname.split("-L-")[0], "%s: plain -f exits 0 but %s exits %s" % (label, mname, rc)))
        elif got != ref:
            j = 0
            while j < min(len(ref), len(got)) and ref[j] == got[j]:
                j += 1
            findings.append(("bytes|%s" % mname, "%s: %s delivers other bytes than plain -f (first difference at %d: %r vs %r)" % (label, mname, j, ref[j:j + 20], got[j:j + 20])))
    return True, 4


def run(rep, build, tier, seed):
    r = common.rng(seed, "C10")
    rep.cov["rule"] = ("each input is formatted through 25 executions: 15 delivery/output modes (stdin with --assume, with -l and with both, -f, -l -f, -f -o, --prefix, --suffix, "
                       "default suffix, -F list with --prefix, --replace --no-backup, --replace, --no-backup, -F list with --replace, -f -o onto itself), 6 observer "
                       "settings (-p, -p with --debug-csv-format, -L A -s, -L with selected severities, no -q, --dump-steps), 2 environments (other cwd/locale/HOME/TZ; "
                       "relative paths with MALLOC_PERTURB_), a repeated run and an observer combined with an in-place mode; all delivered bytes are compared "
                       "with plain -f. Inputs: special shapes (same-length output, empty, no final newline, CRLF, CR, BOM, Latin-1, already formatted), corpus "
                       "files of all languages under their test configuration, generated programs under random configurations. Non-trivial = plain -f exits 0. "
                       "Observer sweep: a larger set of corpus files (quick 260, thorough all) is formatted plainly, with -L A, with one single severity (cycling 0..105) "
                       "and with -p; the delivered bytes are compared.")
    if build.get("uncrustify") != "ok" or build.get("model") != "ok":
        rep.unproved("build failed", "\n".join(build["errors"])[-3000:])
        return rep.finish(common.proof_status("C10", build))
    nc, ng = (14, 10) if tier == "quick" else (300, 200)
    cases = [(n, L, c, d) for n, L, c, d in SPECIAL]
    cor = common.corpus()
    r.shuffle(cor)
    for lang, cfg, inp, suite, num in cor:
        if len([c for c in cases if c[0].startswith("corpus")]) >= nc:
            break
        L = lang or common.lang_of_path(inp)
        if L not in EXT:
            continue
        try:
            data = open(inp, "rb").read()
            cfg_text = open(cfg, errors="replace").read()
        except OSError:
            continue
        if len(data) > 60000 or "include" in cfg_text:
            continue
        cases.append(("corpus:%s:%s" % (suite, num), L, cfg_text, data))
    for i in range(ng):
        lines = progs.program(r, nfunc=r.randint(1, 3), max_depth=4, size=20, rich=True)
        src = progs.layout(r, lines, indent="random", tabs=True, comments=True, blank_max=2, nl=r.choice(["\n", "\n", "\r\n"]))
        cases.append(("gen:%d" % i, "C", "\n".join(lx.ws_config(r, r.choice([0, 5, 20]))) + "\n", src.encode("latin1")))
    stats = {"modes": 0, "tie": 0}
    lock = threading.Lock()
    tl = threading.local()
    base = tempfile.mkdtemp(prefix="c10_", dir=common.WORK)

    def work(case):
        if not hasattr(tl, "m"):
            tl.m = common.Model()
            tl.wd = tempfile.mkdtemp(dir=base)
        f = []
        st = {"modes": 0, "tie": 0}
        ok = run_case(tl.wd, tl.m, case[0], case[1], case[2], case[3], f, st)
        return case, ok, f, st
    with ThreadPoolExecutor(max_workers=8) as ex:
        for case, ok, f, st in ex.map(work, cases):
            rep.count(key=(case[0], case[2], case[3][:200]), nontrivial=ok)
            rep.cov["evaluations"] += st["modes"] - 1
            if ok:
                rep.validated()
            stats["modes"] += st["modes"]
            stats["tie"] += st["tie"]
            for key, what in f:
                rep.finding(key, what, {"kind": "c10", "label": case[0], "lang": case[1], "cfg": case[2], "input_b64": common.b64(case[3])})
    # observer sweep over (many more) corpus files under their own test configurations: logging must not steer the result
    ns = 260 if tier == "quick" else 100000
    sweep = []
    for lang, cfg, inp, suite, num in cor:
        if len(sweep) >= ns:
            break
        L = lang or common.lang_of_path(inp)
        if L not in EXT:
            continue
        try:
            data = open(inp, "rb").read()
            cfg_text = open(cfg, errors="replace").read()
        except OSError:
            continue
        if len(data) > 60000 or "include" in cfg_text:
            continue
        sweep.append(("sweep:%s:%s" % (suite, num), L, cfg_text, data, len(sweep)))

    def swork(case):
        if not hasattr(tl, "swd"):
            tl.swd = tempfile.mkdtemp(dir=base)
        f = []
        ok, n = sweep_case(tl.swd, case[0], case[1], case[2], case[3], case[4], f)
        return case, ok, n, f
    nsw = 0
    with ThreadPoolExecutor(max_workers=12) as ex:
        for case, ok, n, f in ex.map(swork, sweep):
            rep.count(key=(case[0], case[2], case[3][:200]), nontrivial=ok)
            rep.cov["evaluations"] += n - 1
            nsw += n
            if ok:
                rep.validated()
            for key, what in f:
                rep.finding(key, what, {"kind": "c10sweep", "label": case[0], "lang": case[1], "cfg": case[2], "input_b64": common.b64(case[3]), "k": case[4]})
    shutil.rmtree(base, ignore_errors=True)
    rep.cov["input_distribution"] = {"inputs": len(cases), "executions": stats["modes"], "model_runs": stats["tie"], "observer_sweep_inputs": len(sweep), "observer_sweep_executions": nsw}
    rep.sample({"label": cases[0][0], "config": cases[0][2], "input": cases[0][3][:100].decode("latin1")})
    ps = common.proof_status("C10", build)
    if (ps["discharged"] < ps["obligations"] or build["forbidden"] or build.get("model") != "ok") and not rep.violations:
        rep.unproved("proof obligations of Properties_C10.v (files: %s)" % ps["broken_files"], build.get("coq_log_tail", ""))
    rep.cov["explanation"] = ("Theorems of Properties_C10.v re-checked by make; %d inputs x 25 executions compared byte for byte with plain -f; the extracted FsProto model run "
                              "for its four modes on %d inputs." % (len(cases), stats["tie"]))
    rep.assumptions = ASSUME
    rep.cov["trusted_base"] = ASSUME
    return rep.finish(ps)


def replay(rp, build):
    with tempfile.TemporaryDirectory(prefix="rr_", dir=common.WORK) as wd:
        f = []
        if rp.get("kind") == "c10sweep":
            sweep_case(wd, rp.get("label", "replay"), rp["lang"], rp.get("cfg") or "", common.unb64(rp["input_b64"]), rp.get("k", 18), f)
            for k, w in f:
                print("VIOLATION reproduced:", w)
            if not f:
                print("property holds on this replay")
            return 1 if f else 0
        run_case(wd, common.Model(), rp.get("label", "replay"), rp["lang"], rp.get("cfg") or "", common.unb64(rp["input_b64"]), f, {"modes": 0, "tie": 0})
        for k, w in f:
            print("VIOLATION reproduced:", w)
        if not f:
            print("property holds on this replay")
        return 1 if f else 0
