"""C13 — In-place rewriting is all-or-nothing.
Theorem: coq/Properties/Properties_C13.v over model E (coq/Model/FsProto.v): any fault plan, any crash point.
Tie: interposer trace of the real binary == model operation list; every crash/fault point of every scenario is
replayed on the binary and the resulting file system compared with the model's prediction; the statement of the
theorem is also evaluated directly on the real file system after every run (direct oracle)."""
import os
import tempfile

from .. import common, fsrun
from . import fs_common as fc

LEVEL = "proof"
INPLACE = ["replace", "replace-no-backup", "no-backup", "f-o-same"]


def scenarios(tier, wd):
    out = []
    fA = fc.formatted_of(fc.SRC_CHANGED, fc.CFG_A, wd)
    fB = fc.formatted_of(fc.SRC_CHANGED, fc.CFG_B, wd)
    contents = [("changed", fc.SRC_CHANGED, fA, fc.CFG_A), ("already-formatted", fA, fc.formatted_of(fA, fc.CFG_A, wd), fc.CFG_A),
                ("format-fails", fc.SRC_FAIL, None, fc.CFG_A), ("empty", b"", fc.formatted_of(b"", fc.CFG_A, wd), fc.CFG_A),
                ("changed-cfgB", fc.SRC_CHANGED, fB, fc.CFG_B),
                # formatted text of the SAME length as the original: file_content_matches() has to compare the bytes
                ("same-length", fc.SRC_SAMELEN, fc.formatted_of(fc.SRC_SAMELEN, fc.CFG_SAMELEN, wd), fc.CFG_SAMELEN),
                # several stdio buffers of output: transient write faults ('glitch') are possible
                ("big", fc.SRC_BIG, fc.formatted_of(fc.SRC_BIG, fc.CFG_A, wd), fc.CFG_A)]
    for style in INPLACE:
        for name, o, f, cfg in contents:
            for md5 in ["none", "match", "stale"]:
                for ic in [0, 1]:
                    for mt in [0, 1]:
                        if tier == "quick":
                            # representative slice: full cross of style x content; md5/if_changed/mtime varied diagonally
                            h = (INPLACE.index(style) + len(name) + ["none", "match", "stale"].index(md5)) % 3
                            if not ((md5 == "none" and ic == 0 and mt == 0) or (h == 0 and ic != mt)):
                                continue
                        if "no-backup" in style and md5 != "none":
                            continue
                        if name == "big" and (md5 != "none" or mt):
                            continue
                        md5_of = {"none": None, "match": o, "stale": b"something else\n"}[md5]
                        bk = None if md5 == "none" else b"OLD BACKUP\n"
                        scn = fsrun.Scenario(fsrun.mode_for(style, ic, mt), o, cfg, backup=bk, md5_of=md5_of, argv_style=style, lang="C")
                        out.append((("%s/%s/md5-%s/ic%d/mt%d" % (style, name, md5, ic, mt)), scn, f))
    return out


def oracle(scn, formatted, I):
    """The statement of C13 on the real file system after a run (any plan)."""
    d = I["disk"]
    tgt = d["in"]
    bad = []
    if tgt != scn.orig and (formatted is None or tgt != formatted):
        bad.append("path holds neither the original nor the formatted bytes: %r" % (tgt[:60] if tgt is not None else None))
    backup_due = (not scn.mode.get("no_backup")) and (scn.md5_of != scn.orig)
    if backup_due and tgt != scn.orig and d["backup"] != scn.orig:
        bad.append("path changed but backup does not hold the original: %r" % (d["backup"][:60] if d["backup"] is not None else None))
    if I["rc"] == 0 and (formatted is None or tgt != formatted):
        bad.append("exit status 0 but the path does not hold the formatted bytes")
    return bad


def run(rep, build, tier, seed):
    ps = common.proof_status("C13", build)
    proof_broken = ps["discharged"] < ps["obligations"] or bool(build["forbidden"]) or build.get("model") != "ok"
    rep.cov["rule"] = ("scenarios = in-place styles x {changed, already formatted, formatting fails, empty, other config} x md5 state x "
                       "--if-changed x --mtime; for each, EVERY crash point (kill before op k, all k; kill inside each write after 0/1/7 bytes) and "
                       "EVERY single fault (op k fails, all k; device full after 0/1/7 bytes of each write); thorough adds all fault pairs and "
                       "fault+crash. Non-trivial = plan non-empty and the run reached at least the first write-side operation.")
    rep.assumptions = ["Coq kernel 8.16.1; extraction ExtrOcamlBasic; ocaml driver glue", "LD_PRELOAD interposer shim/fsshim.c (glibc stdio; /dev/full for ENOSPC)",
                       "rename(2) atomic, no durability/fsync modelling", "files below 1 KiB (one read() per file in file_content_matches) except the 20 KiB scenario used for transient write faults",
                       "md5 abstracted: the md5 file is compared with Python's hashlib"]
    if build.get("uncrustify") != "ok" or build.get("model") != "ok":
        rep.unproved("build failed", "\n".join(build["errors"])[-3000:])
        return rep.finish(ps)
    m = common.Model()
    corr = []
    nplans = 0
    with tempfile.TemporaryDirectory(prefix="c13_", dir=common.WORK) as wd:
        base = os.path.join(wd, "run")
        for name, scn, f in scenarios(tier, wd):
            I0, M0, d0 = fc.compare(m, base, scn, f, [])
            if d0:
                corr.append((name, [], d0))
            plans = fc.plans_for(M0["trace"], tier, M0["ops"])
            if name.split("/")[1] == "big":
                # the fault passes: one buffer is lost in the middle, every later write and the fclose() succeed
                wr = [k for k, t in enumerate(M0["trace"]) if t.startswith("write")]
                plans = [[]] + [[(k, a)] for k in wr for a in ("glitch=0", "glitch=3000", "full=5000", "crashw=5000")] + [[(k, "fail")] for k in range(M0["ops"])]
            after_first = {}
            for pl in plans:
                if len(pl) == 2 and pl[1][1].startswith("full"):
                    # 'device full' only exists for a write: after the first fault the operation at that index may be another one
                    if pl[0] not in after_first:
                        after_first[pl[0]] = fsrun.run_model(m, scn, f, [pl[0]])["trace"]
                    tr = after_first[pl[0]]
                    if pl[1][0] >= len(tr) or not tr[pl[1][0]].startswith("write"):
                        continue
                if name.split("/")[1] == "big":
                    # FsProto models files of less than one stdio buffer (a write error surfaces at fclose); for the 20 KiB scenario
                    # only the theorem's statement is evaluated on the real file system, the operation trace is not compared
                    I, M, diffs = fsrun.run_impl(base, scn, pl), M0, []
                else:
                    I, M, diffs = fc.compare(m, base, scn, f, pl)
                nplans += 1
                first_w = next((i for i, t in enumerate(M0["trace"]) if t.startswith("fopen-w")), 10 ** 6)
                rep.count(key=(name, tuple(pl)), nontrivial=bool(pl) and pl[0][0] >= first_w)
                rep.validated()
                bad = oracle(scn, f, I)
                for b in bad:
                    rep.finding("%s|%s|%s" % (name, pl, b[:40]), "%s with plan %s: %s" % (name, pl, b), fc.replay_dict(scn, f, pl, I))
                if diffs:
                    corr.append((name, pl, diffs))
                if nplans in (3, 40):
                    rep.sample({"scenario": name, "plan": pl, "impl_exit": I["rc"], "model_exit": M["exit"],
                                "trace_tail": I["trace"][-4:]})
        # ---- the correspondence broke and no run violated the statement yet: the binary performs operations the model does not
        # know; look for a failing plan around them (a second fault or a kill at every operation behind the first fault)
        if corr and not rep.violations:
            scn_by_name = {n: (sc, ff) for n, sc, ff in scenarios(tier, wd)}
            tried = 0
            for name, pl, diffs in corr[:6]:
                if name not in scn_by_name or len(pl) != 1 or rep.violations:
                    continue
                scn, f = scn_by_name[name]
                I1 = fsrun.run_impl(base, scn, pl)
                k0 = pl[0][0]
                for k in range(k0 + 1, len(I1["trace"]) + 2):
                    for act in ("fail", "crash"):
                        pl2 = [pl[0], (k, act)]
                        I2 = fsrun.run_impl(base, scn, pl2)
                        tried += 1
                        for b in oracle(scn, f, I2):
                            rep.finding("%s|%s|%s" % (name, pl2, b[:40]), "%s with plan %s (found by the search behind a broken correspondence): %s" % (name, pl2, b),
                                        fc.replay_dict(scn, f, pl2, I2))
                        if rep.violations:
                            break
                    if rep.violations:
                        break
            rep.cov["search_after_broken_correspondence"] = tried
    m.close()
    rep.cov["scenarios"] = len(scenarios(tier, common.WORK))
    if corr and not rep.violations:
        rep.unproved("correspondence Model/FsProto.v <-> do_source_file()/backup.cpp (operation trace, exit status, file system)",
                     "first differences: %s" % corr[:3])
    if proof_broken and not rep.violations:
        rep.unproved("proof obligations of Properties_C13.v (files: %s)" % ps["broken_files"], build.get("coq_log_tail", ""))
    rep.cov["explanation"] = ("Theorem C13_all_or_nothing (any fault plan, any crash point) re-checked by make; %d runs of the real binary under "
                              "injected crashes/faults compared with the model (trace, exit, every file) and checked against the theorem's statement."
                              % nplans)
    rep.cov["trusted_base"] = rep.assumptions
    return rep.finish(ps)


def replay(rp, build):
    m = common.Model()
    scn, f, pl = fc.scenario_from_replay(rp)
    with tempfile.TemporaryDirectory(prefix="c13r_", dir=common.WORK) as wd:
        I, M, diffs = fc.compare(m, os.path.join(wd, "run"), scn, f, pl)
        print("plan", pl, "impl rc", I["rc"], "model exit", M["exit"])
        print("impl disk", {k: v for k, v in I["disk"].items()})
        print("correspondence differences:", diffs)
        bad = oracle(scn, f, I)
        print("VIOLATION reproduced: %s" % bad if bad else "property holds on this replay")
        return 1 if bad else 0
