"""C07 — Disabled regions are copied through untouched.
Theorems: coq/Properties/Properties_C07.v — (1) lexer model Model/Region.v (parse_ignored/parse_newline in 'off' mode):
every non-blank line becomes exactly one IGNORED chunk, text identical, in order, for ANY text, and the scan stops only
in front of a non-empty line holding the enabling text; (2) output model Model/Render.v: IGNORED chunks are written raw,
NEWLINE chunks write exactly nl_count terminators, the writer state afterwards does not depend on the texts;
(3) their composition under contract K_region on the passes in between (not modelled).
Tie, every run: Region model vs the .tok dump of the real tokenizer from the start of each region; K_region evaluated on
the .tok/.fin dumps; Render correspondence on the .fin/.out dumps; byte oracle on the real output (region lines between
the tagged marker lines; output outside the region when the region's content is replaced)."""
import os
import re
import tempfile
import threading
from concurrent.futures import ThreadPoolExecutor

from .. import common, dumps, progs, renderrun
from . import render_common as rc

LEVEL = "proof"
ASSUME = ["Coq kernel; extraction (ExtrOcamlBasic); driver glue; hooks (dump of the chunk list after tokenize() and before output_text())",
          "the passes between tokenizer and output are covered by contract K_region (IGNORED chunks unchanged, in order, each followed by a NEWLINE chunk) "
          "evaluated on the dumps of every explored run, and by the byte oracle - not by a theorem",
          "how the tokenizer gets INTO the off state (marker search inside comment chunks, '#pragma asm') and the processing of the line that holds the "
          "enabling text are not modelled: validated by the byte oracle with tagged marker lines",
          "opacity (output outside the region independent of its content) is proved for the lexer resume point and the writer state only; for the passes in "
          "between it is validated by replacing the region's content and comparing the outside"]

SPLIT = re.compile(rb"\r\n|\n|\r")
SKIP_OPTS = {"newlines", "disable_processing_cmt", "enable_processing_cmt", "processing_cmt_as_regex", "utf8_bom", "utf8_byte", "utf8_force",
             "string_replace_tab_chars", "input_tab_size", "output_tab_size", "debug_max_number_of_loops", "debug_line_number_to_protocol",
             "debug_timeout", "debug_truncate", "debug_sort_the_tracks", "debug_decode_the_flags", "debug_use_the_exit_function_pop",
             "debug_print_version", "set_numbering_for_html_output", "use_options_overriding_for_qt_macros", "warn_level_tabs_found_in_verbatim_string_literals"}
TOKPOS = ["ignore", "join", "lead", "lead_break", "lead_force", "trail", "trail_break", "trail_force"]
IARF = ["ignore", "add", "remove", "force"]
_REG = []


def registry():
    if not _REG:
        import sys
        sys.path.insert(0, os.path.join(common.ROOT, "gen"))
        import gen_registry
        if not gen_registry.RAW:
            gen_registry.generate(common.REPO)
        _REG.extend(o for o in gen_registry.RAW if o["type"] != "string" and o["name"] not in SKIP_OPTS)
    return _REG


def random_cfg(r, n):
    out = []
    for o in r.sample(registry(), n):
        t = o["type"]
        if t == "iarf_e":
            v = r.choice(IARF)
        elif t == "bool":
            v = r.choice(["true", "false"])
        elif t == "token_pos_e":
            v = r.choice(TOKPOS)
        elif t == "unsigned":
            lo = o["lo"] if o["lo"] is not None else 0
            hi = o["hi"] if o["hi"] is not None else 16
            v = str(r.randint(lo, max(lo, min(hi, r.choice([1, 2, 3, 8, 16, 80])))))
        elif t == "signed":
            lo = o["lo"] if o["lo"] is not None else -4
            hi = o["hi"] if o["hi"] is not None else 16
            v = str(r.randint(max(lo, -8), max(lo, min(hi, 16))))
        else:
            continue
        out.append("%s=%s" % (o["name"], v))
    return out


FOCUS = ["nl_max=1", "nl_max=2", "nl_remove_extra_newlines=1", "nl_remove_extra_newlines=2", "nl_squeeze_ifdef=true", "eat_blanks_after_open_brace=true",
         "eat_blanks_before_close_brace=true", "nl_after_semicolon=true", "nl_after_brace_open=true", "nl_after_brace_close=true", "mod_full_brace_if=add",
         "mod_full_brace_if=remove", "mod_full_brace_for=add", "mod_pawn_semicolon=true", "mod_full_brace_while=remove", "mod_paren_on_return=add", "mod_remove_extra_semicolon=true",
         "mod_add_long_function_closebrace_comment=1", "mod_sort_include=true", "mod_remove_empty_return=true", "align_assign_span=3", "align_var_def_span=2",
         "align_right_cmt_span=4", "align_nl_cont=1", "code_width=30", "code_width=60", "cmt_width=40", "cmt_reflow_mode=2", "cmt_c_group=true", "cmt_cpp_group=true",
         "cmt_cpp_to_c=true", "cmt_star_cont=true", "indent_with_tabs=0", "indent_with_tabs=2", "indent_columns=3", "nl_start_of_file=remove", "nl_end_of_file=force",
         "nl_end_of_file_min=2", "nl_start_of_file=force", "nl_start_of_file_min=1", "nl_before_block_comment=2", "nl_before_c_comment=2", "nl_before_cpp_comment=2",
         "nl_after_multiline_comment=true", "nl_if_brace=add", "nl_if_brace=remove", "nl_brace_else=remove", "nl_else_brace=add", "nl_fdef_brace=force",
         "nl_after_return=true", "nl_before_if=force", "nl_after_if=force", "nl_before_return=true", "pp_indent=add", "pp_space_after=force", "sp_before_semi=force",
         "indent_cmt_with_tabs=true", "indent_col1_comment=true", "nl_func_var_def_blk=1", "nl_var_def_blk_end_func_top=2", "nl_after_func_body=3",
         "nl_comment_func_def=2", "nl_multi_line_define=true", "nl_collapse_empty_body=true", "nl_create_if_one_liner=true", "nl_split_if_one_liner=true",
         "mod_enum_last_comma=add", "mod_enum_last_comma=remove", "mod_enum_last_comma=add", "mod_full_brace_if_chain=1", "mod_case_brace=remove", "mod_full_paren_if_bool=true",
         "mod_full_brace_function=add", "mod_int_long=add", "mod_sort_using=true"]

# (name, config lines, OFF marker line builder, ON marker line builder, enabling text for the lexer model or None)
FLAVORS = [
    ("c", [], lambda t: "/* *INDENT-OFF*%s */" % t, lambda t: "/* *INDENT-ON*%s */" % t, " *INDENT-ON*"),
    ("cpp", [], lambda t: "// *INDENT-OFF*%s" % t, lambda t: "// *INDENT-ON*%s" % t, " *INDENT-ON*"),
    ("mixed", [], lambda t: "/* *INDENT-OFF*%s */" % t, lambda t: "// *INDENT-ON*%s" % t, " *INDENT-ON*"),
    ("custom", ['disable_processing_cmt=" NOFMT-BEGIN"', 'enable_processing_cmt=" NOFMT-END"'], lambda t: "/* NOFMT-BEGIN%s */" % t, lambda t: "// NOFMT-END%s" % t, " NOFMT-END"),
    ("regex", ['processing_cmt_as_regex=true', 'disable_processing_cmt="fmt-off-[0-9]+"', 'enable_processing_cmt="fmt-on-[0-9]+"'],
     lambda t: "/* fmt-off-%d%s */" % (len(t), t), lambda t: "/* fmt-on-%d%s */" % (len(t) + 1, t), None),
    ("pragma", [], lambda t: "#pragma asm", lambda t: "#pragma endasm", " *INDENT-ON*"),
]
FORBIDDEN = [b"*INDENT-ON*", b"NOFMT-END", b"fmt-on-", b"endasm", b"TAG"]


def region_text(r, nlines, kind=None):
    """arbitrary text: not meant to be valid in any language"""
    kind = kind or r.choice(["code", "code", "junk", "junk", "tabs", "unbalanced", "directive", "utf8", "long", "offtext", "blanks", "comments"])
    out = []
    for i in range(nlines):
        k = r.random()
        if kind == "code":
            ln = " " * r.randint(0, 9) + progs.join_tokens(r, progs.simple(r), loose=True)
        elif kind == "junk":
            ln = "".join(r.choice("abcXYZ019 \t(){}[]<>;,.:+-*/%&|^!~=?\"'#\\@$`_") for _ in range(r.randint(1, 40)))
        elif kind == "tabs":
            ln = r.choice(["\t", " \t", "\t\t  ", ""]) + "x\t=\t%d;" % i + r.choice(["", " ", "\t", "  \t "])
        elif kind == "unbalanced":
            ln = r.choice(["if (a { [", "}}} )", "\"open string", "'c", "/* open comment", "foo(((", "#if 0", "else {", "case 1:", "R\"x(raw"]) + r.choice(["", " ", " \\"])
        elif kind == "directive":
            ln = r.choice(["#define X(a) \\", "   a + 1", "#include <stdio.h>", "# ifdef FOO", "#endif", "  #  pragma once", "#error no", "#define EMPTY"])
        elif kind == "utf8":
            ln = r.choice(["  café = ü;", "中文 \t x", "// äöü  ", "€€\t{", "s = \"ß\";  "])
        elif kind == "long":
            ln = "  " + "+".join("v%d" % j for j in range(r.randint(30, 90))) + ";"
        elif kind == "offtext":
            ln = r.choice(["/* *INDENT-OFF* */", "  // *INDENT-OFF* again", "x = 1; /* *INDENT-OFF* */", "// NOFMT-BEGIN", "#pragma asm"])
        elif kind == "comments":
            ln = r.choice(["  /* c */  x;", "// line   comment  ", "   /*", "   * star", "  */", "x; // t \\", "/**/"])
        else:
            ln = r.choice(["", "   ", "\t", " \t ", "x;", "  y  ;  ", ""])
        if k < 0.12:
            ln = r.choice(["", "   ", "\t"])
        if k > 0.9:
            ln += r.choice([" ", "\t", "   ", "\f", " \\"])
        out.append(ln)
    if not any(x.strip(" \t") for x in out):
        out[r.randrange(len(out))] = "  keep  me ; "
    return out


class RCase(rc.Case):
    pass


BRACE_SHAPES = [
    ("void h(int *p) { /* tables */\n@OFF@\n@BODY@\n@ON@\n    p[1] = 2;\n}\n", ["nl_fdef_brace=force"]),
    ("void h(int a)\n{\n    while (a) { // loop\n@OFF@\n@BODY@\n@ON@\n        a--;\n    }\n}\n", ["nl_while_brace=add", "nl_if_brace=add", "nl_for_brace=add"]),
    ("void h(int a)\n{\n    if (a) { /* c */\n@OFF@\n@BODY@\n@ON@\n    }\n    else { // d\n        a = 1;\n    }\n}\n", ["nl_if_brace=force", "nl_else_brace=force"]),
    ("void h(int a)\n{\n    if (a)\n        a = 4; @OFF@\n@BODY@\n@ON@\n    a = 6;\n}\n", ["mod_full_brace_if=add"]),
    ("void h(int a)\n{\n    for (;;)\n        a++; @OFF@\n@BODY@\n@ON@\n}\n", ["mod_full_brace_for=add", "mod_full_brace_while=add"]),
    ("struct s { /* fields */\n@OFF@\n@BODY@\n@ON@\n    int z;\n};\n", ["nl_struct_brace=force", "nl_enum_brace=force"]),
]


def build_case(r, idx, label):
    """a generated C program with 1..3 disabled regions; returns RCase with .regions = [(tag, off_line, on_line or None, [region lines])]"""
    fl = r.choice(FLAVORS)
    name, fcfg, mk_off, mk_on, ontext = fl
    lines = progs.program(r, nfunc=r.randint(1, 2), max_depth=r.randint(2, 4), size=r.choice([8, 15, 25]), rich=r.random() < 0.5)
    if r.random() < 0.3:
        lines = progs.allman(lines)
    src = [(" " * r.randint(0, 8)) + progs.join_tokens(r, ln.toks, loose=True) for ln in lines]
    if r.random() < 0.3:
        src = ["#include <a.h>", "#define M(x) ((x) + 1)", ""] + src
    # blank lines here and there
    k = 0
    while k < len(src):
        if r.random() < 0.1:
            src.insert(k, "")
            k += 1
        k += 1
    has_enum = name != "pragma" and r.random() < 0.25
    if has_enum:
        src = ["enum e {", "  EA,", "  EB%s" % r.choice(["", ","]), "};", ""] + src
    nreg = 1 if name == "pragma" else r.randint(1, 3)
    positions = sorted(r.sample(range(0, len(src) + 1), min(nreg, len(src) + 1)), reverse=True)
    where = r.random()
    free = [q for q in (2, 3) if q not in positions[:-1]]
    if has_enum and 3 not in positions and free:
        positions[-1] = r.choice(free)          # a region in front of the last enumerator / of the enum's closing brace
        positions.sort(reverse=True)
    elif where < 0.1:
        positions[-1] = 0                       # region at the very start of the file
    unterminated = r.random() < 0.12
    if unterminated:
        positions[0] = len(src)                 # last region runs to the end of the file
    regions = []
    for j, pos in enumerate(positions):
        tag = "TAG%dx%d" % (idx, j)
        body = region_text(r, r.randint(1, 7))
        open_end = unterminated and j == 0
        off = mk_off(tag)
        style = r.random()
        if name != "pragma" and style < 0.15 and pos > 0 and not src[pos - 1].lstrip().startswith("#") and src[pos - 1].strip():
            # the OFF marker trails a code line
            src[pos - 1] = src[pos - 1] + "  " + off
            ins = body
            offs_line = None
        else:
            ins = [(" " * r.randint(0, 6) if name != "pragma" else "") + off] + body
            offs_line = 0
        if not open_end:
            on = (" " * r.randint(0, 6) if name != "pragma" else "") + mk_on(tag)
            if name not in ("pragma", "cpp", "mixed", "custom") and r.random() < 0.15:
                on += " extra = 1;"
            ins = ins + [on]
        src[pos:pos] = ins
        regions.append({"tag": tag, "body": body, "open_end": open_end, "flavor": name})
    eol = "\r\n" if r.random() < 0.1 else "\n"
    text = eol.join(src) + (eol if not (unterminated and r.random() < 0.5) else "")
    ncfg = r.choice([0, 1, 2, 3, 5, 8, 20])
    cfg = list(fcfg) + r.sample(FOCUS, min(len(FOCUS), r.choice([0, 1, 2, 3, 6]))) + random_cfg(r, ncfg)
    c = RCase(label, "C" if r.random() < 0.7 else "CPP", "\n".join(cfg) + "\n", text.encode("utf-8"))
    c.regions, c.flavor, c.ontext = regions, name, ontext
    return c


def with_bodies(case, r, same_len):
    """the same file with every region's content replaced"""
    data = case.data
    eol = b"\r\n" if b"\r\n" in data else b"\n"
    regs = []
    for reg in case.regions:
        old = eol.join(x.encode("utf-8") for x in reg["body"])
        n = len(reg["body"]) if same_len else max(1, len(reg["body"]) + r.choice([-2, -1, 1, 2, 5]))
        nb = region_text(r, n)
        if same_len:
            # same shape: blank lines stay where they were, every other line gets other non-blank text
            for i, o in enumerate(reg["body"]):
                if not o.strip(" \t"):
                    nb[i] = o
                else:
                    while not nb[i].strip(" \t"):
                        nb[i] = region_text(r, 1)[0]
        new = eol.join(x.encode("utf-8") for x in nb)
        # the body sits between its marker lines: replace the first occurrence after the tag
        k = data.find(reg["tag"].encode()) if reg["flavor"] != "pragma" else data.find(b"#pragma asm")
        k = data.find(eol, k) + len(eol)
        assert data[k:k + len(old)] == old, (reg, data[k:k + 60])
        data = data[:k] + new + data[k + len(old):]
        regs.append(dict(reg, body=nb))
    c = RCase(case.label + (":same" if same_len else ":other"), case.lang, case.cfg_text, data)
    c.regions, c.flavor, c.ontext = regs, case.flavor, case.ontext
    return c


def find_markers(lines, reg):
    """indices of the last line of the OFF marker and the first line of the ON marker of a region in a list of byte lines
    (a comment option may re-flow a marker comment over several lines: the region lies between the two comments)"""
    if reg["flavor"] == "pragma":
        # a width limit may split the directive over backslash-continued lines
        text = b"\n".join(lines)
        gap = rb"(?:[ \t]|\\\n)*"
        m1 = re.search(rb"#" + gap + rb"pragma" + gap + rb"asm\b", text)
        m2 = re.search(rb"#" + gap + rb"pragma" + gap + rb"endasm\b", text)
        off = text.count(b"\n", 0, m1.end()) if m1 else None
        on = text.count(b"\n", 0, m2.start()) if m2 else None
        return off, on
    t = reg["tag"].encode()
    hit = [i for i, l in enumerate(lines) if re.search(t + rb"(?![0-9])", l)]
    off, on = (hit[0] if hit else None), (hit[1] if len(hit) > 1 else None)
    if off is not None:
        # the OFF comment ends where its closing */ is (same line unless re-flowed); a // comment ends with its line
        k = lines[off].find(t)
        c_open, cpp_open = lines[off].find(b"/*", 0, k), lines[off].find(b"//", 0, k)
        if c_open >= 0 and (cpp_open < 0 or c_open < cpp_open):
            j, pos = off, k
            while j < len(lines) and lines[j].find(b"*/", pos) < 0:
                j += 1
                pos = 0
            if j < len(lines) and (on is None or j < on):
                off = j
    if on is not None:
        # the ON comment starts where its opener is (same line unless re-flowed)
        k = lines[on].find(t)
        if b"/*" not in lines[on][:k] and b"//" not in lines[on][:k]:
            j = on
            while j > (off or 0) + 1 and b"/*" not in lines[j] and b"//" not in lines[j]:
                j -= 1
            if b"/*" in lines[j] or b"//" in lines[j]:
                on = j
    return off, on


def canon(l):
    return b"" if not l.strip(b" \t") else l


def split_region(data, reg):
    lines = SPLIT.split(data)
    off, on = find_markers(lines, reg)
    if off is None or (on is None and not reg["open_end"]):
        return None
    end = on if on is not None else len(lines)
    body = lines[off + 1:end]
    if on is None and body and body[-1] == b"":
        body = body[:-1]                 # the terminator of the last line, not a line
    outside = lines[:off + 1] + (lines[end:] if on is not None else [])
    return body, outside


def outside_all(data, regions):
    """the lines outside every region (marker lines included), or None when a marker is missing"""
    lines = SPLIT.split(data)
    drop = set()
    for reg in regions:
        off, on = find_markers(lines, reg)
        if off is None or (on is None and not reg["open_end"]):
            return None
        drop.update(range(off + 1, on if on is not None else len(lines)))
    return [l for i, l in enumerate(lines) if i not in drop]


def classify_opacity(a, b, cfg_text, same_shape):
    """what kind of difference outside the regions: content (tokens differ) or layout only, and for layout the option family
    that can see the SHAPE of a region (number of lines, blank lines next to the markers)"""
    squeeze = lambda ls: [re.sub(rb"[ \t\\]+", b"", l) for l in ls if l.strip(b" \t")]
    if b"".join(squeeze(a)) != b"".join(squeeze(b)):
        # comments added after a closing brace when the block is longer than N lines: the region's lines count
        strip_cb = lambda ls: [re.sub(rb"\}\s*(/\*.*?\*/|//.*)$", b"}", l) for l in ls]
        if not same_shape and re.search(r"mod_add_long_\w+_closebrace_comment\s*=\s*[1-9]", cfg_text or "") \
                and b"".join(squeeze(strip_cb(a))) == b"".join(squeeze(strip_cb(b))):
            return "content|shape|long-closebrace-comment"
        return "content"
    def joined(ls):                   # backslash-continued lines as one
        out, cur = [], b""
        for l in ls:
            if l.rstrip(b" \t").endswith(b"\\"):
                cur += l.rstrip(b" \t")[:-1] + b" "
            else:
                out.append(cur + l)
                cur = b""
        return out + ([cur] if cur else [])
    ja, jb = joined(a), joined(b)
    sq = lambda l: re.sub(rb"[ \t]+", b"", l)
    jd = [(x, y) for x, y in zip(ja, jb) if x != y]
    if len(ja) == len(jb) and jd and all(x.lstrip(b" \t").startswith(b"#") and sq(x) == sq(y) for x, y in jd):
        return "layout|pp-indent"             # only the indentation (and with it the splitting) of preprocessor lines differs
    diff = [(x, y) for x, y in zip(a, b) if x != y]
    if False:
        return "layout|pp-indent"             # only the indentation of preprocessor lines differs
    if same_shape:
        return "layout|same-shape"            # the replaced text has the same lines blank and the same number of lines
    cfg = cfg_text or ""
    if diff and all(x.strip() == y.strip() and b"TAG" in x for x, y in diff) and re.search(r"indent_single_line_comments_(before|after)\s*=\s*[1-9]", cfg):
        return "layout|shape|indent_single_line_comments"
    if re.search(r"align_\w*span\w*\s*=\s*[1-9]", cfg):
        return "layout|shape|align-span"
    return "layout|shape|other"


def judge_output(case, out, findings):
    for reg in case.regions:
        exp = [x.encode("utf-8") for x in reg["body"]]
        got = split_region(out, reg)
        if got is None:
            findings.append(("marker-lost|%s" % reg["flavor"], "the marker lines of region %s cannot be found in the output" % reg["tag"]))
            continue
        body = got[0]
        if reg["open_end"]:
            # the region ends with the file: how the file ends (terminators, blank lines) is the end-of-file policy's business
            while exp and not exp[-1].strip(b" \t\f\v"):
                exp = exp[:-1]
            while body and not body[-1].strip(b" \t\f\v"):
                body = body[:-1]
        e_nb = [l for l in exp if l.strip(b" \t")]
        g_nb = [l for l in body if l.strip(b" \t")]
        # text of the surrounding code may be moved next to a marker (a brace after a trailing OFF comment): the region is
        # the run of lines from its first to its last line
        lo = 0
        if e_nb and e_nb[0] in g_nb:
            lo = g_nb.index(e_nb[0])
        span = g_nb[lo:lo + len(e_nb)]
        extra_after = g_nb[lo + len(e_nb):]
        if e_nb != span or (extra_after and any(x in e_nb for x in extra_after)):
            k = 0
            while k < min(len(e_nb), len(span)) and e_nb[k] == span[k]:
                k += 1
            # a region whose own text mentions the end of an asm region: a cause of its own (recorded finding), keyed apart from every other difference
            cause = "endasm-text|" if any(b"endasm" in x for x in e_nb) and reg["flavor"] == FLAVORS[0][0] else ""
            findings.append(("region-lines|%s%s" % (cause, reg["flavor"]), "region %s: non-blank line %d differs: in %r out %r (%d lines in, %d out)"
                             % (reg["tag"], k + 1, e_nb[k][:60] if k < len(e_nb) else None, span[k][:60] if k < len(span) else None, len(e_nb), len(g_nb))))
        elif lo == 0 and not extra_after and [canon(l) for l in exp] != [canon(l) for l in body]:
            def core(ls):
                ls = [canon(l) for l in ls]
                while ls and not ls[0]:
                    ls = ls[1:]
                while ls and not ls[-1]:
                    ls = ls[:-1]
                return ls
            where = "boundary" if core(exp) == core(body) else "interior"
            findings.append(("blank-lines|%s" % where, "region %s (%s markers): blank lines added or removed %s: %d lines in, %d lines out"
                             % (reg["tag"], reg["flavor"], "between the marker and the first/last non-blank line of the region" if where == "boundary"
                                else "between two non-blank lines of the region", len(exp), len(body))))


def contract_and_model(case, R, model, findings, stats):
    """K_region on the dumps, and the Region model against the real tokenizer"""
    tok, fin = R.tok, R.fin
    if tok is None or fin is None:
        return
    ti = [c["text"] for c in tok if c["type"] == "IGNORED"]
    fi = [c["text"] for c in fin if c["type"] == "IGNORED"]
    if ti != fi:
        findings.append(("K_region|texts", "IGNORED chunks differ between the tokenizer's list and the list that is rendered (%d vs %d chunks)" % (len(ti), len(fi))))
    for i, c in enumerate(fin):
        if c["type"] == "IGNORED" and c["text"]:
            j = i + 1
            while j < len(fin) and not fin[j]["text"] and fin[j]["type"] not in ("NEWLINE", "NL_CONT"):
                j += 1                        # chunks without text (virtual braces/semicolons, the blanks in front of the ON comment)
            nx = fin[j] if j < len(fin) else None
            if nx is not None and j == len(fin) - 1 and nx["type"] == "NEWLINE":
                continue                      # the terminator of the file's last line: end-of-file policy
            if nx is not None and not (nx["type"] == "NEWLINE" and nx["nl_count"] >= 1):
                findings.append(("K_region|shape|%s" % nx["type"], "an IGNORED chunk is followed by %s %r instead of a NEWLINE chunk" % (nx["type"], dumps.text_str(nx)[:20])))
                break
    stats["contract"] = stats.get("contract", 0) + 1
    # lexer model: from the end of each OFF marker to the first line with the enabling text
    if case.ontext is None:
        return
    try:
        text = case.data.decode("utf-8")
    except UnicodeDecodeError:
        return
    for reg in case.regions:
        key = "#pragma asm" if reg["flavor"] == "pragma" else reg["tag"]
        k = text.find(key)
        if k < 0:
            continue
        if reg["flavor"] == "pragma":
            start = k + len(key)
        else:
            m = re.compile(r"\*/|\r|\n").search(text, k)
            if m is None:
                start = len(text)
            else:
                start = m.end() if m.group(0) == "*/" else m.start()
        line_no = text.count("\n", 0, start) + 1 if "\r\n" in text or "\r" not in text else None
        ans = model.ask("region %s %s" % (",".join("%x" % ord(ch) for ch in case.ontext), ",".join("%x" % ord(ch) for ch in text[start:]) or "-"))
        want = []
        for item in ans.split():
            if item.startswith("I:"):
                want.append(("IGNORED", dumps.cps(item[2:]), 0))
            elif item.startswith("N:"):
                want.append(("NEWLINE", [], int(item[2:])))
        # the chunks of the real tokenizer after the marker chunk
        mi = None
        for i, c in enumerate(tok):
            s = dumps.text_str(c)
            if (reg["flavor"] == "pragma" and c["type"] == "PP_ASM") or (reg["flavor"] == "pragma" and s == "asm" and i and dumps.text_str(tok[i - 1]) == "pragma") \
                    or (reg["flavor"] != "pragma" and key in s and c["type"].startswith("COMMENT")):
                mi = i
                break
        if mi is None:
            findings.append(("lexer|no-marker", "region %s: the marker comment is not a comment chunk of the tokenizer" % reg["tag"]))
            continue
        got = [(c["type"], c["text"], c["nl_count"] if c["type"] == "NEWLINE" else 0) for c in tok[mi + 1:mi + 1 + len(want)]]
        stats["lexer"] = stats.get("lexer", 0) + 1
        if got != want:
            j = 0
            while j < min(len(got), len(want)) and got[j] == want[j]:
                j += 1
            findings.append(("lexer|corr", "Model/Region.v and tokenize.cpp disagree on region %s at chunk %d: model %s, tokenizer %s"
                             % (reg["tag"], j, str(want[j])[:80] if j < len(want) else None, str(got[j])[:80] if j < len(got) else None)))


def explore(rep, cases, r, stats):
    tl = threading.local()
    base = tempfile.mkdtemp(prefix="c07_", dir=common.WORK)
    corr = []

    def work(case):
        if not hasattr(tl, "m"):
            tl.m = common.Model()
            tl.wd = tempfile.mkdtemp(dir=base)
        out = []
        R = rc.run_case(tl.wd, case, timeout=15)
        f = []
        diffs = None
        if R.rc == 0 and R.fin is not None:
            judge_output(case, R.out, f)
            contract_and_model(case, R, tl.m, f, stats)
            try:
                diffs, _ = renderrun.compare_file(tl.m, R.prefix)
            except Exception as e:
                diffs = ["model error: %s" % str(e)[:200]]
        out.append((case, R.rc, R.out, f, diffs, R.fin is not None and len(R.fin) > 5))
        # opacity: replace the region's content
        if R.rc == 0 and getattr(case, "alts", None):
            base_out = outside_all(R.out, case.regions)
            for alt in case.alts:
                R2 = rc.run_case(tl.wd, alt, timeout=15)
                f2 = []
                if R2.rc != 0:
                    f2.append(("opacity|exit", "exit status %d with the region's content replaced (0 before)" % R2.rc))
                else:
                    judge_output(alt, R2.out, f2)
                    g = outside_all(R2.out, alt.regions)
                    if base_out is not None and g is not None and base_out != g:
                        k = 0
                        while k < min(len(base_out), len(g)) and base_out[k] == g[k]:
                            k += 1
                        kind = classify_opacity(base_out, g, case.cfg_text, alt.label.endswith(":same"))
                        f2.append(("opacity|%s" % kind,
                                   "the output OUTSIDE the regions changes when only the regions' content is replaced: line %d %r vs %r"
                                   % (k + 1, base_out[k][:60] if k < len(base_out) else None, g[k][:60] if k < len(g) else None)))
                out.append((alt, R2.rc, R2.out, f2, None, R2.fin is not None and len(R2.fin) > 5))
        return out
    with ThreadPoolExecutor(max_workers=8) as ex:
        for res in ex.map(work, cases):
            for case, rcode, outb, f, diffs, nontriv in res:
                rep.count(key=(case.label, case.cfg_text, case.data[:300]), nontrivial=nontriv and rcode == 0)
                stats["rc"][rcode] = stats["rc"].get(rcode, 0) + 1
                if rcode != 0:
                    continue
                rep.validated()
                if diffs:
                    corr.append((case.label, diffs))
                for key, what in f:
                    rep.finding(key, what, {"kind": "c07", "label": case.label, "lang": case.lang, "cfg": case.cfg_text, "input_b64": common.b64(case.data),
                                            "regions": case.regions, "flavor": case.flavor, "ontext": case.ontext,
                                            "base_b64": common.b64(getattr(case, "base_data", b"")) or None})
    import shutil
    shutil.rmtree(base, ignore_errors=True)
    return corr


def corpus_wrapped(r, n):
    """corpus files wrapped whole in one region (all languages)"""
    out = []
    cor = common.corpus()
    r.shuffle(cor)
    for lang, cfg, inp, suite, num in cor:
        if len(out) >= n:
            break
        try:
            data = open(inp, "rb").read()
        except OSError:
            continue
        if len(data) > 20000 or len(data) < 10 or any(x in data for x in FORBIDDEN) or data[:2] in (b"\xff\xfe", b"\xfe\xff") or b"\x00" in data or data[:3] == b"\xef\xbb\xbf":
            continue
        try:
            txt = data.decode("utf-8")
        except UnicodeDecodeError:
            continue
        if "\r" in txt:
            continue
        body = txt.split("\n")
        if body and body[-1] == "":
            body = body[:-1]
        if not any(x.strip(" \t") for x in body):
            continue
        tag = "TAGc%s" % num
        text = "\n".join(["/* *INDENT-OFF* %s */" % tag] + body + ["/* *INDENT-ON* %s */" % tag, ""])
        cfg_text = open(cfg, errors="replace").read() if r.random() < 0.6 else "\n".join(r.sample(FOCUS, 3) + random_cfg(r, 5)) + "\n"
        if "INDENT-O" in cfg_text or "processing_cmt" in cfg_text:
            continue
        c = RCase("wrap:%s:%s" % (suite, num), lang or common.lang_of_path(inp), cfg_text, text.encode("utf-8"))
        c.regions, c.flavor, c.ontext = [{"tag": tag, "body": body, "open_end": False, "flavor": "c"}], "c", " *INDENT-ON*"
        out.append(c)
    return out


def run(rep, build, tier, seed):
    r = common.rng(seed, "C07")
    rep.cov["rule"] = ("generated C/C++ programs with 1-3 disabled regions at random line positions (file start, unterminated at end of file, after a trailing OFF "
                       "marker, ON marker followed by code), six marker flavours (/* */, //, mixed, custom texts, regular expressions, #pragma asm), region "
                       "content from twelve kinds of arbitrary text (unbalanced brackets/quotes, tabs, trailing blanks, UTF-8, directives, backslashes, the OFF "
                       "text again, 90-term lines, blank lines), x configurations of up to 26 options drawn from all 846 non-string options plus a focus list of "
                       "newline/mod_/align/cmt_/width options; each case is re-run with the regions' content replaced (same and different line count); corpus "
                       "files of all languages wrapped whole in one region. Non-trivial = exit 0 and more than 5 chunks rendered.")
    if build.get("uncrustify") != "ok" or build.get("model") != "ok":
        rep.unproved("build failed", "\n".join(build["errors"])[-3000:])
        return rep.finish(common.proof_status("C07", build))
    ng, nw = (110, 40) if tier == "quick" else (3000, 600)
    cases = []
    for i in range(ng):
        c = build_case(r, i, "gen:%d" % i)
        c.alts = [with_bodies(c, r, True), with_bodies(c, r, False)]
        for a in c.alts:
            a.base_data = c.data
        cases.append(c)
    # fixed shapes: a region directly behind an opening brace that the nl_*_brace options move (with a comment behind it), and
    # the disabling marker as trailing comment of a brace-less body that mod_full_brace_*=add wraps - the passes that move
    # or insert braces must not put them onto a region line
    for k, (tmpl, cfg) in enumerate(BRACE_SHAPES):
        for fl in FLAVORS[:2]:
            name, fcfg, mk_off, mk_on, ontext = fl
            tag = "TAGB%dx0" % k
            body = region_text(r, 3)
            text = tmpl.replace("@OFF@", mk_off(tag)).replace("@ON@", mk_on(tag)).replace("@BODY@", "\n".join(body))
            c = RCase("brace-shape:%d:%s" % (k, name), "C", "\n".join(list(fcfg) + cfg) + "\n", text.encode("utf-8"))
            c.regions, c.flavor, c.ontext = [{"tag": tag, "body": body, "open_end": False, "flavor": name}], name, ontext
            c.alts = [with_bodies(c, r, True), with_bodies(c, r, False)]
            for a in c.alts:
                a.base_data = c.data
            cases.append(c)
    # region text that mentions the end of a '#pragma asm' region although the region was opened by a marker comment (side remark of a round-5
    # seeding agent, reproduced: parse_ignored() re-enables processing on '#endasm' / '#pragma ... endasm' whatever opened the region)
    for k, body in enumerate([["int   b ;", "#endasm", "int   c ;"], ["int   b ;", "// see #pragma asm and endasm in the docs", "int   c ;"]]):
        name, fcfg, mk_off, mk_on, ontext = FLAVORS[0]
        tag = "TAGE%dx0" % k
        text = "int a;\n%s\n%s\n%s\nint d;\n" % (mk_off(tag), "\n".join(body), mk_on(tag))
        c = RCase("endasm-text:%d" % k, "C", "\n".join(list(fcfg)) + "\n", text.encode("utf-8"))
        c.regions, c.flavor, c.ontext = [{"tag": tag, "body": body, "open_end": False, "flavor": name}], name, ontext
        c.alts = []
        cases.append(c)
    cases += corpus_wrapped(r, nw)
    stats = {"rc": {}}
    corr = explore(rep, cases, r, stats)
    rep.cov["input_distribution"] = {"flavors": {f[0]: sum(1 for c in cases if c.flavor == f[0]) for f in FLAVORS}, "exit_status": {str(k): v for k, v in stats["rc"].items()},
                                     "lexer_model_comparisons": stats.get("lexer", 0), "contract_evaluations": stats.get("contract", 0)}
    rep.sample({"config": cases[0].cfg_text, "input_head": cases[0].data[:300].decode("latin1")})
    return rc.finish(rep, build, "C07", corr, "correspondence Model/Render.v <-> output.cpp (emitted code points)",
                     "Theorems of Properties_C07.v re-checked by make; %d generated programs (x3 region contents) and %d wrapped corpus files: Region model vs "
                     "tokenizer dump (%d regions), contract K_region on .tok/.fin, Render correspondence, region bytes and outside-of-region bytes on the real output."
                     % (ng, len(cases) - ng, stats.get("lexer", 0)), ASSUME)


def replay(rp, build):
    case = RCase(rp.get("label", "replay"), rp["lang"], rp.get("cfg"), common.unb64(rp["input_b64"]))
    case.regions, case.flavor, case.ontext = rp["regions"], rp["flavor"], rp.get("ontext")
    with tempfile.TemporaryDirectory(prefix="rr_", dir=common.WORK) as wd:
        R = rc.run_case(wd, case)
        print("exit status", R.rc)
        f = []
        if R.rc == 0:
            judge_output(case, R.out, f)
            if R.fin is not None:
                contract_and_model(case, R, common.Model(), f, {})
            if rp.get("base_b64"):
                base = RCase("base", rp["lang"], rp.get("cfg"), common.unb64(rp["base_b64"]))
                RB = rc.run_case(wd, base)
                b, g = outside_all(RB.out, case.regions), outside_all(R.out, case.regions)
                if b is not None and g is not None and b != g:
                    f.append(("opacity", "output outside the regions differs from the run with the original region content"))
        for k, w in f:
            print("VIOLATION reproduced:", w)
        if not f:
            print("property holds on this replay")
        return 1 if f else 0
