"""Shared exploration for the properties decided on the output stage (C08, C17, C18, C20): run the real binary with
dumps, compare the extracted Render model with what the writer emitted, and give the per-property oracles an
attributed output (every emitted code point with the chunk that produced it)."""
import os
import tempfile
import threading
from concurrent.futures import ThreadPoolExecutor

from .. import common, dumps, renderrun, progs

COMMENT_TYPES = renderrun.COMMENT_TYPES
OPAQUE = COMMENT_TYPES | {"IGNORED", "JUNK", "STRING_MULTI", "STRING", "CHAR"}


class Case:
    def __init__(self, label, lang, cfg_text, data, cfg_path=None):
        self.label, self.lang, self.cfg_text, self.data, self.cfg_path = label, lang, cfg_text, data, cfg_path


class Result:
    pass


def corpus_cases(r, n):
    cor = common.corpus()
    pick = r.sample(cor, min(n, len(cor)))
    out = []
    for lang, cfg, inp, suite, num in pick:
        try:
            data = open(inp, "rb").read()
        except OSError:
            continue
        out.append(Case("corpus:%s:%s" % (suite, num), lang or common.lang_of_path(inp), None, data, cfg_path=cfg))
    return out


def generated_cases(r, n, cfg_fn, layout_kw=None, size=25):
    out = []
    for i in range(n):
        lines = progs.program(r, nfunc=r.randint(1, 3), max_depth=r.randint(2, 6), size=size)
        kw = dict(layout_kw or {})
        src = progs.layout(r, lines, **kw)
        cfg, tag = cfg_fn(r, i)
        c = Case("gen:%d:%s" % (i, tag), "C", cfg, src.encode("latin1"))
        c.lines = lines
        out.append(c)
    return out


def run_case(wd, case, extra_args=(), binary=None, timeout=60):
    cfgp = case.cfg_path
    if cfgp is None:
        cfgp = os.path.join(wd, "case.cfg")
        with open(cfgp, "w") as f:
            f.write(case.cfg_text or "")
    src = os.path.join(wd, "case.src")
    with open(src, "wb") as f:
        f.write(case.data)
    args = ["-q", "-c", cfgp, "-l", case.lang, "-f", src] + list(extra_args)
    rc, out, err, prefix = dumps.run_with_dumps(args, wd, timeout=timeout, binary=binary)
    R = Result()
    R.rc, R.out, R.err, R.prefix, R.case = rc, out, err, prefix, case
    R.fin = R.recs = R.hdr = R.opts = None
    fp, op = prefix + ".0.fin", prefix + ".0.out"
    if rc == 0 and os.path.exists(fp) and os.path.exists(op):
        R.hdr, R.opts, R.fin = dumps.parse_chunks(fp)
        R.recs = dumps.parse_out(op)
    tp = prefix + ".0.tok"
    R.tok = dumps.parse_chunks(tp)[2] if os.path.exists(tp) else None
    R.lops = dumps.parse_lops(prefix + ".0.lops")
    return R


def attributed(R):
    """[(code point, chunk type, chunk index, in_preproc)] in output order"""
    out = []
    for rec in R.recs:
        i = rec["begin"]
        c = R.fin[i] if i < len(R.fin) else {"type": "?", "flags": 0}
        pre = bool(c["flags"] & dumps.PCF_IN_PREPROC)
        for cp in rec["chars"]:
            out.append((cp, c["type"], i, pre))
    return out


def split_lines(att, newline):
    """lines of attributed chars; the terminator (the configured newline sequence) is removed"""
    lines, cur = [], []
    n = len(newline)
    i = 0
    while i < len(att):
        if [a[0] for a in att[i:i + n]] == newline:
            lines.append((cur, att[i]))
            cur = []
            i += n
        else:
            cur.append(att[i])
            i += 1
    if cur:
        lines.append((cur, None))
    return lines


def explore(rep, cases, oracle, tier, corr_label, extra=None):
    """runs every case on the binary (8 workers), checks model correspondence and calls oracle(R, report_fn)"""
    corr = []
    tl = threading.local()
    lock = threading.Lock()
    base = tempfile.mkdtemp(prefix="rc_", dir=common.WORK)

    def work(case):
        if not hasattr(tl, "m"):
            tl.m = common.Model()
            tl.wd = tempfile.mkdtemp(dir=base)
        R = run_case(tl.wd, case)
        diffs = None
        if R.fin is not None:
            try:
                diffs, _ = renderrun.compare_file(tl.m, R.prefix)
            except Exception as e:       # model failure is a correspondence failure, not a crash of the check
                diffs = ["model error: %s" % str(e)[:200]]
            if extra is not None:       # further questions to the model, asked in the worker thread that owns this model process
                extra(R, tl.m)
        return R, diffs
    with ThreadPoolExecutor(max_workers=8) as ex:
        for R, diffs in ex.map(work, cases):
            case = R.case
            nontrivial = R.fin is not None and len(R.fin) > 5
            rep.count(key=(case.label, case.cfg_text, case.data[:200]), nontrivial=nontrivial)
            if R.fin is None:
                continue
            rep.validated()
            if diffs:
                corr.append((case.label, diffs))
            findings = []
            oracle(R, findings)
            for key, what in findings:
                rep.finding(key, what, {"kind": "format", "label": case.label, "lang": case.lang, "cfg": case.cfg_text,
                                        "cfg_path": case.cfg_path, "input_b64": common.b64(case.data),
                                        "lines": [[l.depth, l.nsb, l.kind, l.toks] for l in getattr(case, "lines", None) or []] or None})
    import shutil
    shutil.rmtree(base, ignore_errors=True)
    return corr


def finish(rep, build, pid, corr, what_corr, explanation, assumptions):
    ps = common.proof_status(pid, build)
    proof_broken = ps["discharged"] < ps["obligations"] or bool(build["forbidden"]) or build.get("model") != "ok"
    if corr and not rep.violations:
        rep.unproved(what_corr, "first differences: %s" % corr[:3])
    if proof_broken and not rep.violations:
        rep.unproved("proof obligations of Properties_%s.v (files: %s)" % (pid, ps["broken_files"]), build.get("coq_log_tail", ""))
    rep.cov["explanation"] = explanation
    rep.assumptions = assumptions
    rep.cov["trusted_base"] = assumptions
    return rep.finish(ps)


def replay_format(rp, oracle, extra=None):
    with tempfile.TemporaryDirectory(prefix="rr_", dir=common.WORK) as wd:
        case = Case(rp.get("label", "replay"), rp["lang"], rp.get("cfg"), common.unb64(rp["input_b64"]), cfg_path=rp.get("cfg_path"))
        if rp.get("lines"):
            case.lines = [progs.Line(d, t, kind=k, nsb=n) for d, n, k, t in rp["lines"]]
        R = run_case(wd, case)
        if extra is not None and R.fin is not None:
            extra(R, common.Model())
        print("rc", R.rc)
        if R.fin is None:
            print("no dump (exit status %s)" % R.rc)
            return 1
        findings = []
        oracle(R, findings)
        for k, w in findings:
            print("VIOLATION reproduced:", w)
        if not findings:
            print("property holds on this replay")
        return 1 if findings else 0


_CFG_CACHE = {}


def cfg_values(cfg_path=None, cfg_text=None):
    """all option values of a configuration as the binary sees them (--update-config), cached"""
    key = cfg_path or ("text", cfg_text)
    if key in _CFG_CACHE:
        return _CFG_CACHE[key]
    import subprocess
    if cfg_path is None:
        fd, p = tempfile.mkstemp(prefix="cv_", suffix=".cfg", dir=common.WORK)
        os.write(fd, (cfg_text or "").encode("latin1"))
        os.close(fd)
    else:
        p = cfg_path
    pr = subprocess.run([common.UNC, "-c", p, "--update-config"], stdout=subprocess.PIPE, stderr=subprocess.PIPE, timeout=60)
    vals = {}
    for line in pr.stdout.decode("latin1").split("\n"):
        if line.startswith("#") or "=" not in line:
            continue
        k, v = line.split("=", 1)
        vals[k.strip()] = v.strip()
    if cfg_path is None:
        os.unlink(p)
    _CFG_CACHE[key] = vals
    return vals
