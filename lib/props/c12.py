"""C12 — --check and --if-changed tell the truth and write nothing they should not.
Theorems: coq/Properties/Properties_C12.v over model E (FsProto): --check writes nothing for every fault plan
and crash point; verdict <-> formatting reproduces the file; --if-changed writes the target iff the bytes differ.
Tie: interposer trace / exit / files vs the extracted model; direct oracles on the real runs: directory snapshot
(names, sizes, mtimes, inodes) before/after --check, PASS/FAIL lines and exit status vs an independent normal run,
--if-changed target written iff different and byte-identical to a normal run's output."""
import os
import shutil
import subprocess
import tempfile

from .. import common, fsrun
from . import fs_common as fc

LEVEL = "proof"


def snapshot(root):
    out = {}
    for dp, dn, fn in os.walk(root):
        for n in fn + dn:
            p = os.path.join(dp, n)
            st = os.lstat(p)
            out[os.path.relpath(p, root)] = (st.st_size, st.st_mtime_ns, st.st_ino, st.st_mode)
    return out


def variants(F, U):
    """inputs in the classes the property names"""
    out = [("formatted", F), ("unformatted", U), ("empty", b"")]
    if F.count(b"\n") >= 2:
        i = F.index(b"\n")
        out.append(("same-size-middle-byte", F[:i] + b"\r" + F[i + 1:]))       # one CR: normalised to LF, same size
        out.append(("same-size-last-byte", F[:-1] + b"\r"))
    out.append(("size+1-first", b" " + F))
    out.append(("size+1-last", F + b" "))
    out.append(("size-1-last", F[:-1]))
    out.append(("middle-extra-space", F.replace(b" ", b"  ", 1)))
    return out


def run(rep, build, tier, seed):
    r = common.rng(seed, "C12")
    ps = common.proof_status("C12", build)
    proof_broken = ps["discharged"] < ps["obligations"] or bool(build["forbidden"]) or build.get("model") != "ok"
    rep.cov["rule"] = ("inputs: formatted / unformatted / empty / one-byte perturbations of the formatted text (same size at a middle byte and at the "
                       "last byte, size +-1 at first/last, extra space) in ASCII, UTF-8+BOM and UTF-16LE/BE, under two configurations; modes: --check "
                       "(single and several files per call), --if-changed with -o / stdout / positional / --replace / --no-backup, stdin. "
                       "Non-trivial = input differs from the plain formatted text.")
    rep.assumptions = ["Coq kernel; extraction; driver glue; interposer", "an independent normal run (-f FILE to stdout) defines 'the bytes a normal run would write'",
                       "mtime/inode/size snapshot of the scratch directory detects touching"]
    if build.get("uncrustify") != "ok" or build.get("model") != "ok":
        rep.unproved("build failed", "\n".join(build["errors"])[-3000:])
        return rep.finish(ps)
    m = common.Model()
    corr = []
    with tempfile.TemporaryDirectory(prefix="c12_", dir=common.WORK) as wd:
        base = os.path.join(wd, "run")
        U = fc.SRC_CHANGED
        inputs = []
        for cname, cfg in [("A", fc.CFG_A), ("B", fc.CFG_B)]:
            F = fc.formatted_of(U, cfg, wd)
            for name, data in variants(F, U):
                inputs.append((cname + "/" + name, cfg, data))
        # other encodings of the unformatted and formatted text (NUL bytes in UTF-16 output)
        for enc, bom in [("utf-16-le", b"\xff\xfe"), ("utf-16-be", b"\xfe\xff"), ("utf-8", b"\xef\xbb\xbf")]:
            Ue = bom + U.decode().replace("a;", "a; /* é */").encode(enc)
            inputs.append(("A/unformatted-" + enc, fc.CFG_A, Ue))
            Fe = fc.formatted_of(Ue, fc.CFG_A, wd)
            if Fe is not None:
                inputs.append(("A/formatted-" + enc, fc.CFG_A, Fe))
        if tier == "thorough":
            for i in range(40):
                F = fc.formatted_of(U, fc.CFG_A, wd)
                pos = r.randrange(len(F))
                inputs.append(("A/random-perturbation-%d" % i, fc.CFG_A, F[:pos] + bytes([r.choice(b" \t\r;x")]) + F[pos + r.randint(0, 1):]))
        fmt_of = {}
        for name, cfg, data in inputs:
            fmt_of[(cfg, data)] = fc.formatted_of(data, cfg, wd)
        # ---- single-file modes: model correspondence + oracles
        styles = [("check", 0), ("f-o", 1), ("f", 1), ("positional", 1), ("replace", 1), ("no-backup", 1), ("f-o-same", 1)]
        for name, cfg, data in inputs:
            f = fmt_of[(cfg, data)]
            for style, ic in styles:
                scn = fsrun.Scenario(fsrun.mode_for(style, ic, 0), data, cfg, argv_style=style, lang="C",
                                     out=(b"OLD OUT\n" if style in ("f-o", "positional") and len(name) % 2 else None))
                root, P, cfgp = fsrun.setup_dir(base, scn)
                before = snapshot(root)
                I, M, diffs = fc.compare(m, base, scn, f, [])     # (re-creates the dir; same content)
                # snapshot again on a run where we control timing
                root, P, cfgp = fsrun.setup_dir(base, scn)
                os.utime(P["in"], ns=(10 ** 18, 10 ** 18))
                for x in ("out",):
                    if os.path.exists(P[x]):
                        os.utime(P[x], ns=(10 ** 18, 10 ** 18))
                before = snapshot(root)
                p = subprocess.run([common.UNC] + fsrun.argv_for(scn, P, cfgp), stdout=subprocess.PIPE, stderr=subprocess.PIPE, timeout=30)
                after = snapshot(root)
                rep.count(key=(name, style), nontrivial=(f is None or data != f or "format" not in name))
                rep.validated()
                if diffs:
                    corr.append((name, style, diffs))
                changed = (f is not None and f != data)
                if style == "check":
                    want_rc0 = (f is not None and f == data)
                    if (p.returncode == 0) != want_rc0:
                        rep.finding("check-exit|%s" % name, "--check on %s exits %d but formatting %s the file" % (name, p.returncode, "reproduces" if want_rc0 else "changes"),
                                    fc.replay_dict(scn, f, [], I))
                    txt = (p.stdout + p.stderr).decode("latin1")
                    if f is not None and (("PASS:" in txt) != want_rc0 or ("FAIL:" in txt) == want_rc0):
                        rep.finding("check-report|%s" % name, "--check report inconsistent with the verdict for %s: %r" % (name, txt[:120]), fc.replay_dict(scn, f, [], I))
                    if before != after:
                        rep.finding("check-touch|%s" % name, "--check created/modified/touched files: %s" % sorted(set(before.items()) ^ set(after.items()))[:3],
                                    fc.replay_dict(scn, f, [], I))
                else:
                    tgt = {"f-o": "out", "positional": "out", "replace": "in", "no-backup": "in", "f-o-same": "in", "f": None}[style]
                    if f is None:
                        continue
                    if tgt is None:
                        want = f if changed else b""
                        if p.stdout != want:
                            rep.finding("ic-stdout|%s" % name, "--if-changed -f %s: stdout has %d bytes, expected %d" % (name, len(p.stdout), len(want)), fc.replay_dict(scn, f, [], I))
                        continue
                    path = P[tgt]
                    rel = os.path.relpath(path, root)
                    if changed:
                        got = open(path, "rb").read() if os.path.exists(path) else None
                        if got != f:
                            rep.finding("ic-bytes|%s|%s" % (style, name), "--if-changed (%s) on %s wrote %r..., a normal run writes %r..." % (style, name, (got or b"")[:24], f[:24]),
                                        fc.replay_dict(scn, f, [], I))
                    else:
                        if before.get(rel) != after.get(rel):
                            rep.finding("ic-touch|%s|%s" % (style, name), "--if-changed (%s) on unchanged %s wrote/touched the target" % (style, name), fc.replay_dict(scn, f, [], I))
                        extra = set(after) - set(before)
                        if extra:
                            rep.finding("ic-extra|%s|%s" % (style, name), "--if-changed (%s) on unchanged %s created %s" % (style, name, sorted(extra)), fc.replay_dict(scn, f, [], I))
        rep.sample({"input_classes": [n for n, _, _ in inputs][:14], "modes": [s for s, _ in styles]})
        # ---- several files in one --check call
        multi = os.path.join(wd, "multi")
        F = fc.formatted_of(U, fc.CFG_A, wd)
        pool = {"F": F, "U": U, "L": F[:-1] + b"\r", "E": b""}
        combos = ["FU", "UF", "FF", "FL", "LF", "UU", "FEF", "FFU", "UFF", "EL"]
        cfgp = os.path.join(wd, "m.cfg")
        open(cfgp, "w").write(fc.CFG_A)
        for combo in combos:
            shutil.rmtree(multi, ignore_errors=True)
            os.makedirs(multi)
            names = []
            for i, ch in enumerate(combo):
                pth = os.path.join(multi, "f%d.c" % i)
                open(pth, "wb").write(pool[ch])
                names.append(pth)
            before = snapshot(multi)
            p = subprocess.run([common.UNC, "-c", cfgp, "--check"] + names, stdout=subprocess.PIPE, stderr=subprocess.PIPE, timeout=30)
            after = snapshot(multi)
            fails = [fmt_of.get((fc.CFG_A, pool[ch]), fc.formatted_of(pool[ch], fc.CFG_A, wd)) != pool[ch] for ch in combo]
            rep.count(key=("multi", combo), nontrivial=True)
            ans = m.ask("check_exit %s" % "".join("1" if x else "0" for x in fails))
            rep.validated()
            want = 1 if any(fails) else 0
            if str(want) != ans:
                corr.append(("multi", combo, ["model check_exit %s vs %d" % (ans, want)]))
            if (p.returncode != 0) != any(fails):
                rep.finding("check-multi|%s" % combo, "--check on files %s exits %d, expected %s" % (combo, p.returncode, "non-zero" if any(fails) else "0"),
                            {"kind": "multi-check", "combo": combo})
            txt = (p.stdout + p.stderr).decode("latin1")
            for i, bad in enumerate(fails):
                tag = "FAIL: %s" % names[i] if bad else "PASS: %s" % names[i]
                if tag not in txt:
                    rep.finding("check-multi-report|%s|%d" % (combo, i), "--check on files %s: missing '%s'" % (combo, tag[:5] + " f%d.c" % i), {"kind": "multi-check", "combo": combo})
            if before != after:
                rep.finding("check-multi-touch|%s" % combo, "--check touched files in a multi-file call", {"kind": "multi-check", "combo": combo})
        # ---- a file of the call cannot be read: --check must not exit 0 ("every given file is already formatted" is false),
        # whatever the other files are, in every way of naming the files
        shutil.rmtree(multi, ignore_errors=True)
        os.makedirs(multi)
        fa, fb, gone = os.path.join(multi, "a.c"), os.path.join(multi, "b.c"), os.path.join(multi, "gone.c")
        open(fa, "wb").write(F)
        open(fb, "wb").write(F)
        lst = os.path.join(multi, "list.txt")
        open(lst, "w").write("\n".join([fa, gone, fb]) + "\n")
        for nm, args in [("positional", [fa, gone, fb]), ("positional-last", [fa, fb, gone]), ("-F", ["-F", lst]), ("-f", ["-f", gone])]:
            before = snapshot(multi)
            p = subprocess.run([common.UNC, "-c", cfgp, "--check"] + args, stdout=subprocess.PIPE, stderr=subprocess.PIPE, timeout=30)
            rep.count(key=("check-unreadable", nm), nontrivial=True)
            rep.validated()
            if p.returncode == 0:
                rep.finding("check-unreadable|%s" % nm, "--check (%s) exits 0 although one of the named files does not exist" % nm, {"kind": "multi-check", "combo": "gone:" + nm})
            if snapshot(multi) != before:
                rep.finding("check-unreadable-touch|%s" % nm, "--check touched files", {"kind": "multi-check", "combo": "gone:" + nm})
        # ---- stdin + --if-changed (main(): output is written unconditionally)
        for nm, data in [("formatted", F), ("unformatted", U)]:
            rc, out, err = common.run_unc(["-q", "-c", cfgp, "-l", "C", "--if-changed"], inp=data)
            rep.count(key=("stdin-ic", nm), nontrivial=True)
            if data == F and out != b"":
                rep.finding("stdin-if-changed", "--if-changed with stdin input writes the unchanged text to stdout (%d bytes)" % len(out),
                            {"kind": "stdin-if-changed"})
            if data != F and out != F:
                rep.finding("stdin-if-changed-bytes", "--if-changed with stdin input writes wrong bytes", {"kind": "stdin-if-changed"})
    m.close()
    if corr and not rep.violations:
        rep.unproved("correspondence Model/FsProto.v <-> binary in --check/--if-changed modes", "first differences: %s" % corr[:3])
    if proof_broken and not rep.violations:
        rep.unproved("proof obligations of Properties_C12.v (files: %s)" % ps["broken_files"], build.get("coq_log_tail", ""))
    rep.cov["explanation"] = ("Theorems of Properties_C12.v re-checked by make; %d real runs compared with the model and with the direct oracles "
                              "(verdict, report lines, directory snapshot, bytes written)." % rep.cov["evaluations"])
    rep.cov["trusted_base"] = rep.assumptions
    return rep.finish(ps)


def replay(rp, build):
    if rp.get("kind") == "fs":
        m = common.Model()
        scn, f, pl = fc.scenario_from_replay(rp)
        with tempfile.TemporaryDirectory(prefix="c12r_", dir=common.WORK) as wd:
            I, M, diffs = fc.compare(m, os.path.join(wd, "run"), scn, f, pl)
            print("style", scn.argv_style, "impl rc", I["rc"], "model exit", M["exit"], "diffs", diffs)
            print("impl disk", I["disk"])
        return 1 if diffs else 0
    print(rp)
    return 1
