"""C01 — Formatting preserves program meaning (compile equivalence).  Level: other.
Formal content: coq/Properties/Properties_C01.v - for any compiler that is a function of the preprocessing-token stream
(LexC), token preservation (C02) implies equal object code; both hypotheses named.  No theorem covers the mod_ options.
Decision on explored runs: grammar-generated COMPILABLE C and C++ translation units (and small Java classes) are compiled
before and after formatting with gcc/g++ -S -O1 (javac -g:none) and the generated code is compared; configurations: every
option family singly, random multi-option draws, and mod_ option draws."""
import hashlib
import os
import re
import subprocess
import tempfile
import threading
from concurrent.futures import ThreadPoolExecutor

from .. import common, cprogs
from . import lex_common as lx, c04

LEVEL = "other"
ASSUME = ["Coq kernel (reduction theorem only)", "gcc/g++ 12 -S -O1 -w and javac -g:none as the compilers; the compiler is deterministic; __LINE__/__FILE__/debug info are not used",
          "compile equivalence for the code-modifying options is NOT derived from any theorem: decided on explored runs only",
          "Objective-C is not compiled (no runtime headers in the sandbox)"]


def asm(lang, data, wd):
    """normalised assembly (or class file digest) of a translation unit; None if it does not compile"""
    if lang == "JAVA":
        m = re.search(rb"class\s+(\w+)", data)
        name = m.group(1).decode() if m else "T"
        d = tempfile.mkdtemp(dir=wd)
        open(os.path.join(d, name + ".java"), "wb").write(data)
        p = subprocess.run(["javac", "-g:none", "-nowarn", "-d", d, os.path.join(d, name + ".java")], stdout=subprocess.PIPE, stderr=subprocess.PIPE, timeout=120)
        if p.returncode != 0:
            return None, p.stderr[-300:]
        out = b"".join(open(os.path.join(d, f), "rb").read() for f in sorted(os.listdir(d)) if f.endswith(".class"))
        return hashlib.sha1(out).hexdigest(), b""
    cc = ["g++", "-x", "c++", "-std=c++17"] if lang == "CPP" else ["gcc", "-x", "c", "-std=gnu11"]
    p = subprocess.run(cc + ["-S", "-O1", "-w", "-o", "-", "-"], input=data, stdout=subprocess.PIPE, stderr=subprocess.PIPE, timeout=120)
    if p.returncode != 0:
        return None, p.stderr[-300:]
    txt = b"\n".join(l for l in p.stdout.split(b"\n") if not re.match(rb"\s*\.(file|ident|loc|cfi_|section\s+\.note)", l))
    return txt, b""


def java_program(r, n):
    body = []
    for _ in range(r.randint(4, 12)):
        k = r.random()
        e = lambda: "%s %s %s" % (r.choice(["v0", "v1", "v2", "g0", "3"]), r.choice(["+", "-", "*", "&", "<<"]), r.choice(["v1", "v3", "g1", "7", "f0(v2)"]))
        if k < 0.4:
            body.append("        %s = %s;" % (r.choice(["v0", "v1", "v2"]), e()))
        elif k < 0.6:
            body.append("        if ((%s) > (%s)) { v1++; } else { v2--; }" % (e(), e()))
        elif k < 0.75:
            body.append("        for (int i = 0; i < %d; i++) v0 += %s;" % (r.randint(1, 5), e()))
        elif k < 0.85:
            body.append("        while (v3 > 0) { v3--; if (v0 > 99) break; }")
        else:
            body.append("        switch (v1 & 3) { case 0: v0++; break; case 1: v2 = %s; break; default: break; }" % e())
    return cprogs.JAVA % {"n": n, "body": "\n".join(body)}


def make_cases(r, tier):
    n = 90 if tier == "quick" else 2500
    opts = lx.registry()
    cases = []
    for i in range(n):
        k = i % 6
        if k == 5:
            lang, src = "JAVA", java_program(r, i)
        else:
            lang = "CPP" if k in (1, 3) else "C"
            src = cprogs.program(r, nfunc=r.randint(1, 3), size=r.choice([8, 15, 25]), cpp=(lang == "CPP"))
        fam = i % 4
        if fam == 0:      # one option singly at one of its values
            o = r.choice([o for o in opts if not lx.NOT_WS.search(o["name"]) or o["name"].startswith("mod_")])
            cfg = ["%s=%s" % (o["name"], lx.value_for(r, o))]
        elif fam == 1:
            cfg = lx.ws_config(r, r.choice([5, 20, 50]), aggressive=True)
        elif (fam == 2 and i % 8 == 2) or (fam == 3 and i % 8 == 3):       # (the second term reaches the C++ and Java programs)
            # the brace and parenthesis removers/adders all at once: the options whose mistakes change meaning silently
            v = r.choice(["remove", "add"])
            cfg = ["mod_full_brace_if=%s" % v, "mod_full_brace_for=%s" % v, "mod_full_brace_while=%s" % v, "mod_full_brace_do=%s" % v,
                   "mod_paren_on_return=%s" % r.choice(["add", "remove"]), "mod_full_paren_if_bool=%s" % r.choice(["true", "false"]),
                   "mod_remove_extra_semicolon=true", "mod_case_brace=%s" % r.choice(["add", "remove"])]
            if r.random() < 0.6:
                # the options that write '// ...' comments behind closing braces and #endif
                cfg += ["mod_add_long_function_closebrace_comment=1", "mod_add_long_namespace_closebrace_comment=1", "mod_add_long_class_closebrace_comment=1",
                        "mod_add_long_switch_closebrace_comment=1", "mod_add_long_ifdef_endif_comment=1", "mod_add_long_ifdef_else_comment=1"]
        elif fam == 2:
            cfg = c04.mod_config(r) + lx.ws_config(r, 5)
        else:
            cfg = lx.all_sp(r.choice(["remove", "force"])) + c04.mod_config(r)
        if lang == "JAVA":
            cfg = [c for c in cfg if not c.startswith(("mod_sort_import", "mod_int_", "mod_short", "mod_long", "mod_signed", "mod_unsigned"))]
        cases.append(("gen:%d:%s" % (i, ["single", "ws", "mods", "sp+mods"][fam]), lang, "\n".join(cfg) + "\n", src.encode()))
    return cases


def run(rep, build, tier, seed):
    r = common.rng(seed, "C01")
    rep.cov["rule"] = ("grammar-generated compilable translation units: C (globals, prototypes, macros with continuation lines, enum, struct, pointer and array accesses, "
                       "if/else-if chains incl. brace-less bodies, loops incl. infinite ones, do-while, switch with fall-through-free cases and returns, blocks, empty "
                       "statements, all int spellings), the same as C++ with a namespace, a class with constructor initialisers and a template, and small Java classes; "
                       "x four configuration families (one option singly at a random in-range value; up to 50 whitespace options; mod_ draws; every sp_ option at one "
                       "value plus mod_ draws). Input and output are compiled with gcc/g++ -S -O1 -w (javac -g:none) and the code compared. Non-trivial = the input "
                       "compiles and uncrustify exits 0.")
    ps = common.proof_status("C01", build)
    if build.get("uncrustify") != "ok":
        rep.unproved("build failed", "\n".join(build["errors"])[-3000:])
        return rep.finish(ps)
    cases = make_cases(r, tier)
    base = tempfile.mkdtemp(prefix="c01_", dir=common.WORK)
    tl = threading.local()
    from collections import Counter
    stat = Counter()

    def work(case):
        label, lang, cfg_text, data = case
        if not hasattr(tl, "wd"):
            tl.wd = tempfile.mkdtemp(dir=base)
        cfg = os.path.join(tl.wd, "u.cfg")
        open(cfg, "w").write(cfg_text)
        a0, err0 = asm(lang, data, tl.wd)
        if a0 is None:
            return case, "input-does-not-compile", None, err0
        try:
            p = subprocess.run([common.UNC, "-q", "-c", cfg, "-l", lang], input=data, stdout=subprocess.PIPE, stderr=subprocess.PIPE, timeout=30)
        except subprocess.TimeoutExpired:
            if "code_width" in cfg_text:
                open(cfg, "a").write("\ndebug_max_number_of_loops=3000\n")
                try:
                    p2 = subprocess.run([common.UNC, "-q", "-c", cfg, "-l", lang], input=data, stdout=subprocess.PIPE, stderr=subprocess.PIPE, timeout=30)
                    if p2.returncode == 70:
                        return case, "timeout", ("exit|code_width-fixpoint", "uncrustify does not terminate on a valid program: the align/indent/do_code_width loop finds no fixed point"), b""
                except subprocess.TimeoutExpired:
                    pass
            return case, "timeout", ("exit", "uncrustify did not terminate on a valid program"), b""
        if p.returncode == 78:
            return case, "config-refused", None, b""          # an inconsistent draw (a blank-line count above nl_max): diagnosed, not a formatting run
        if p.returncode != 0:
            p3 = subprocess.run([common.UNC, "-c", cfg, "-l", lang], input=data, stdout=subprocess.PIPE, stderr=subprocess.PIPE, timeout=30)
            m = re.search(rb"Error: Unexpected '(.)' for '(\w+)'", p3.stderr)
            if m and lang == "CPP" and m.group(1) == b">":
                return case, "rc%d" % p.returncode, ("exit|angle-misparse", "uncrustify refuses a valid C++ program (exit %d): a comparison '<' ... '>' inside an expression is taken "
                                                     "for template brackets: %r" % (p.returncode, p3.stderr[-160:])), b""
            p = p3
            return case, "rc%d" % p.returncode, ("exit|%d" % p.returncode, "uncrustify exits %d on a valid program: %r" % (p.returncode, p.stderr[-150:])), b""
        a1, err1 = asm(lang, p.stdout, tl.wd)
        if a1 is None:
            spliced = re.sub(rb"\\\r?\n", b" ", p.stdout)
            cause = "|macro-paren-split" if re.search(rb"#\s*define\s+\w+\s+\(", spliced) and not re.search(rb"#\s*define\s+\w+\s+\(", re.sub(rb"\\\r?\n", b" ", data)) else ""
            return case, "output-does-not-compile", ("compile|broken" + cause, "the formatted program does not compile: %r" % err1[-200:]), p.stdout
        if a1 != a0:
            return case, "code-differs", ("compile|differs", "the formatted program compiles to different code"), p.stdout
        return case, "same", None, b""
    with ThreadPoolExecutor(max_workers=12) as ex:
        for case, st, finding, extra in ex.map(work, cases):
            stat[st] += 1
            rep.count(key=(case[0], case[2], case[3][:200]), nontrivial=st not in ("input-does-not-compile", "config-refused"))
            if st != "input-does-not-compile":
                rep.validated()
            if st == "input-does-not-compile":
                rep.unproved("generator produced a program that does not compile (%s)" % case[1], (extra or b"").decode("latin1")) if False else None
            if finding:
                mods = sorted(set(l.split("=")[0] for l in case[2].split("\n") if l.startswith("mod_")))
                key = finding[0] + ("|" + ",".join(mods[:3]) if mods and finding[0].startswith("compile") and "macro-paren" not in finding[0] else "")
                rep.finding(key, "%s (%s, %s; mod options: %s)" % (finding[1], case[0], case[1], mods or "none"),
                            {"kind": "c01", "label": case[0], "lang": case[1], "cfg": case[2], "input_b64": common.b64(case[3])})
    import shutil
    shutil.rmtree(base, ignore_errors=True)
    rep.cov["input_distribution"] = {"cases": len(cases), "outcomes": dict(stat), "languages": dict(Counter(c[1] for c in cases))}
    rep.sample({"config": cases[2][2][:200], "input_head": cases[2][3][:300].decode("latin1")})
    if ps["discharged"] < ps["obligations"] and not rep.violations:
        rep.unproved("proof obligations of Properties_C01.v", build.get("coq_log_tail", ""))
    if stat["input-does-not-compile"] > len(cases) // 10 and not rep.violations:
        rep.unproved("more than 10% of the generated programs do not compile: the generator no longer matches the toolchain", str(dict(stat)))
    rep.cov["explanation"] = "Reduction theorem of Properties_C01.v re-checked by make; %d generated programs compiled before and after formatting: %s." % (len(cases), dict(stat))
    rep.assumptions = ASSUME
    rep.cov["trusted_base"] = ASSUME
    return rep.finish(ps)


def replay(rp, build):
    with tempfile.TemporaryDirectory(prefix="rr_", dir=common.WORK) as wd:
        data = common.unb64(rp["input_b64"])
        cfg = os.path.join(wd, "u.cfg")
        open(cfg, "w").write(rp.get("cfg") or "")
        a0, _ = asm(rp["lang"], data, wd)
        p = subprocess.run([common.UNC, "-q", "-c", cfg, "-l", rp["lang"]], input=data, stdout=subprocess.PIPE, stderr=subprocess.PIPE, timeout=30)
        print("exit status", p.returncode)
        if p.returncode != 0:
            print("VIOLATION reproduced: uncrustify exits %d on a valid program" % p.returncode)
            return 1
        a1, e1 = asm(rp["lang"], p.stdout, wd)
        if a1 != a0:
            print("VIOLATION reproduced: %s" % ("the formatted program does not compile: %r" % e1[-200:] if a1 is None else "different code"))
            return 1
        print("property holds on this replay")
        return 0
