"""C15 — Configuration round-trips.
Theorems: coq/Properties/Properties_C15.v (model D, coq/Model/Config.v, instantiated with the generated registry).
Tie: translator (registry/alias/compat tables regenerated from /repo/src every run, side conditions re-proved) +
correspondence: every explored config is loaded by the real binary (--update-config) and by the extracted model;
saved lines, non-default count and diagnostics must agree.  Direct oracles: reload of the saved file is silent and
reproduces it (idempotence); equivalent spellings give the same saved file; formatting under the reloaded file is
byte-identical."""
import os
import sys
import tempfile

from .. import common, cfgrun

LEVEL = "proof"
ENUMS = {"iarf_e": ["ignore", "add", "remove", "force"], "line_end_e": ["lf", "crlf", "cr", "auto"],
         "token_pos_e": ["ignore", "break", "force", "lead", "trail", "join", "lead_break", "lead_force", "trail_break", "trail_force"],
         "bool": ["true", "false"]}
STRINGS = ["plain", "two words", "a#b", "x=y", "co,mma", 'q"uote', "back\\slash", "end\\", "'single'", "`tick`", "\\\"both\\\\", "re[gex]+(.*)$^|?",
           " lead", "trail ", "", "#", "\\\\", "tab\there"]
SAMPLE = b"int   main(int argc,char**argv){if(argc>1){return  argv[0][0];}else return 0;}\n/* c */\n#define X(a) ((a)+1)\n"


def options():
    sys.path.insert(0, os.path.join(common.ROOT, "gen"))
    import gen_registry
    if not gen_registry.RAW:
        gen_registry.generate(common.REPO)
    return list(gen_registry.RAW)


def candidates(o):
    ty = o["type"]
    if ty in ENUMS:
        return ENUMS[ty]
    if ty == "string":
        return STRINGS
    lo, hi = o["lo"], o["hi"]
    if lo is None:
        return ["0", "1", "-1", "7", "-2147483648", "2147483647", "100"]
    mid = (lo + hi) // 2
    return [str(x) for x in sorted(set([lo, hi, mid, min(hi, lo + 1), max(lo, hi - 1)]))]


def quote(v):
    return '"' + v.replace("\\", "\\\\").replace('"', '\\"') + '"'


SKIP = {"nl_max", "debug_timeout", "cmt_insert_file_header", "cmt_insert_file_footer", "cmt_insert_func_header", "cmt_insert_class_header",
        "cmt_insert_oc_msg_header", "cmt_reflow_fold_regex_file"}


def value_configs(opts):
    """config j sets every option to its j-th candidate value: exhaustive over options x candidate values in few files"""
    n = max(len(candidates(o)) for o in opts)
    cfgs = []
    for j in range(n):
        lines = []
        for i, o in enumerate(opts):
            c = candidates(o)
            if j >= len(c) or o["name"] in ("nl_max",):
                continue
            v = c[j]
            if o["type"] == "string":
                if o["name"] in SKIP:      # these name files that must exist: tested with round-trip only below
                    continue
                v = quote(v)
            sep = [" = ", "=", " ", "\t=\t", " , "][(i + j) % 5]
            nm = o["name"] if (i + j) % 7 else o["name"].upper()
            lines.append("%s%s%s" % (nm, sep, v))
        cfgs.append(("\n".join(lines) + "\n").encode("latin1"))
    return cfgs


def run(rep, build, tier, seed):
    r = common.rng(seed, "C15")
    ps = common.proof_status("C15", build)
    proof_broken = ps["discharged"] < ps["obligations"] or bool(build["forbidden"]) or build.get("model") != "ok"
    rep.cov["rule"] = ("exhaustive: every one of the generated options at every enumerated value / numeric minimum, maximum, interior / string from a "
                       "class list (spaces, quotes, backslashes, '#', '=', regex metacharacters), spread over one config per candidate index and "
                       "written with varying separators and name case; alias spellings; references; directives (type/set/macro-*/file_ext); random "
                       "whole configs. Non-trivial = the config changes at least one option from its default.")
    rep.assumptions = ["Coq kernel (vm_compute for the generated-table side conditions); extraction; driver glue",
                       "translator gen/gen_registry.py (options.h, option.h, option.cpp compat blocks, language_names.cpp, build's option_enum.cpp/token_names.h)",
                       "NUL bytes in config text excluded (strchr quirk); 'include' handled by the harness as an oracle; 'using' versions restricted to digits and dots"]
    if build.get("uncrustify") != "ok" or build.get("model") != "ok":
        rep.unproved("build failed", "\n".join(build["errors"])[-3000:])
        return rep.finish(ps)
    ginfo = build.get("gen", {}).get("Registry.v", {})
    if "error" in ginfo or any("error" in v for v in build.get("gen", {}).values() if isinstance(v, dict)):
        rep.unproved("translator gen_registry.py no longer recognises the source", str(build.get("gen"))[:1500])
        return rep.finish(ps)
    m = common.Model()
    corr = []
    opts = options()
    with tempfile.TemporaryDirectory(prefix="c15_", dir=common.WORK) as wd:
        cfgs = [("values-%d" % j, c) for j, c in enumerate(value_configs(opts))]
        # aliases / references / directives / case
        cfgs.append(("aliases", b"sp_arith=A\nsp_assign=r\nsp_bool = F\nutf8_byte=Y\nutf8_force = no\nindent_cmt_with_tabs=1\nnl_squeeze_ifdef = T\nsp_cond_colon= 2\nnewlines=CRLF\npos_arith=Lead\n"))
        cfgs.append(("references", b"indent_columns=3\nindent_switch_case = indent_columns\nindent_continue=-indent_columns\nsp_assign=force\nsp_arith = sp_assign\nutf8_byte=true\nutf8_force=~utf8_byte\nalign_keep_tabs = !utf8_force\nalign_with_tabs = -utf8_force\n"))
        cfgs.append(("directives", b"type Foo Bar  Baz\nset BOOL __AND__ __OR__\nset TYPE word_t\nmacro-open BEGIN_X\nmacro-close END_X\nmacro-else ELSE_X\nfile_ext CPP .ch .cxx .cpp.in\nfile_ext c-header .hh\nfile_ext JAVA .jav\ntype \"quoted type\"\n"))
        cfgs.append(("comments", b"# full comment\n\n   \nindent_columns = 5 # trailing\nsp_arith = force#nospace\n"))
        n_rand = 4 if tier == "quick" else 60
        for k in range(n_rand):
            lines = []
            for o in r.sample(opts, 40):
                if o["name"] in SKIP:
                    continue
                v = r.choice(candidates(o))
                lines.append("%s = %s" % (o["name"], quote(v) if o["type"] == "string" else v))
            cfgs.append(("random-%d" % k, ("\n".join(lines) + "\n").encode("latin1")))
        src = os.path.join(wd, "s.c")
        open(src, "wb").write(SAMPLE)
        for name, cfg in cfgs:
            I = cfgrun.impl_load(cfg, wd)
            M = cfgrun.model_load(m, cfg)
            rep.count(key=cfg, nontrivial=(I.get("n") or 0) > 0)
            rep.validated()
            d = cfgrun.compare(I, M)
            if d:
                corr.append((name, d))
            if I["rc"] != 0:
                continue
            if I["diags"] and name.startswith(("values", "random", "aliases", "references", "directives")):
                rep.finding("diag|%s" % name, "valid config %s produces diagnostics %s" % (name, I["diags"][:3]), {"kind": "config", "cfg_b64": common.b64(cfg)})
            # round trip on the real binary: reload the complete saved file
            saved = b"\n".join(I["lines"]) + b"\n"
            I2 = cfgrun.impl_load(saved, wd)
            rep.count(key=("reload", cfg), nontrivial=True)
            if I2["rc"] != 0 or I2["diags"]:
                rep.finding("reload-diag|%s" % name, "the file written by --update-config for %s does not reload silently: rc=%s %s" % (name, I2["rc"], I2["diags"][:3]),
                            {"kind": "config", "cfg_b64": common.b64(cfg), "saved_b64": common.b64(saved)})
            elif I2["lines"] != I["lines"]:
                diff = next((a, b) for a, b in zip(I["lines"] + [None], I2["lines"] + [None]) if a != b)
                rep.finding("reload-differs|%s" % name, "reloading the saved config of %s changes it: %r -> %r" % (name, diff[0], diff[1]),
                            {"kind": "config", "cfg_b64": common.b64(cfg), "saved_b64": common.b64(saved)})
            # with-doc variant carries the same settings
            I3 = cfgrun.impl_load(cfg, wd, with_doc=True)
            if I3["rc"] == 0 and [l.rstrip() for l in I3["lines"]] != [l.rstrip() for l in I["lines"]]:
                diff = next(((a, b) for a, b in zip(I["lines"] + [None], I3["lines"] + [None]) if a is None or b is None or a.rstrip() != b.rstrip()), None)
                rep.finding("withdoc|%s" % name, "--update-config-with-doc differs from --update-config for %s: %r" % (name, diff),
                            {"kind": "config", "cfg_b64": common.b64(cfg)})
            # behavioural equivalence on a sample input (skip configs that need external files)
            if name.startswith(("values", "random")):
                p1 = os.path.join(wd, "a.cfg")
                p2 = os.path.join(wd, "b.cfg")
                open(p1, "wb").write(cfg)
                open(p2, "wb").write(saved)
                r1 = common.run_unc(["-q", "-c", p1, "-l", "C", "-f", src])
                r2 = common.run_unc(["-q", "-c", p2, "-l", "C", "-f", src])
                if r1[0] == 0 and (r1[0], r1[1]) != (r2[0], r2[1]):
                    rep.finding("behaviour|%s" % name, "formatting differs between %s and its saved/reloaded form" % name,
                                {"kind": "config", "cfg_b64": common.b64(cfg), "saved_b64": common.b64(saved)})
        # equivalent spellings of directives and names: same saved file, and nothing declared is lost
        base_dir = b"type Foo Bar\nset BOOL __AND__\nmacro-open BEGIN_X\nmacro-close END_X\nmacro-else ELSE_X\nfile_ext CPP .ch .cxx\nfile_ext C-Header .hh\nfile_ext JAVA .jav\nfile_ext OC+ .mmx\nindent_columns = 3\nsp_arith = force\n"
        variants = [("lower", base_dir.replace(b"CPP", b"cpp").replace(b"C-Header", b"c-header").replace(b"JAVA", b"java").replace(b"OC+", b"oc+").replace(b"BOOL", b"bool")),
                    ("mixed", base_dir.replace(b"CPP", b"Cpp").replace(b"JAVA", b"Java").replace(b"indent_columns", b"Indent_Columns").replace(b"sp_arith = force", b"SP_ARITH FORCE")),
                    ("seps", base_dir.replace(b"indent_columns = 3", b"indent_columns 3").replace(b"sp_arith = force", b"sp_arith=force").replace(b"type Foo Bar", b"type Foo,Bar"))]
        Ib = cfgrun.impl_load(base_dir, wd)
        need = [b".ch", b".cxx", b".hh", b".jav", b".mmx", b"Foo", b"Bar", b"__AND__", b"BEGIN_X", b"END_X", b"ELSE_X"]
        for w in need:
            rep.count(key=("declared", w), nontrivial=True)
            if not any(l.split() and l.split()[-1] == w or (l.startswith(b"file_ext") and w in l.split()) for l in Ib["lines"]):
                rep.finding("lost|%s" % w.decode(), "the saved config lost the declared word/extension %r" % w, {"kind": "config", "cfg_b64": common.b64(base_dir)})
        # every extension stays with the language it was declared for
        declared = {b".ch": b"CPP", b".cxx": b"CPP", b".hh": b"C-HEADER", b".jav": b"JAVA", b".mmx": b"OC+"}
        got = {}
        for l in Ib["lines"]:
            p_ = l.split()
            if p_ and p_[0] == b"file_ext" and len(p_) > 2:
                for e in p_[2:]:
                    got[e] = p_[1].upper()
        for e, lang in declared.items():
            rep.count(key=("file_ext-language", e), nontrivial=True)
            if e in got and got[e] != lang:
                rep.finding("file_ext-language|%s" % e.decode(), "the saved config maps extension %s to %s, it was declared for %s: %r"
                            % (e.decode(), got[e].decode(), lang.decode(), [l for l in Ib["lines"] if l.startswith(b"file_ext")]),
                            {"kind": "config", "cfg_b64": common.b64(base_dir)})
        for vn, vc in variants:
            Iv = cfgrun.impl_load(vc, wd)
            Mv = cfgrun.model_load(m, vc)
            rep.count(key=("variant", vn), nontrivial=True)
            rep.validated()
            dv = cfgrun.compare(Iv, Mv)
            if dv:
                corr.append(("variant-" + vn, dv))
            if Iv["rc"] == 0 and Iv["lines"] != Ib["lines"]:
                diff = next(((a, b) for a, b in zip(Ib["lines"] + [None] * 3, Iv["lines"] + [None] * 3) if a != b), None)
                rep.finding("spelling|%s" % vn, "equivalent spelling '%s' saves differently: %r vs %r" % (vn, diff[0], diff[1]),
                            {"kind": "config", "cfg_b64": common.b64(vc)})
        rep.sample({"config": cfgs[0][0], "first_lines": cfgs[0][1].decode("latin1").split("\n")[:4]})
        rep.sample({"config": "references", "text": cfgs[len(value_configs(opts)) + 1][1].decode()})
        # --set equivalence: `--set name=value` == line `name=value`
        for o in r.sample(opts, 30 if tier == "quick" else 300):
            if o["name"] in SKIP or o["type"] == "string":
                continue
            v = r.choice(candidates(o))
            I1 = cfgrun.impl_load(("%s=%s\n" % (o["name"], v)).encode(), wd)
            I2 = cfgrun.impl_load(b"", wd, sets=[(o["name"], v)])
            M2 = cfgrun.model_load(m, b"", sets=[(o["name"].encode(), v.encode())])
            rep.count(key=("set", o["name"], v), nontrivial=True)
            rep.validated()
            if I1["rc"] == 0 and I2["rc"] == 0 and I1["lines"] != I2["lines"]:
                rep.finding("set-equiv|%s" % o["name"], "--set %s=%s differs from the config line" % (o["name"], v), {"kind": "set", "option": o["name"], "value": v})
            if I2["rc"] == 0 and I2["lines"] != M2["lines"]:
                corr.append(("set " + o["name"], ["--set differs from the model"]))
    m.close()
    rep.cov["options_in_registry"] = len(opts)
    rep.cov["generated"] = {k: v for k, v in ginfo.items() if k != "changed"}
    if corr and not rep.violations:
        rep.unproved("correspondence Model/Config.v <-> option.cpp (saved lines / diagnostics)", "first differences: %s" % corr[:3])
    if proof_broken and not rep.violations:
        rep.unproved("proof obligations of Properties_C15.v (files: %s)" % ps["broken_files"], build.get("coq_log_tail", ""))
    rep.cov["explanation"] = ("Theorems of Properties_C15.v re-checked against the regenerated registry (%d options); %d configs loaded by binary and model; "
                              "reload/idempotence/with-doc/behaviour oracles on the real binary." % (len(opts), len(cfgs)))
    rep.cov["trusted_base"] = rep.assumptions
    return rep.finish(ps)


def replay(rp, build):
    m = common.Model()
    with tempfile.TemporaryDirectory(prefix="c15r_", dir=common.WORK) as wd:
        cfg = common.unb64(rp["cfg_b64"]) if "cfg_b64" in rp else b""
        I = cfgrun.impl_load(cfg, wd)
        M = cfgrun.model_load(m, cfg)
        print("impl rc", I["rc"], "diags", I["diags"][:5])
        print("differences to the model:", cfgrun.compare(I, M))
        saved = b"\n".join(I["lines"]) + b"\n"
        I2 = cfgrun.impl_load(saved, wd)
        same = I2["lines"] == I["lines"] and not I2["diags"]
        print("reload reproduces the saved file silently:", same)
        return 0 if same else 1
