"""C09 — Encoding is transparent.
Theorems: coq/Properties/Properties_C09.v (model A, coq/Model/Codec.v).
Tie: the model is executed (extracted OCaml) side by side with the real decode_unicode / BOM policy /
write_char code, reached through the UNC_VERIF_CODEC hook (decode, policy, re-encode, no formatting).
End-to-end oracle: format(transcode x) == transcode(format x) on the real formatter."""
import os
import tempfile

from .. import common
from ..common import run_unc, b64, unb64

LEVEL = "proof"
OPTS = [("i", 0, 0), ("a", 0, 0), ("r", 0, 0), ("f", 0, 0), ("i", 1, 0), ("i", 0, 1), ("r", 0, 1), ("a", 1, 0)]
IARF = {"i": "ignore", "a": "add", "r": "remove", "f": "force"}


def cfg_text(o):
    return "utf8_bom=%s\nutf8_byte=%s\nutf8_force=%s\n" % (IARF[o[0]], "true" if o[1] else "false", "true" if o[2] else "false")


def all_scalars():
    return [c for c in range(1, 0x110000) if not (0xD800 <= c < 0xE000)]


def enc_file(cps, kind):
    s = "".join(map(chr, cps))
    if kind == "utf8":
        return s.encode("utf-8")
    if kind == "utf8bom":
        return b"\xef\xbb\xbf" + s.encode("utf-8")
    if kind == "utf16le":
        return b"\xff\xfe" + s.encode("utf-16-le")
    if kind == "utf16be":
        return b"\xfe\xff" + s.encode("utf-16-be")
    if kind == "ascii":
        return bytes(c for c in cps if c < 128)
    raise ValueError(kind)


def impl_codec(data, o, workdir):
    """The real code: decode_unicode + policy + write_char, no formatting (hook UNC_VERIF_CODEC)."""
    cfg = os.path.join(workdir, "c.cfg")
    with open(cfg, "w") as f:
        f.write(cfg_text(o))
    src = os.path.join(workdir, "in.c")
    with open(src, "wb") as f:
        f.write(data)
    rc, out, err = run_unc(["-q", "-c", cfg, "-l", "C", "-f", src], env_extra={"UNC_VERIF_CODEC": "1"}, timeout=120)
    if rc != 0:
        return ("R", rc, out)
    return ("W", 0, out)


def model_codec(m, data, o, check_min="1"):
    ans = m.ask("codec %s %s %d %d %s" % (check_min, o[0], o[1], o[2], data.hex() if data else "-"))
    if ans == "R":
        return ("R", None)
    if ans.startswith("W "):
        h = ans[2:]
        return ("W", b"" if h == "-" else bytes.fromhex(h))
    raise RuntimeError("model: " + ans[:200])


def malformed_stream(r, n):
    """Byte strings aimed at the case splits of decode_unicode / decode_utf8 / decode_utf16."""
    out = []
    frag = [b"\xc1\x81", b"\xc0\x80", b"\xe0\x80\x80", b"\xe0\x9f\xbf", b"\xf0\x80\x80\x80", b"\xf0\x8f\xbf\xbf",
            b"\xf8\x80\x80\x80\x80", b"\xf8\x88\x80\x80\x80", b"\xfc\x80\x80\x80\x80\x80", b"\xfc\x84\x80\x80\x80\x80",
            b"\xed\xa0\x80", b"\xed\xbf\xbf", b"\xf4\x90\x80\x80", b"\xf7\xbf\xbf\xbf", b"\xfd\xbf\xbf\xbf\xbf\xbf",
            b"\xc3", b"\xe2\x82", b"\xf0\x9f\x98", b"\x80", b"\xbf", b"\xfe", b"\xff", b"\xc3\xa9", b"\xe2\x82\xac",
            b"\xf0\x9f\x98\x80", b"\xc2\x80", b"\xdf\xbf", b"\xe0\xa0\x80", b"\xef\xbf\xbf", b"\xf0\x90\x80\x80",
            b"\xc3\x28", b"\xe2\x28\xa1", b"\xef\xbb\xbf", b"\xef\xbb", b"\xff\xfe", b"\xfe\xff", b"\x00", b"\x00\x00"]
    for _ in range(n):
        k = r.random()
        if k < 0.35:      # mostly-valid text with injected fragments
            parts = []
            for _ in range(r.randint(1, 6)):
                parts.append(r.choice([b"int a;", b"/* x */", b"a", b"\n", b" ", b"\"s\""]))
                if r.random() < 0.7:
                    parts.append(r.choice(frag))
            out.append(b"".join(parts))
        elif k < 0.55:    # UTF-16 shaped: BOM / BOM-less, odd length, lone surrogates, zero-count thresholds
            be = r.random() < 0.5
            units = []
            for _ in range(r.randint(0, 8)):
                units.append(r.choice([0x41, 0x3b, 0x20, 0xe9, 0x20ac, 0xd800, 0xdc00, 0xd83d, 0xde00, 0xdbff, 0xdfff, 0xfeff, 0xfffe, 0x0a, 0x100]))
            b = b"".join(u.to_bytes(2, "big" if be else "little") for u in units)
            if r.random() < 0.5:
                b = (b"\xfe\xff" if be else b"\xff\xfe") + b
            if r.random() < 0.2:
                b += b"\x41"
            if r.random() < 0.3:
                b += bytes(r.choice([0, 0x41, 0x80]) for _ in range(r.randint(0, 6)))
            out.append(b)
        elif k < 0.75:    # zero-count heuristic boundaries: n/4 < zeros <= n/2
            n_ = r.randint(1, 24)
            z = r.choice([n_ // 4, n_ // 4 + 1, n_ // 2, n_ // 2 + 1, 0, 1])
            z = max(0, min(n_, z))
            pos = set(r.sample(range(n_), z))
            even_only = r.random() < 0.5
            if even_only:
                pos = set(p for p in range(n_) if p % 2 == r.randint(0, 1))
            out.append(bytes(0 if i in pos else r.choice([0x41, 0x61, 0xe9, 0x3b]) for i in range(n_)))
        elif k < 0.9:     # random bytes, short
            out.append(bytes(r.randrange(256) for _ in range(r.randint(0, 12))))
        else:             # high bytes only
            out.append(bytes(r.choice([0x80, 0xbf, 0xc0, 0xc1, 0xc2, 0xdf, 0xe0, 0xef, 0xf0, 0xf4, 0xf5, 0xf7, 0xf8, 0xfb, 0xfc, 0xfd, 0xfe, 0xff]) for _ in range(r.randint(1, 7))))
    return out


def nontrivial(data):
    return any(b >= 0x80 or b == 0 for b in data)


def direct_oracle(data, o, impl):
    """Statement (d) evaluated on the implementation alone, default options only: refused, identical, or
    BOM-less UTF-16 gaining a BOM."""
    if o != ("i", 0, 0):
        return True
    if impl[0] == "R":
        return True
    out = impl[2]
    if out == data:
        return True
    if not data.startswith((b"\xff\xfe", b"\xfe\xff")) and out in (b"\xff\xfe" + data, b"\xfe\xff" + data):
        return True
    return False


def compare_case(rep, m, data, o, wd, label):
    impl = impl_codec(data, o, wd)
    mod = model_codec(m, data, o)
    rep.count(key=(data, o), nontrivial=nontrivial(data))
    rep.validated()
    same = (impl[0] == mod[0]) and (impl[0] == "R" or impl[2] == mod[1])
    ok_direct = direct_oracle(data, o, impl)
    if not ok_direct:
        rep.finding("altered:%s" % data[:16].hex(), "input bytes %s silently altered to %s" % (data[:32].hex(), impl[2][:32].hex()),
                    {"kind": "codec", "input_b64": b64(data), "opts": list(o), "impl": [impl[0], b64(impl[2]) if impl[0] == "W" else impl[1]],
                     "label": label})
    return same, impl, mod


def transcode_cases(tier, r):
    texts = [
        "/* café € \U0001F600 */\nint a ;\nchar *s = \"ü中文\" ;\n",
        "// Живи\nint   f( int x ){return x+1;}\n",
        "#define M \"é\"\nvoid g(){ if(a){b();}else{c();} }\n",
        "int été = 1; /* id \U00010348 */\n",
        "/* only ascii */\nint main(void) { return 0; }\n",
    ]
    n_extra = 6 if tier == "quick" else 60
    alphabet = ["é", "€", "\U0001F600", "中", "Ж", "﻿", "￿", "퟿", "", "\U0010FFFF", "x", " ", " ", " "]
    for _ in range(n_extra):
        cm = "".join(r.choice(alphabet) for _ in range(r.randint(1, 8)))
        st = "".join(r.choice(alphabet[:6] + ["a"]) for _ in range(r.randint(0, 5))).replace("﻿", "")
        texts.append("int v%d ; /* %s */ const char*p=\"%s\" ;\n" % (r.randint(0, 99), cm.strip() or "c", st))
    return texts


def run(rep, build, tier, seed):
    r = common.rng(seed, "C09")
    ps = common.proof_status("C09", build)
    proof_broken = ps["discharged"] < ps["obligations"] or bool(build["forbidden"]) or build.get("model") != "ok"
    corr_broken = []
    rep.cov["rule"] = ("exhaustive: every Unicode scalar value 1..0x10FFFF in one file per encoding (UTF-8, UTF-8+BOM, UTF-16LE/BE+BOM, ASCII) "
                       "through the real codec (hook) vs the extracted model; plus seeded malformed/boundary byte strings x 8 option "
                       "combinations; plus transcoding commutation on the real formatter. Non-trivial = contains a byte >= 0x80 or NUL.")
    rep.assumptions = ["Coq kernel 8.16.1 (vm_compute used in one witness theorem; no native_compute)",
                       "extraction (ExtrOcamlBasic only) + ocaml/driver.ml hex/int glue",
                       "hook UNC_VERIF_CODEC runs the real decode_unicode/BOM policy/write_char without the formatter",
                       "Python codecs as independent transcoder for the end-to-end oracle",
                       "file I/O of libc trusted; formatter independence from enc/bom is hypothesis F of the theorems (validated end-to-end)"]
    if build.get("uncrustify") != "ok" or build.get("model") != "ok":
        rep.unproved("build failed", "\n".join(build["errors"])[-3000:])
        return rep.finish(ps)
    m = common.Model()
    with tempfile.TemporaryDirectory(prefix="c09_", dir=common.WORK) as wd:
        # 1. exhaustive scalars per encoding, in chunks of 16384 scalars (the extracted model is not tail
        #    recursive: small files keep its stack shallow), 8 model processes in parallel
        from concurrent.futures import ThreadPoolExecutor
        import threading
        CH = 16384
        NSC = 0x110000 - 0x800 - 1          # non-NUL scalar values

        def scalar_at(k):                   # k-th non-NUL scalar value (0-based)
            c = k + 1
            return c if c < 0xD800 else c + 0x800
        jobs = []
        for kind in ["utf8", "utf8bom", "utf16le", "utf16be"]:
            for i in range(0, NSC, CH):
                jobs.append((kind, i, min(NSC, i + CH)))
        jobs.append(("ascii", 0, 127))
        tl = threading.local()
        models = []

        def work(job):
            kind, i, j = job
            cps = [scalar_at(k) for k in range(i, j)]
            if not hasattr(tl, "m"):
                tl.m = common.Model()
                models.append(tl.m)
                tl.wd = tempfile.mkdtemp(prefix="w", dir=wd)
            data = enc_file(cps, kind)
            impl = impl_codec(data, ("i", 0, 0), tl.wd)
            mod = model_codec(tl.m, data, ("i", 0, 0))
            ok_id = (impl[0] == "W" and impl[2] == data)
            same = (impl[0] == mod[0]) and (impl[0] == "R" or impl[2] == mod[1])
            return kind, i, len(cps), (None if ok_id else data), ok_id, same
        dist = {}
        with ThreadPoolExecutor(max_workers=8) as ex:
            for kind, i, ncps, data, ok_id, same in ex.map(work, jobs):
                rep.count(key=(kind, i), nontrivial=True, n=ncps)
                rep.validated()
                dist[kind] = dist.get(kind, 0) + ncps
                if not ok_id:
                    rep.finding("scalars:%s:%x" % (kind, i), "scalar values %s.. in %s are not reproduced" % (hex(scalar_at(i)), kind),
                                {"kind": "codec", "input_b64": b64(data), "opts": ["i", 0, 0], "label": "scalars-" + kind})
                if not same:
                    corr_broken.append("scalars-%s-%x" % (kind, i))
        for mm in models:
            mm.close()
        rep.cov["exhaustive_scalars"] = dist
        rep.sample({"case": "every non-NUL Unicode scalar value, %d per file, per encoding" % CH, "scalars_per_encoding": dist})
        # 2. malformed / boundary stream x options
        n = 1500 if tier == "quick" else 20000
        stream = malformed_stream(r, n)
        kinds = {"refused": 0, "identical": 0, "changed_by_option_or_bom": 0}
        for i, data in enumerate(stream):
            o = OPTS[i % len(OPTS)] if i % 3 else ("i", 0, 0)
            same, impl, mod = compare_case(rep, m, data, o, wd, "malformed")
            if impl[0] == "R":
                kinds["refused"] += 1
            elif impl[2] == data:
                kinds["identical"] += 1
            else:
                kinds["changed_by_option_or_bom"] += 1
            if not same:
                corr_broken.append("malformed:%s:%s" % (data.hex(), o))
                rep.sample({"disagreement": data.hex(), "opts": o, "impl": [impl[0], impl[2].hex() if impl[0] == "W" else impl[1]],
                            "model": [mod[0], mod[1].hex() if mod[0] == "W" else None]})
            if i < 2:
                rep.sample({"input": data.hex(), "opts": o, "impl": impl[0], "model": mod[0]})
        rep.cov["input_distribution"] = {"malformed_cases": n, "outcomes": kinds}
        # 3. end-to-end: formatting commutes with transcoding on the real formatter
        ncomm = 0
        for text in transcode_cases(tier, r):
            ref = None
            for kind in ["utf8", "utf8bom", "utf16le", "utf16be"]:
                cps = [ord(c) for c in text]
                if kind == "utf8" and cps and cps[0] == 0xFEFF:
                    continue
                data = enc_file(cps, kind)
                src = os.path.join(wd, "t.c")
                open(src, "wb").write(data)
                rc, out, err = run_unc(["-q", "-c", "/dev/null", "-l", "C", "-f", src])
                rep.count(key=(text, kind), nontrivial=True)
                ncomm += 1
                if rc != 0:
                    rep.finding("transcode-exit:%s" % kind, "valid %s file refused (exit %d)" % (kind, rc),
                                {"kind": "transcode", "text": text, "encoding": kind})
                    continue
                # decode output with python in the same encoding
                try:
                    if kind == "utf8":
                        dec = out.decode("utf-8")
                        hasbom = dec.startswith("﻿")
                    elif kind == "utf8bom":
                        hasbom = out.startswith(b"\xef\xbb\xbf")
                        dec = out[3:].decode("utf-8") if hasbom else None
                    elif kind == "utf16le":
                        hasbom = out.startswith(b"\xff\xfe")
                        dec = out[2:].decode("utf-16-le") if hasbom else None
                    else:
                        hasbom = out.startswith(b"\xfe\xff")
                        dec = out[2:].decode("utf-16-be") if hasbom else None
                except UnicodeDecodeError:
                    dec = None
                    hasbom = None
                if dec is None or (kind != "utf8" and not hasbom):
                    rep.finding("transcode-enc:%s" % kind, "output of a %s file is not %s / BOM missing" % (kind, kind),
                                {"kind": "transcode", "text": text, "encoding": kind, "out_b64": b64(out)})
                    continue
                if ref is None:
                    ref = (kind, dec)
                elif dec != ref[1]:
                    rep.finding("transcode-commute:%s" % hash(text), "format(transcode x) != transcode(format x): %s vs %s" % (ref[0], kind),
                                {"kind": "transcode", "text": text, "encoding": kind, "ref_encoding": ref[0],
                                 "out": dec, "ref_out": ref[1]})
        rep.cov["transcode_runs"] = ncomm
    # ---- character survival through the FORMATTER (the hook above bypasses it): code points of every low byte, at the end of
    # '//' comments, of block comments, of identifiers and of string literals - the positions where passes trim, strip or
    # compare characters.  Every code point >= 0x80 of the input must reappear in the output, in order.
    nsurv = 0
    with tempfile.TemporaryDirectory(prefix="c09s_", dir=common.WORK) as wd2:
        cfg2 = os.path.join(wd2, "e.cfg")
        open(cfg2, "w").write("")
        bases = [0x0100, 0x0400, 0x2000, 0x3000, 0x4E00, 0xFF00, 0x1F600] if tier == "quick" else list(range(0x0100, 0x3000, 0x100)) + [0x4E00, 0x9F00, 0xAC00, 0xFF00, 0x1F600, 0x20000, 0x10FF00]
        for base_cp in bases:
            cps = [base_cp + k for k in range(256) if not (0xD800 <= base_cp + k <= 0xDFFF) and base_cp + k not in (0x2028, 0x2029, 0x0085, 0xFEFF, 0xFFFE, 0xFFFF)
                   and not (0x2000 <= base_cp + k <= 0x200F) and base_cp + k not in (0x3000, 0x205F, 0x202F, 0x1680)]
            lines = []
            for cp in cps:
                ch = chr(cp)
                lines.append("int a%d; // end %s" % (cp, ch))
                lines.append("/* block %s */ int b%d;" % (ch, cp))
                lines.append("const char *s%d = \"%s\";" % (cp, ch))
                lines.append("int v%d%s;" % (cp, ch))
            text = "\n".join(lines) + "\n"
            for enc in ("utf-8", "utf-16-le"):
                data = (b"" if enc == "utf-8" else b"\xff\xfe") + text.encode(enc)
                fp = os.path.join(wd2, "s.c")
                open(fp, "wb").write(data)
                rc_, out, err = common.run_unc(["-q", "-c", cfg2, "-l", "C", "-f", fp], timeout=120)
                nsurv += 1
                rep.count(key=("survival", base_cp, enc), nontrivial=True)
                rep.validated()
                if rc_ != 0:
                    continue
                try:
                    dec = out.decode("utf-16") if enc != "utf-8" else out.decode("utf-8")
                except UnicodeDecodeError:
                    rep.finding("survival|undecodable|%x|%s" % (base_cp, enc), "formatter output for code points U+%04X.. (%s) is not valid %s" % (base_cp, enc, enc),
                                {"kind": "survival", "base": base_cp, "encoding": enc})
                    continue
                want = [c for c in text if ord(c) >= 0x80]
                got = [c for c in dec if ord(c) >= 0x80]
                if want != got:
                    k = next((i for i, (a, b) in enumerate(zip(want, got + [None] * len(want))) if a != b), 0)
                    rep.finding("survival|lost|%x|%s" % (base_cp, enc), "a character does not survive formatting (default configuration, %s): U+%04X is lost or changed "
                                "(%d of %d code points >= 0x80 come back; first difference at occurrence %d: a comment end, block comment, literal or identifier end)"
                                % (enc, ord(want[k]), len(got), len(want), k), {"kind": "survival", "base": base_cp, "encoding": enc})
    rep.cov["survival_runs"] = nsurv
    m.close()
    # verdict
    if corr_broken and not rep.violations:
        rep.unproved("correspondence Model/Codec.v <-> src/unicode.cpp + uncrustify_file() head",
                     "model and implementation differ on: %s" % corr_broken[:5])
    if proof_broken and not rep.violations:
        rep.unproved("proof obligations of Properties_C09.v (files: %s)" % ps["broken_files"],
                     (build.get("coq_log_tail") or "") + " forbidden=%s" % build["forbidden"])
    rep.cov["explanation"] = ("Theorems of Properties_C09.v re-checked by a full make; model/implementation compared on %d cases "
                              "(5 exhaustive scalar files + malformed stream); commutation oracle on %d real formatter runs."
                              % (rep.cov["traces_validated_against_impl"], ncomm))
    rep.cov["trusted_base"] = rep.assumptions
    rep.cov["exhaustive"] = False
    return rep.finish(ps)


def replay(rp, build):
    m = common.Model()
    with tempfile.TemporaryDirectory(prefix="c09r_", dir=common.WORK) as wd:
        if rp.get("kind") == "codec":
            data = unb64(rp["input_b64"])
            o = tuple(rp["opts"])
            impl = impl_codec(data, o, wd)
            mod = model_codec(m, data, o)
            print("input :", data.hex())
            print("impl  :", impl[0], impl[2].hex() if impl[0] == "W" else impl[1])
            print("model :", mod[0], mod[1].hex() if mod[0] == "W" else "")
            ok = direct_oracle(data, o, impl)
            print("property holds on this input" if ok else "VIOLATION reproduced")
            return 0 if ok else 1
        print(rp)
    return 1
