"""C08 — Line endings: one consistent terminator, and formatting commutes with it.
Theorems: coq/Properties/Properties_C08.v (output side, model B): every line break the writer emits is the configured
sequence; the symbol stream does not depend on the setting.  Input side: Model/NlAuto.v (terminator census + the decision of
newlines=auto; theorems: most frequent terminator, majority of any mixed text, conversion), tied on every run to the
dumped census / selected terminator.  CR/CRLF/LF handling inside the tokenizer's scanners and the middle passes are
NOT modelled: they are covered by the end-to-end oracle below (validated hypothesis, not a theorem).
Tie: Render correspondence on every run + oracles on real runs: format(convert(x)) == format(x) for LF/CRLF/CR/mixed
inputs under each fixed newlines setting; crlf output == lf output with terminators replaced; newlines=auto picks the
most frequent input terminator; no CR/LF byte outside a complete terminator in non-literal, non-comment output."""
import os
import re
import tempfile

from .. import common
from . import render_common as rc

LEVEL = "proof"
ASSUME = ["Coq kernel; extraction; driver glue; hooks", "input-side terminator handling of the scanners and the middle passes: validated end-to-end, not proved",
          "Model/NlAuto.v: the census is compared with the tokenizer's only on inputs whose terminators the tokenizer all sees as line breaks of its own (no backslash-newline, "
          "disabled region, multi-line literal or attribute); the decision is compared on the dumped census of every run",
          "comment writers are oracle segments"]
NLS = {"lf": b"\n", "crlf": b"\r\n", "cr": b"\r"}


def normalise(data):
    return data.replace(b"\r\n", b"\n").replace(b"\r", b"\n")


SKEWS = {"skew:crlf>cr": ("crlf", ["cr"]), "skew:cr>crlf": ("cr", ["crlf"]), "skew:lf>cr": ("lf", ["cr"]), "skew:crlf>cr>lf": ("crlf", ["cr", "cr", "lf"]),
         "skew:cr>lf": ("cr", ["lf"]), "skew:crlf>lf": ("crlf", ["lf"])}


def convert(r, data_lf, how):
    if how in NLS:
        return data_lf.replace(b"\n", NLS[how])
    if how in SKEWS:
        # a clear majority terminator plus a few others (about one line in six), never a CR directly before an empty LF line
        major, minors = SKEWS[how]
        parts = data_lf.split(b"\n")
        out, prev = b"", None
        for i, p in enumerate(parts[:-1]):
            k = minors[(i // 6) % len(minors)] if i % 6 == 5 else major
            if prev == "cr" and p == b"" and k == "lf":
                k = major if major != "lf" else "crlf"
            out += p + NLS[k]
            prev = k
        return out + parts[-1]
    parts = data_lf.split(b"\n")
    out = b""
    prev = None
    for i, p in enumerate(parts[:-1]):
        k = r.choice(["lf", "crlf", "cr"])
        if prev == "cr" and p == b"" and k == "lf":
            k = "crlf"          # CR + LF of an empty next line would read as one CRLF: keep the conversion injective
        out += p + NLS[k]
        prev = k
    return out + parts[-1]


LEADS = ["**", " *", "*", "*|", "##", "++", "\\\\", "|", "", "   ", "\t", "#", "+", " **", "* *"]


def comment_styles(r):
    """a translation unit whose block comments use every style of continuation lead"""
    out = []
    for k in range(r.randint(6, 12)):
        lead = r.choice(LEADS)
        first = r.choice(["", " banner", "* doc", "  text  ", "!"])
        body = [lead + r.choice([" line", "line", "", "  indented", " x  "]) for _ in range(r.randint(1, 4))]
        if r.random() < 0.2:
            body[0] = ""
        end = r.choice([" */", "*/", lead + "*/", "**/"])
        ind = r.choice(["", "", "    ", "\t"])
        cm = ind + "/*" + first + "\n" + "\n".join(ind + b for b in body) + "\n" + ind + end
        kind = r.random()
        if kind < 0.5:
            out.append(cm + "\nint v%d = %d;" % (k, k))
        elif kind < 0.8:
            out.append("void f%d(void)\n{\n%s\n\tint a = %d; %s\n}" % (k, cm, k, "/* t1\n" + lead + " t2 */" if r.random() < 0.5 else "// c"))
        else:
            out.append("#define M%d(a) \\\n  do { a; } \\\n  while (0)\n%s" % (k, cm))
    return ("\n".join(out) + "\n").encode()


def comment_cfg(r):
    opts = ["indent_columns=4"]
    for name, vals in [("cmt_indent_multi", ["true", "false"]), ("cmt_star_cont", ["true", "false"]), ("cmt_sp_before_star_cont", ["0", "1", "2"]),
                       ("cmt_sp_after_star_cont", ["0", "1"]), ("cmt_multi_check_last", ["true", "false"]), ("cmt_multi_first_len_minimum", ["1", "4"]),
                       ("cmt_reflow_mode", ["0", "1", "2"]), ("cmt_c_nl_start", ["true", "false"]), ("cmt_c_nl_end", ["true", "false"]),
                       ("cmt_convert_tab_to_spaces", ["true", "false"]), ("indent_with_tabs", ["0", "1", "2"])]:
        if r.random() < 0.3:
            opts.append("%s=%s" % (name, r.choice(vals)))
    return "\n".join(opts) + "\n"


NLAUTO_STATS = {"decision_compared": 0, "census_compared": 0, "auto_decisions": 0, "ties_in_census": 0}
NLAUTO_DIFF = []          # disagreements Model/NlAuto.v <-> tokenize() that are no failure of the property itself (tie order)
NLNAME = {"a": "lf", "d,a": "crlf", "d": "cr"}


def setting_of(case):
    st = getattr(case, "setting", None)
    if st is None:
        text = case.cfg_text if case.cfg_text is not None else open(case.cfg_path, errors="replace").read()
        m = re.findall(r"(?mi)^\s*newlines\s*=?\s*(\w+)", text)
        st = m[-1].lower() if m else "auto"
    return st if st in ("lf", "crlf", "cr", "auto") else None


def transparent(case):
    """every terminator of the input is a line break the tokenizer counts itself: generated programs and comment-style units
    without backslash-newline (directive continuations, continued // comments) and without disabled regions"""
    if not (case.label.startswith("gen:") or case.label.startswith("cmtstyle:")):
        return False
    d = case.data
    return b"INDENT-O" not in d and len(d) < 30000


def ask_nlauto(R, m):
    """worker-thread question to the extracted Model/NlAuto.v: decision on the dumped census, census of the input bytes"""
    st = setting_of(R.case)
    if R.hdr is None or st is None or "le" not in R.hdr:
        return
    le = R.hdr["le"].split(",")
    tr = transparent(R.case)
    R.nlauto = (st, tr, m.ask("nlauto %s %s %s %s %s" % (st, le[0], le[1], le[2], R.case.data.hex() if tr and R.case.data else "-")).split())


def nlauto_oracle(R, findings):
    na = getattr(R, "nlauto", None)
    if na is None:
        return
    st, tr, (sel, census, sel2) = na
    real = NLNAME.get(R.hdr.get("nl", "a"))
    le = [int(x) for x in R.hdr["le"].split(",")]
    NLAUTO_STATS["decision_compared"] += 1
    NLAUTO_STATS["census_compared"] += 1 if tr else 0
    NLAUTO_STATS["auto_decisions"] += 1 if st == "auto" else 0
    NLAUTO_STATS["ties_in_census"] += 1 if st == "auto" and sorted(le)[-1] == sorted(le)[-2] else 0
    if sel != real:
        cnt = dict(zip(("lf", "crlf", "cr"), le))
        if st != "auto":
            findings.append(("nlauto|fixed|%s" % st, "newlines=%s but the terminator selected is %s" % (st, real)))
        elif real is None or cnt[real] < max(le):
            findings.append(("nlauto|minority|%s" % real, "newlines=auto selects %s although the census (lf,crlf,cr)=%s has a more frequent terminator" % (real, le)))
        else:
            NLAUTO_DIFF.append("%s: census %s: tokenize() selects %s, Model/NlAuto.v select_le %s" % (R.case.label, le, real, sel))
    if tr and census != R.hdr["le"]:
        findings.append(("nlauto|census", "terminator census of the tokenizer (lf,crlf,cr)=%s differs from the input's %s (Model/NlAuto.v census_of) on an input without "
                         "backslash-newline, disabled region or multi-line literal" % (R.hdr["le"], census)))


def stray_oracle(R, findings):
    nlauto_oracle(R, findings)
    att = rc.attributed(R)
    nl = [int(x, 16) for x in R.hdr.get("nl", "a").split(",")]
    i = 0
    while i < len(att):
        cp, ty, idx, pre = att[i]
        if cp in (10, 13) and ty not in rc.OPAQUE:
            if [a[0] for a in att[i:i + len(nl)]] == nl:
                i += len(nl)
                continue
            findings.append(("stray|%s" % ty, "a bare %s byte written for a %s chunk (configured terminator %s)" % ("CR" if cp == 13 else "LF", ty, nl)))
        i += 1


def run(rep, build, tier, seed):
    r = common.rng(seed, "C08")
    rep.cov["rule"] = ("each base input (corpus slice, generated programs with comments, continuations and blank lines) is re-encoded with LF, CRLF, CR and a random "
                       "per-line mixture, formatted under newlines = lf / crlf / cr / auto; outputs are compared across the input variants and across the settings. "
                       "Non-trivial = more than 5 chunks were rendered.")
    if build.get("uncrustify") != "ok" or build.get("model") != "ok":
        rep.unproved("build failed", "\n".join(build["errors"])[-3000:])
        return rep.finish(common.proof_status("C08", build))
    nc, ng = (14, 10) if tier == "quick" else (400, 300)
    # generated programs first: the number of groups is capped below, and the corpus slice must not crowd them out
    base_cases = rc.generated_cases(r, ng, lambda rr, i: ("indent_columns=4\nindent_with_tabs=0\n", "g"),
                                    dict(indent="random", blank_max=2, comments=True)) + rc.corpus_cases(r, nc * 2)
    special = b"/* multi\n   line\n comment */\n#define M(a) \\\n  do { a; } \\\n  while (0)\nint f(void)\n{\n\tchar *s = \"x\"; // c1 \\\n continued\n\treturn 0;\n}\n/* *INDENT-OFF* */\n  int   keep ;\n/* *INDENT-ON* */\nint y;\n"
    base_cases.append(rc.Case("special", "C", "indent_columns=4\n", special))
    # continued directives whose text is kept as one body chunk (#pragma, #warning, unknown directives; every #define with
    # pp_ignore_define_body): the line break behind the backslash is looked for inside the body scanner
    ppc = (b"#pragma omp parallel for \\\n    schedule(static)\nvoid f(void)\n{\n#pragma unroll \\\n  4\n\tint a;\n}\n#warning first \\\n  second\n"
           b"#define M(a) \\\n  do { a; } \\\n  while (0)\n#region r \\\n  x\n#endregion\nint y;\n")
    # block comments whose second line is nothing but lead characters directly followed by the line break: calculate_comment_body_indent() scans that
    # line up to its terminator (round-5 seed: the scan no longer stopped at CR; only one of two random seeds drew such a comment)
    bare = (b"int a;\n\n/*\n**\n** some text\n** more\n*/\nint b;\n\nvoid f()\n{\n   /*\n   ##\n   ## in a body\n   */\n   int c;\n   /*\n    *\n    * one star\n    */\n"
            b"   int d; /* trailing\n             **\n             ** two */\n}\n/**\n***\n*** three\n***/\nint e;\n/*\n||\n|| bars\n*/\nint g;\n")
    base_cases.insert(0, rc.Case("cmt-bare-leader", "C", "indent_columns=4\n", bare))
    base_cases.insert(1, rc.Case("cmt-bare-leader-noindent", "C", "indent_columns=3\ncmt_indent_multi=false\n", bare))
    base_cases.insert(2, rc.Case("cmt-bare-leader-star", "CPP", "indent_columns=2\ncmt_star_cont=true\n", bare))
    base_cases.insert(0, rc.Case("pp-body-cont", "C", "indent_columns=4\n", ppc))
    base_cases.insert(1, rc.Case("pp-body-cont-ignore", "C", "indent_columns=4\npp_ignore_define_body=true\n", ppc))
    # block comments in every lead-character style: the comment writers look at the characters behind the first line break
    # (two lead characters, one, none, an empty second line), which is where a terminator can be taken for text
    for i in range(4 if tier == "quick" else 80):
        base_cases.insert(i, rc.Case("cmtstyle:%d" % i, r.choice(["C", "CPP"]), comment_cfg(r), comment_styles(r)))
    cases, groups = [], []
    for bc in base_cases:
        try:
            bc.data.decode("ascii")
        except UnicodeDecodeError:
            continue
        if tier == "quick" and len(bc.data) > 24000:
            continue          # the extracted Render model needs about a minute for a 50 kB file: such files are left to the thorough tier
        if b"\x00" in bc.data:
            continue          # UTF-16/32 without BOM decodes as ASCII with NULs: a byte-level terminator conversion would corrupt it
        lf = normalise(bc.data)
        if not lf.endswith(b"\n") or lf.count(b"\n") < 2:
            continue
        base_cfg = bc.cfg_text if bc.cfg_text is not None else open(bc.cfg_path, "rb").read().decode("latin1")
        base_cfg = re.sub(r"(?mi)^\s*newlines\b.*$", "", base_cfg)
        if re.search(r"(?mi)^\s*include\b", base_cfg):
            continue
        if len(groups) >= nc + ng + 1:
            break
        g = {"label": bc.label, "runs": {},
             "regions": bool(b"INDENT-OFF" in lf or re.search(r"(?mi)^\s*(disable_processing|enable_processing|processing_cmt)", base_cfg) or re.search(rb"#\s*pragma\s+asm|#\s*asm\b", lf))}
        for setting in ["lf", "crlf", "cr", "auto"]:
            for how in ["lf", "crlf", "cr", "mixed"]:
                c = rc.Case("%s|in=%s|newlines=%s" % (bc.label, how, setting), bc.lang, base_cfg + "\nnewlines = %s\n" % setting, convert(r, lf, how))
                c.group, c.setting, c.how = g, setting, how
                cases.append(c)
        # the majority is counted outside disabled regions: inputs/configurations with such regions are not used for the majority oracle
        if lf.count(b"\n") >= 12 and b"INDENT-OFF" not in lf and not re.search(r"(?mi)^\s*(disable_processing|enable_processing|processing_cmt)", base_cfg) \
                and not re.search(rb"#\s*pragma\s+asm|#\s*asm\b", lf):
            for how in SKEWS:
                data = convert(r, lf, how)
                for setting in ["auto", SKEWS[how][0]]:
                    c = rc.Case("%s|in=%s|newlines=%s" % (bc.label, how, setting), bc.lang, base_cfg + "\nnewlines = %s\n" % setting, data)
                    c.group, c.setting, c.how = g, setting, how
                    cases.append(c)
        groups.append(g)

    def oracle(R, findings):
        stray_oracle(R, findings)
        R.case.group["runs"][(R.case.setting, R.case.how)] = (R.rc, R.out, R.case)
    del NLAUTO_DIFF[:]
    for k in NLAUTO_STATS:
        NLAUTO_STATS[k] = 0
    corr = rc.explore(rep, cases, oracle, tier, "render", extra=ask_nlauto)
    corr = list(corr or []) + NLAUTO_DIFF[:3]
    rep.cov["input_distribution"] = {"nlauto_tie": dict(NLAUTO_STATS)}
    # cross-run comparisons
    for g in groups:
        runs = g["runs"]
        for setting in ["lf", "crlf", "cr"]:
            ref = runs.get((setting, "lf"))
            if ref is None or ref[0] != 0:
                continue
            for how in ["crlf", "cr", "mixed"]:
                o = runs.get((setting, how))
                rep.count(key=(g["label"], setting, how, "commute"), nontrivial=True)
                if o is None:
                    continue
                if o[0] != ref[0] or o[1] != ref[1]:
                    rep.finding("convert|%s|%s|%s" % (g["label"], setting, how),
                                "format(convert_%s(x)) differs from format(x) under newlines=%s for %s" % (how, setting, g["label"]),
                                {"kind": "format", "label": o[2].label, "lang": o[2].lang, "cfg": o[2].cfg_text, "cfg_path": None, "input_b64": common.b64(o[2].data)})
        a, b = runs.get(("lf", "lf")), runs.get(("crlf", "lf"))
        if a and b and a[0] == 0 and b[0] == 0 and a[1].replace(b"\n", b"\r\n") != b[1]:
            rep.finding("subst|%s" % g["label"], "output under crlf is not the lf output with terminators replaced for %s" % g["label"],
                        {"kind": "format", "label": b[2].label, "lang": b[2].lang, "cfg": b[2].cfg_text, "cfg_path": None, "input_b64": common.b64(b[2].data)})
        for how in SKEWS:
            au, fx = runs.get(("auto", how)), runs.get((SKEWS[how][0], how))
            if au and fx and au[0] == 0 and fx[0] == 0:
                rep.count(key=(g["label"], how, "auto-majority"), nontrivial=True)
                if au[1] != fx[1]:
                    rep.finding("auto-majority|%s|%s" % (g["label"], how), "newlines=auto on an input whose clear majority terminator is %s does not use it (%s, %s)"
                                % (SKEWS[how][0], how, g["label"]),
                                {"kind": "format", "label": au[2].label, "lang": au[2].lang, "cfg": au[2].cfg_text, "cfg_path": None, "input_b64": common.b64(au[2].data)})
        for how in ["lf", "crlf", "cr"]:
            au, fx = runs.get(("auto", how)), runs.get((how, how))
            if g.get("regions"):
                continue          # terminators inside disabled regions are not counted: the census of such a file is not its line count
            if au and fx and au[0] == 0 and fx[0] == 0 and au[1] != fx[1]:
                rep.finding("auto|%s|%s" % (g["label"], how), "newlines=auto on a pure %s input does not use %s for %s" % (how, how, g["label"]),
                            {"kind": "format", "label": au[2].label, "lang": au[2].lang, "cfg": au[2].cfg_text, "cfg_path": None, "input_b64": common.b64(au[2].data)})
    rep.sample({"groups": len(groups), "runs_per_group": 16, "example": groups[0]["label"] if groups else None})
    return rc.finish(rep, build, "C08", corr, "correspondence Model/Render.v <-> output.cpp (emitted code points) / Model/NlAuto.v <-> tokenize() (census, selected terminator)",
                     "Theorems of Properties_C08.v re-checked by make; %d inputs x 4 terminator encodings x 4 settings formatted; render correspondence, "
                     "NlAuto census/decision tie, stray-byte scan and cross-run equalities checked." % len(groups), ASSUME)


def replay(rp, build):
    return rc.replay_format(rp, stray_oracle, extra=ask_nlauto)
