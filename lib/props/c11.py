"""C11 — Files in one invocation are formatted independently of each other.
Theorems: coq/Properties/Properties_C11.v — a general frame theorem (coq/Model/Frame.v) and its instance over the
GENERATED inventory of every write to the global `cpd` (translator gen/gen_globals.py, re-run every run): each field
written while a file is processed is reset in uncrustify_end, prepared unconditionally per file, or justified.
Tie: translator + oracle: batch runs (positional and -F, with and without -l) over all ordered pairs of a pool of
files chosen to leave state behind (ends inside a directive / disabled region / #pragma asm, unbalanced #if, CRLF,
BOM, empty, Objective-C tokens under -l C, ...) compared byte for byte with single runs; the writer state at the end
of every file (spaces, last_char) is checked against the justification used in the instance."""
import itertools
import os
import shutil
import tempfile
from concurrent.futures import ThreadPoolExecutor

from .. import common, dumps

LEVEL = "proof"
ASSUME = ["Coq kernel (vm_compute over the generated inventory); translator gen/gen_globals.py (regex scan of every write of cpd.<field>; fails on writes outside recognised functions)",
          "static-storage variables outside cpd are inventoried by name (Gen/Globals.v static_vars) and reviewed one by one in FrameInst.v; what they hold is covered by the batch-vs-single oracle only; the option objects (temporarily changed by options_for_QT.cpp) likewise",
          "the reviewed justifications in coq/Proofs/FrameInst.v", "files on which a single run fails are not part of a batch (the process exits at the first failing file)"]

POOL = [
    ("plain.c", b"int   main(int argc,char**argv){if(argc>1){return  1;}\nreturn 0;}\n"),
    ("second.c", b"struct s { int a;  char *b; };\nstatic int f(struct s *p) { return p->a+1; }\n"),
    ("oc_tokens.c", b"char *s = @\"x\";\nint y;\n"),
    ("oc_msg.c", b"BOOL b = [x isEqual:y] && z;\nvoid f(){ x = ^{ return 1; }; }\n"),
    ("crlf.c", b"int a;\r\nvoid g(void)\r\n{\r\n  a++;\r\n}\r\n"),
    ("bom.c", b"\xef\xbb\xbfint b; /* \xc3\xa9 */\n"),
    ("empty.c", b""),
    ("ends_in_region.c", b"int a;\n/* *INDENT-OFF* */\n  int    keep  ;\n"),
    ("region_pair.c", b"/* *INDENT-OFF* */\n int  x ;\n/* *INDENT-ON* */\nint  y ;\n"),
    ("pragma_asm.c", b"int a;\n#pragma asm\n  mov  a, b\n"),
    ("guard_nonl.h", b"#ifndef G_H\n#define G_H\nint g;\n#endif"),
    ("pragma_nonl.c", b"int p;\n#pragma once"),
    ("define_nonl.c", b"int d;\n#define X 1"),
    ("unbalanced_if.c", b"#if A\nint u;\n"),
    ("unbalanced_else.c", b"#if A\nint u;\n#else\nint v;\n"),
    ("no_final_nl.c", b"int n;"),
    ("cpp_only.cpp", b"template<class T> class C { public: T v; C() : v() {} };\nnamespace n { int q; }\n"),
    ("java.java", b"class A { void f() { super.f(); int[] a = new int[3]; } }\n"),
    ("qt.cpp", b"void W::s() { connect(&m, SIGNAL(mapped(QString &)), this, SLOT(onEvt(QString &))); }\nint  after ;\n"),
    ("includes.c", b"#include \"b.h\"\n#include \"a.h\"\n#include <z.h>\nint i;\n"),
    # includes named after the file itself and after the other file: mod_sort_incl_import_prioritize_filename consults the file name
    ("alpha.c", b"#include \"zeta.h\"\n#include \"alpha.h\"\n#include \"beta.h\"\n\nint alpha(void)\n{\n   return 1;\n}\n"),
    ("beta.c", b"#include \"zeta.h\"\n#include \"alpha.h\"\n#include \"beta.h\"\n\nint beta(void)\n{\n   return 2;\n}\n"),
    ("tabs.c", b"\tint\tt;\n\tvoid h(void) {\n\t\tt = 1;\t// c\n\t}\n"),
    ("cmt_cr_end.c", b"int c; // trailing\r"),
    ("string_tab.cs", b"class K { string s = \"a\tb\"; }\n"),
    ("align.c", b"int a = 1;\nlong bbb = 22;\nstruct { int x; char yy; } v = { .x = 1, .yy = 2 };\n"),
]
CFG = "indent_columns=4\nindent_with_tabs=0\nsp_arith=force\nalign_assign_span=1\nmod_sort_include=true\nmod_sort_incl_import_prioritize_filename=true\nnl_max=2\nalign_struct_init_span=1\nstring_replace_tab_chars=true\n"


def run(rep, build, tier, seed):
    r = common.rng(seed, "C11")
    ps = common.proof_status("C11", build)
    proof_broken = ps["discharged"] < ps["obligations"] or bool(build["forbidden"]) or build.get("model") != "ok"
    rep.cov["rule"] = ("pool of %d files chosen to leave global state behind; all ordered pairs (quick: under -l C positional and without -l via -F; thorough adds -l CPP, "
                       "random triples/quadruples and both delivery forms for every pair); each file's batch output is compared byte for byte with its single-run output. "
                       "Non-trivial = every batch (each has a distinct ordered file sequence)." % len(POOL))
    rep.assumptions = ASSUME
    if build.get("uncrustify") != "ok":
        rep.unproved("build failed", "\n".join(build["errors"])[-3000:])
        return rep.finish(ps)
    ginfo = build.get("gen", {})
    gerr = [k for k, v in ginfo.items() if isinstance(v, dict) and "error" in v]
    base = tempfile.mkdtemp(prefix="c11_", dir=common.WORK)
    cfgp = os.path.join(base, "u.cfg")
    open(cfgp, "w").write(CFG)
    src = os.path.join(base, "src")
    os.makedirs(src)
    for n, d in POOL:
        open(os.path.join(src, n), "wb").write(d)
    # single runs (per language mode); files that fail alone are dropped from that mode
    modes = [("-lC", ["-l", "C"]), ("auto", [])] + ([("-lCPP", ["-l", "CPP"])] if tier == "thorough" else [])
    single = {}
    endstate_bad = []
    for mn, margs in modes:
        for n, d in POOL:
            wd = tempfile.mkdtemp(dir=base)
            rc_, out, err, prefix = dumps.run_with_dumps(["-q", "-c", cfgp] + margs + ["-f", os.path.join(src, n)], wd)
            single[(mn, n)] = (rc_, out)
            op = prefix + ".0.out"
            if rc_ == 0 and os.path.exists(op):
                recs = dumps.parse_out(op)
                if recs:
                    col, sp, last, dn = recs[-1]["post"]
                    if sp != 0 or last == 13:
                        endstate_bad.append((mn, n, sp, last))
            shutil.rmtree(wd, ignore_errors=True)
    for mn, n, sp, last in endstate_bad:
        rep.finding("endstate|%s|%s" % (mn, n), "after %s (%s) the writer is left with spaces=%d last_char=%d: the next file of a batch would start from it" % (n, mn, sp, last),
                    {"kind": "batch", "files": [n], "mode": mn})
    seqs = []
    names = [n for n, _ in POOL]
    for a, b in itertools.permutations(names, 2):
        seqs.append(("-lC", "positional", [a, b]))
        seqs.append(("auto", "F", [a, b]))
        if tier == "thorough":
            seqs.append(("-lC", "F", [a, b]))
            seqs.append(("auto", "positional", [a, b]))
            seqs.append(("-lCPP", "positional", [a, b]))
    for _ in range(60 if tier == "quick" else 1500):
        k = r.choice([3, 4, 5])
        seqs.append((r.choice([m[0] for m in modes]), r.choice(["positional", "F"]), [r.choice(names) for _ in range(k)]))

    def work(job):
        mn, how, files = job
        margs = dict(modes)[mn]
        ok_files = [f for f in files if single[(mn, f)][0] == 0]
        if len(ok_files) < 2:
            return job, None
        wd = tempfile.mkdtemp(dir=base)
        paths = []
        for i, f in enumerate(ok_files):
            os.makedirs(os.path.join(wd, str(i)))
            p = os.path.join(wd, str(i), f)          # same base name as in the single run: some options consult the file's name
            shutil.copy(os.path.join(src, f), p)
            paths.append(p)
        if how == "F":
            lst = os.path.join(wd, "list.txt")
            open(lst, "w").write("\n".join(paths) + "\n")
            args = ["-q", "-c", cfgp] + margs + ["--suffix", ".out", "-F", lst]
        else:
            args = ["-q", "-c", cfgp] + margs + ["--suffix", ".out"] + paths
        rc_, out, err = common.run_unc(args, timeout=60)
        res = []
        for f, p in zip(ok_files, paths):
            got = open(p + ".out", "rb").read() if os.path.exists(p + ".out") else None
            res.append((f, got))
        shutil.rmtree(wd, ignore_errors=True)
        return job, (rc_, ok_files, res)
    nb = 0
    with ThreadPoolExecutor(max_workers=8) as ex:
        for job, res in ex.map(work, seqs):
            mn, how, files = job
            if res is None:
                continue
            nb += 1
            rc_, ok_files, outs = res
            rep.count(key=(mn, how, tuple(ok_files)), nontrivial=True)
            rep.validated()
            for i, (f, got) in enumerate(outs):
                want = single[(mn, f)][1]
                if got != want:
                    rep.finding("batch|%s|%s" % (mn, "+".join(ok_files[:i + 1])),
                                "%s batch %s (%s): output of %s differs from its single run (%s)" % (how, " ".join(ok_files), mn, f, "missing" if got is None else "bytes differ"),
                                {"kind": "batch", "files": ok_files, "mode": mn, "how": how, "differs": f})
                    break
    shutil.rmtree(base, ignore_errors=True)
    rep.cov["generated"] = {k: v for k, v in ginfo.get("Globals.v", {}).items() if k != "changed"}
    rep.sample({"pool": names[:8], "batches": nb, "example": seqs[0]})
    rep.sample({"unjustified_candidates_from_translator": rep.cov["generated"].get("W_not_reset_or_prepared")})
    if gerr and not rep.violations:
        rep.unproved("translator no longer recognises the source", str({k: ginfo[k] for k in gerr})[:1500])
    if proof_broken and not rep.violations:
        rep.unproved("proof obligations of Properties_C11.v (files: %s): a field of the global state is written during processing and neither reset, prepared nor justified: %s"
                     % (ps["broken_files"], rep.cov["generated"].get("W_not_reset_or_prepared")), build.get("coq_log_tail", ""))
    rep.cov["explanation"] = ("C11_frame_instance re-proved over the regenerated inventory (%s fields, %s write sites); %d batches compared with single runs."
                              % (rep.cov["generated"].get("fields"), rep.cov["generated"].get("write_sites"), nb))
    rep.cov["trusted_base"] = ASSUME
    return rep.finish(ps)


def replay(rp, build):
    base = tempfile.mkdtemp(prefix="c11r_", dir=common.WORK)
    cfgp = os.path.join(base, "u.cfg")
    open(cfgp, "w").write(CFG)
    pool = dict(POOL)
    margs = {"-lC": ["-l", "C"], "auto": [], "-lCPP": ["-l", "CPP"]}[rp.get("mode", "-lC")]
    paths = []
    for i, f in enumerate(rp["files"]):
        os.makedirs(os.path.join(base, str(i)))
        p = os.path.join(base, str(i), f)
        open(p, "wb").write(pool[f])
        paths.append(p)
    common.run_unc(["-q", "-c", cfgp] + margs + ["--suffix", ".out"] + paths)
    bad = 0
    for f, p in zip(rp["files"], paths):
        rc_, out, err = common.run_unc(["-q", "-c", cfgp] + margs + ["-f", p])
        got = open(p + ".out", "rb").read() if os.path.exists(p + ".out") else None
        print(f, "same" if got == out else "DIFFERS")
        bad += got != out
    shutil.rmtree(base, ignore_errors=True)
    return 1 if bad else 0
