"""C18 — Indentation reflects block nesting.
Theorem: coq/Properties/Properties_C18.v (model B): the first chunk of a line is preceded by exactly (column - 1) columns of
whitespace.  The indent pass that computes the columns (indent.cpp, 4000 lines of heuristics) is NOT modelled: that
statement-start columns equal depth x indent_columns is the contract K_indent, evaluated on every explored run against the
generator's known nesting depth (validated, not proved); independence from the original indentation is validated by
formatting two random layouts of the same program.
Tie: Render correspondence + oracle."""
from .. import common, progs
from . import render_common as rc

LEVEL = "proof"
ASSUME = ["Coq kernel; extraction; driver glue; hooks", "the indent pass is covered by contract K_indent (generator depth vs. realised column) and the two-layout comparison, not by a theorem",
          "brace-indent style covered: indent_brace (closed form depth*indent_columns + statement-blocks*indent_brace); brace-less bodies count as one nesting level (virtual braces)"]


def cfg_fn(r, i):
    ic = r.choice([1, 2, 3, 4, 5, 7, 8, 16])
    iwt = r.choice([0, 0, 1, 2])
    ts = r.choice([ic, 8, 4, 3]) if iwt else 8
    ib = r.choice([0, 0, 0, 1, 2, 4, ic])
    cs = r.choice([0, 0, 1, 2, 3, 5])           # indent_case_shift: moves the 'case' lines only
    return ("indent_columns=%d\nindent_with_tabs=%d\noutput_tab_size=%d\ninput_tab_size=%d\nindent_brace=%d\nindent_case_shift=%d\n" % (ic, iwt, ts, r.choice([4, 8]), ib, cs),
            "ic%d-iwt%d-ts%d-ib%d-cs%d" % (ic, iwt, ts, ib, cs))


def width(ws, ts):
    col = 0
    for ch in ws:
        if ch == "\t":
            col = (col // ts + 1) * ts
        else:
            col += 1
    return col


def oracle(R, findings):
    lines = getattr(R.case, "lines", None)
    if lines is None:
        return
    vals = rc.cfg_values(R.case.cfg_path, R.case.cfg_text)
    ic, ts, ib = int(vals["indent_columns"]), int(vals["output_tab_size"]), int(vals["indent_brace"])
    cs = int(vals.get("indent_case_shift", "0"))
    out = R.out.decode("latin1").split("\n")
    if out and out[-1] == "":
        out = out[:-1]
    if len(out) != len(lines):
        findings.append(("lines", "line structure changed under a whitespace-only default configuration: %d lines in, %d out" % (len(lines), len(out))))
        return
    for n, (ln, o) in enumerate(zip(lines, out)):
        body = o.lstrip(" \t")
        ws = o[:len(o) - len(body)]
        if "".join(body.split()) != "".join(ln.toks):
            findings.append(("tokens", "line %d: tokens differ: %r vs %r" % (n + 1, body, " ".join(ln.toks))))
            return
        # closed form: one indent_columns per enclosing block, plus indent_brace per enclosing block that belongs to a statement
        want = ln.depth * ic + ln.nsb * ib + (cs if ln.kind == "case" else 0)
        got = width(ws, ts)
        if got != want:
            findings.append(("indent|%s|d%d" % (ln.kind, ln.depth), "line %d (%s, depth %d, %d statement blocks): leading width %d, expected depth x indent_columns "
                             "+ blocks x indent_brace (+ indent_case_shift on a case line) = %d: %r" % (n + 1, ln.kind, ln.depth, ln.nsb, got, want, o[:50])))


def run(rep, build, tier, seed):
    r = common.rng(seed, "C18")
    rep.cov["rule"] = ("generated block-structured C programs (if/else-if/else chains, while, for, do-while, switch/case, bare blocks, brace-less bodies; depth up to 6; "
                       "braces attached or on their own lines) with indent_brace in {0,1,2,4,indent_columns} and the closed-form column, whose input "
                       "indentation is randomised PER LINE (spaces and tabs), each formatted in two different layouts, x indent_columns in {1,2,3,4,5,7,8,16} x "
                       "indent_with_tabs 0..2 x output_tab_size. Non-trivial = more than 5 chunks were rendered.")
    if build.get("uncrustify") != "ok" or build.get("model") != "ok":
        rep.unproved("build failed", "\n".join(build["errors"])[-3000:])
        return rep.finish(common.proof_status("C18", build))
    ng = 70 if tier == "quick" else 2500
    cases = []
    pairs = []
    for i in range(ng):
        lines = progs.program(r, nfunc=r.randint(1, 2), max_depth=r.randint(2, 6), size=r.choice([10, 25, 40]), rich=True)
        if r.random() < 0.5:
            lines = progs.allman(lines)          # every brace on a line of its own
        cfg, tag = cfg_fn(r, i)
        joined = [progs.join_tokens(r, ln.toks, loose=True) for ln in lines]     # the two layouts differ in indentation only
        a = rc.Case("gen:%d:%s:A" % (i, tag), "C", cfg, progs.layout(r, lines, indent="random", tabs=True, joined=joined).encode("latin1"))
        b = rc.Case("gen:%d:%s:B" % (i, tag), "C", cfg, progs.layout(r, lines, indent="random", tabs=False, joined=joined).encode("latin1"))
        a.lines = b.lines = lines
        a.pair = b.pair = {}
        cases += [a, b]
        pairs.append(a.pair)

    def orc(R, findings):
        oracle(R, findings)
        R.case.pair[R.case.label[-1]] = (R.rc, R.out, R.case)
    corr = rc.explore(rep, cases, orc, tier, "render")
    for p in pairs:
        if "A" in p and "B" in p and p["A"][0] == 0 and p["B"][0] == 0 and p["A"][1] != p["B"][1]:
            c = p["B"][2]
            rep.finding("orig-dependence|%s" % c.label, "two layouts of the same program format differently (%s)" % c.label,
                        {"kind": "format", "label": c.label, "lang": "C", "cfg": c.cfg_text, "cfg_path": None, "input_b64": common.b64(c.data)})
    rep.sample({"config": cases[0].cfg_text, "input_head": cases[0].data[:160].decode("latin1")})
    return rc.finish(rep, build, "C18", corr, "correspondence Model/Render.v <-> output.cpp (emitted code points)",
                     "Theorem of Properties_C18.v re-checked by make; %d programs x 2 layouts: render correspondence, realised column vs generator depth, "
                     "layout independence." % ng, ASSUME)


def replay(rp, build):
    return rc.replay_format(rp, oracle)
