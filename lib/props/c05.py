"""C05 — Formatting is a fixed point.  Level: other.
Formal content: coq/Properties/Properties_C05.v - a formatter that lays a program out as a function of its tokens and
comments alone (H1) and preserves them (H2 = C02 + C03) is idempotent for histories of any length.  H1 is not a theorem
about uncrustify (it is false for configurations that keep the author's spacing): it is the claim made for the default
configuration and the curated profiles under /verif/profiles, validated directly here: pass 1 vs pass 2 vs pass 3 byte
for byte, plus --check on the pass-1 output; for other configurations only 'pass 2 accepts pass 1' (exit 0) is claimed.
The C/C++ corpus x profile set is enumerated (sampled in the quick tier); its individually listed exceptions are the
'fixpoint|profile|file' entries of known_findings.json."""
import os
import subprocess
import tempfile
import threading
from concurrent.futures import ThreadPoolExecutor

from .. import common, cprogs, progs
from . import lex_common as lx

LEVEL = "other"
PROFILES = os.path.join(common.ROOT, "profiles")
ASSUME = ["Coq kernel (reduction theorem only)", "idempotence itself is NOT proved: validated by running two and three passes on every explored input",
          "profiles: the built-in defaults (profiles/default.cfg, empty) and copies of etc/{ben,ben2,defaults,gnu-indent,klaus,xsupplicant}.cfg kept under /verif/profiles",
          "the corpus universe has individually listed exceptions (known_findings.json, keys fixpoint|<profile>|<file>)"]


def fmt(cfg, lang, data, extra=()):
    p = subprocess.run([common.UNC, "-q", "-c", cfg, "-l", lang] + list(extra), input=data, stdout=subprocess.PIPE, stderr=subprocess.PIPE, timeout=40)
    return p.returncode, p.stdout


def passes(cfg, lang, data, wd, strict):
    """returns (key, what) or None"""
    try:
        r1, o1 = fmt(cfg, lang, data)
        if r1 != 0:
            return "skip", None
        r2, o2 = fmt(cfg, lang, o1)
        if r2 != 0:
            return "pass2-refuses|%d" % r2, "the second pass exits %d on the first pass's output" % r2
        if not strict:
            return None, None
        if o2 != o1:
            k = 0
            while k < min(len(o1), len(o2)) and o1[k] == o2[k]:
                k += 1
            line = o1.count(b"\n", 0, k) + 1
            l1 = o1.split(b"\n")[line - 1] if line - 1 < o1.count(b"\n") + 1 else b""
            l2s = o2.split(b"\n")
            l2 = l2s[line - 1] if line - 1 < len(l2s) else b""
            import re
            sq = lambda x: re.sub(rb"[ \t]+", b"", x)
            if sq(l1) != sq(l2):
                cls = "lines" if sq(o1) == sq(o2) else "content"
            else:
                j = 0
                while j < min(len(l1), len(l2)) and l1[j] == l2[j]:
                    j += 1
                rest = l1[j:].lstrip(b" \t")
                rest2 = l2[j:].lstrip(b" \t")
                gap1, gap2 = len(l1[j:]) - len(rest), len(l2[j:]) - len(rest2)
                before = l1[:j].rstrip(b" \t")
                if rest.startswith((b"/*", b"//")):
                    # causes recorded as findings, each with its own class
                    glued = j > 0 and l1[j - 1:j] not in (b" ", b"\t") and gap1 == 0 and gap2 == 1
                    prev_line = o1.split(b"\n")[line - 2] if line >= 2 else b""
                    prev_cmt = prev_line.rstrip().endswith(b"*/") or b"//" in prev_line
                    if not before:
                        # a comment on a line of its own: indent_comment() may align it with the trailing comment above
                        cls = "wholeline-comment:after-trailing" if prev_cmt and prev_line.strip()[:2] not in (b"/*", b"//") else "wholeline-comment:other"
                    elif glued:
                        cls = "space-before-comment:zero-gap"    # pass 1 glues the comment to the code, pass 2 inserts the one blank
                    elif re.search(rb"(\}|\belse|#\s*endif|#\s*else)$", before):
                        cls = "trailing-comment:after-brace"     # the 'brace comment' class of align_trailing_comments()
                    else:
                        cls = "trailing-comment:column"
                elif re.match(rb"^[-+*/%&|^]?=(?!=)", rest):
                    cls = "alignment:assign"
                elif re.match(rb"^(\w+\s*[;,=)]|\*+\w)", rest):
                    cls = "alignment:other"
                else:
                    op = before[-1:] if before[-1:] and before[-1:] in b"*&^-+<>!~?:/%|" else rest[:1] if rest[:1] and rest[:1] in b"*&^-+<>!~?:/%|" else b"other"
                    cls = "spacing:" + op.decode()
            return "fixpoint:" + cls, "pass 2 differs from pass 1 at byte %d (line %d): %r vs %r" % (k, line, o1[max(0, k - 20):k + 20], o2[max(0, k - 20):k + 20])
        # --check on the formatted text
        f = os.path.join(wd, "chk.src")
        open(f, "wb").write(o1)
        p = subprocess.run([common.UNC, "-q", "-c", cfg, "-l", lang, "--check", f], stdout=subprocess.PIPE, stderr=subprocess.PIPE, timeout=40)
        if p.returncode != 0:
            return "check-fails", "--check exits %d on text that uncrustify has just produced with the same configuration" % p.returncode
        r3, o3 = fmt(cfg, lang, o2)
        if r3 != 0 or o3 != o2:
            return "fixpoint-3", "pass 3 differs from pass 2"
    except subprocess.TimeoutExpired:
        return "timeout", "a pass did not terminate in 40 s"
    return None, None


def commented(r, text):
    """re-indent a generated program by brace depth (tabs, 8 or 4 blanks per level - the profiles use other widths, so every
    line moves) and hang trailing comments on closing braces (gap 1-2: the 'brace comment' class of the aligner) and on
    statements (varied gaps): the layout of trailing comments is where the input's columns are most easily consulted"""
    unit = r.choice(["\t", " " * 8, " " * 4, "  "])
    out, depth, cont = [], 0, False
    for ln in text.split("\n"):
        st = ln.strip()
        if cont or st.startswith("#") or not st:
            cont = ln.endswith("\\")
            out.append(ln)
            continue
        cont = ln.endswith("\\")
        d = max(0, depth - (1 if st.startswith("}") else 0) - (1 if st.startswith(("case ", "default:")) else 0))
        depth += st.count("{") - st.count("}")
        line = unit * d + st
        if not cont and "/*" not in st and "//" not in st:
            if st in ("}", "};") and r.random() < 0.6:
                line += " " * r.randint(1, 2) + r.choice(["/* end */", "/* end of block */", "// end"])
            elif st.endswith((";", "{")) and r.random() < 0.3:
                line += r.choice([" ", "  ", "\t", " " * 10, "   "]) + r.choice(["/* t */", "// t", "/* a longer remark */"])
        out.append(line)
    return "\n".join(out)


UNIVERSE = 600


def gen_program(i):
    r = common.rng(0, "C05-universe-%d" % i)
    cpp = i % 2 == 1
    if i % 3 == 2:
        lines = progs.program(r, nfunc=r.randint(1, 3), max_depth=4, size=20, rich=True)
        src = progs.layout(r, lines, indent="random", tabs=True, comments=True, blank_max=2).encode("latin1")
    else:
        src = cprogs.program(r, nfunc=r.randint(1, 3), size=r.choice([8, 20]), cpp=cpp)
        if i % 3 == 1:
            src = commented(r, src)
        src = src.encode()
    return cpp, src


def run(rep, build, tier, seed):
    r = common.rng(seed, "C05")
    profiles = sorted(f for f in os.listdir(PROFILES) if f.endswith(".cfg"))
    rep.cov["rule"] = ("strict claim (pass 2 = pass 1 byte for byte, --check passes, pass 3 = pass 2) for the profile set %s: generated compilable C/C++ programs and "
                       "block-structured programs with random layout, and the C/C++ corpus files (all of them in the thorough tier, a sample in the quick tier; listed "
                       "exceptions reported as known findings); weak claim (pass 2 exits 0) for random whitespace and mod_ configurations. Non-trivial = pass 1 exits 0."
                       % [p[:-4] for p in profiles])
    ps = common.proof_status("C05", build)
    if build.get("uncrustify") != "ok":
        rep.unproved("build failed", "\n".join(build["errors"])[-3000:])
        return rep.finish(ps)
    ngen, ncor, nweak = (40, 120, 60) if tier == "quick" else (UNIVERSE, 100000, 1500)
    jobs = []
    # generated programs: a fixed, enumerated universe gen:0 .. gen:UNIVERSE-1 (program i depends on i alone, not on VERIF_SEED),
    # so that the pairs on which the unchanged tree is not a fixed point can be listed one by one, like those of the corpus;
    # the quick tier formats a seed-chosen sample of it, the thorough tier all of it
    for i in (sorted(r.sample(range(UNIVERSE), ngen)) if ngen < UNIVERSE else range(UNIVERSE)):
        cpp, src = gen_program(i)
        for p in profiles:
            jobs.append(("gen:%d|%s" % (i, p), os.path.join(PROFILES, p), None, "CPP" if cpp else "C", src, True, "fixpoint|%s|gen:%d" % (p[:-4], i)))
    # minimised inputs of earlier detections (seeded changes): they pass on the unchanged tree and run in every tier
    rdir = os.path.join(common.ROOT, "corpus", "c05")
    for fn in sorted(os.listdir(rdir)) if os.path.isdir(rdir) else []:
        for p in profiles:
            jobs.insert(0, ("regress:%s|%s" % (fn, p), os.path.join(PROFILES, p), None, "CPP" if fn.endswith((".cpp", ".h")) else "C",
                            open(os.path.join(rdir, fn), "rb").read(), True, "fixpoint|%s|regress:%s" % (p[:-4], fn)))
    seen, files = set(), []
    for lang, cfg, inp, suite, num in common.corpus():
        L = lang or common.lang_of_path(inp)
        if L in ("C", "CPP") and inp not in seen and os.path.getsize(inp) < 60000:
            seen.add(inp)
            files.append((L, inp))
    pairs = [(p, L, f) for p in profiles for L, f in files]
    if len(pairs) > ncor:
        pairs = r.sample(pairs, ncor)
    for p, L, f in pairs:
        rel = os.path.relpath(f, os.path.join(common.REPO, "tests", "input"))
        jobs.append(("corpus:%s|%s" % (rel, p), os.path.join(PROFILES, p), None, L, open(f, "rb").read(), True, "fixpoint|%s|%s" % (p[:-4], rel)))
    from . import c04
    for i in range(nweak):
        L, f = r.choice(files)
        cfg_text = "\n".join(lx.ws_config(r, r.choice([3, 10, 30])) + (c04.mod_config(r) if r.random() < 0.4 else [])) + "\n"
        jobs.append(("weak:%d" % i, None, cfg_text, L, open(f, "rb").read(), False, "weak"))
    base = tempfile.mkdtemp(prefix="c05_", dir=common.WORK)
    tl = threading.local()
    from collections import Counter
    stat = Counter()

    def work(job):
        label, cfgp, cfg_text, lang, data, strict, keybase = job
        if not hasattr(tl, "wd"):
            tl.wd = tempfile.mkdtemp(dir=base)
        if cfgp is None:
            cfgp = os.path.join(tl.wd, "u.cfg")
            open(cfgp, "w").write(cfg_text)
        key, what = passes(cfgp, lang, data, tl.wd, strict)
        return job, key, what
    with ThreadPoolExecutor(max_workers=14) as ex:
        for job, key, what in ex.map(work, jobs):
            label, cfgp, cfg_text, lang, data, strict, keybase = job
            rep.count(key=(label,), nontrivial=key != "skip")
            stat[key or "ok"] += 1
            if key == "skip":
                continue
            rep.validated()
            if key:
                if key == "pass2-refuses|78" or (key == "timeout" and "code_width" in (cfg_text or "")):
                    continue      # an inconsistent random draw (exit 78), or the code_width loop (C06 finding)
                if key.startswith("fixpoint") and strict:
                    k = keybase                       # (profile, corpus file) or (profile, gen:i): listed one by one
                    if key.startswith("fixpoint:"):
                        what = "[%s] %s" % (key.split(":", 1)[1], what)
                else:
                    import re as _re
                    m = _re.search(r"(?m)^code_width\s*=\s*(\d+)", cfg_text or "")
                    if key.startswith("pass2-refuses") and m and 0 < int(m.group(1)) < 20:
                        k = "pass2-refuses|code_width-tiny"
                    else:
                        k = "%s|%s" % (key, keybase)
                rep.finding(k, "%s: %s" % (label, what), {"kind": "c05", "label": label, "lang": lang, "cfg_path": cfgp if strict else None, "cfg": cfg_text,
                                                           "input_b64": common.b64(data), "strict": strict})
    import shutil
    shutil.rmtree(base, ignore_errors=True)
    rep.cov["input_distribution"] = {"jobs": len(jobs), "outcomes": dict(stat), "profiles": profiles, "corpus_pairs": len(pairs)}
    rep.sample({"label": jobs[0][0], "input_head": jobs[0][4][:200].decode("latin1")})
    if ps["discharged"] < ps["obligations"] and not rep.violations:
        rep.unproved("proof obligations of Properties_C05.v", build.get("coq_log_tail", ""))
    rep.cov["explanation"] = "Reduction theorem of Properties_C05.v re-checked by make; %d two/three-pass runs: %s." % (len(jobs), dict(stat))
    rep.assumptions = ASSUME
    rep.cov["trusted_base"] = ASSUME
    return rep.finish(ps)


def replay(rp, build):
    with tempfile.TemporaryDirectory(prefix="rr_", dir=common.WORK) as wd:
        cfgp = rp.get("cfg_path")
        if not cfgp:
            cfgp = os.path.join(wd, "u.cfg")
            open(cfgp, "w").write(rp.get("cfg") or "")
        key, what = passes(cfgp, rp["lang"], common.unb64(rp["input_b64"]), wd, rp.get("strict", True))
        if key and key != "skip":
            print("VIOLATION reproduced:", what)
            return 1
        print("property holds on this replay")
        return 0
