"""C04 — Code-modifying options change only the tokens they name.
Theorems: coq/Properties/Properties_C04.v — the checker c04_ok (Model/TokDiff.v) accepts exactly the pairs of token
streams related by a script that inserts/deletes tokens named by the enabled options and copies every other token in
order; with nothing named it demands equality.  The modifying passes are NOT modelled: every explored run is judged by
the extracted checker on the token streams obtained with the lexical specification LexC, plus structural oracles
(brace pairs removed only around a single statement; sorted lines are a permutation of whole lines).
Tie: LexC and the checker are executed (extracted) on every run; Render correspondence on the dumps."""
import re

from .. import common, lexc, progs
from . import lex_common as lx, render_common as rc

LEVEL = "proof"
ASSUME = ["Coq kernel; extraction; driver glue; hooks",
          "the modifying passes (braces.cpp, parens.cpp, semicolons.cpp, change_int_types.cpp, sorting.cpp ...) are judged on explored runs by the verified checker, not proved",
          "the table 'option -> tokens it may add or remove' (lib/props/c04.py NAMED) is read off the option documentation",
          "C family only (LexC); sorting options are judged on the multiset of whole lines"]

# option (regex on 'name=value') -> the token texts it is documented to add or remove
NAMED = [
    (r"mod_full_brace_(do|for|function|if|while|using)=(add|remove|force)", ["{", "}"]),
    (r"mod_full_brace_if_chain=[123]", ["{", "}"]),
    (r"mod_full_brace_if_chain_only=true", ["{", "}"]),
    (r"mod_full_brace_nl=[1-9]", ["{", "}"]),
    (r"mod_case_brace=(add|remove|force)", ["{", "}"]),
    (r"mod_paren_on_(return|throw)=(add|remove|force)", ["(", ")"]),
    (r"mod_full_paren_(if|assign|return)_bool=true", ["(", ")"]),
    (r"mod_remove_extra_semicolon=true", [";"]),
    (r"mod_pawn_semicolon=true", [";"]),
    (r"mod_remove_empty_return=true", ["return", ";"]),
    (r"mod_enum_last_comma=(add|remove|force)", [","]),
    (r"mod_(int_short|short_int|int_long|long_int|int_signed|signed_int|int_unsigned|unsigned_int)=(add|remove|force)", ["int"]),
    (r"mod_int_prefer_int_on_left=true", ["int"]),
    (r"mod_infinite_loop=[1-5]", ["for", "while", "do", "(", ")", ";", "1", "true"]),
    (r"mod_move_case_(break|return)=true", ["break", "return", ";", "}"]),       # the statement moves across the closing brace
]
SORTS = r"mod_sort_(include|import|using)=true"
DUP_INCLUDE = r"mod_remove_duplicate_include=true"


def named_tokens(cfg_text):
    lines = [re.sub(r"\s+", "", l) for l in (cfg_text or "").split("\n")]
    out = set()
    for pat, toks in NAMED:
        if any(re.fullmatch(pat, l) for l in lines):
            out.update(toks)
    return sorted(out), any(re.fullmatch(SORTS, l) for l in lines), any(re.fullmatch(DUP_INCLUDE, l) for l in lines)


def enc(tokens):
    return ";".join(",".join("%x" % ord(c) for c in t) for t in tokens) or "-"


def directive_lines(stream):
    """split a code stream into (ordinary tokens, [directive token tuples])"""
    code, dirs, cur = [], [], None
    for t, d in stream:
        if t == "<DIR>":
            cur = []
        elif t == "<EOD>":
            if cur is not None:
                dirs.append(tuple(cur))
            cur = None
        elif cur is not None and d:
            cur.append(t)
        else:
            if cur is not None:
                dirs.append(tuple(cur))
                cur = None
            code.append(t)
    if cur is not None:
        dirs.append(tuple(cur))
    return code, dirs


def removed_brace_pairs(a, b):
    """brace pairs of stream [a] that are gone in [b] (alignment by difflib): yields the tokens inside each"""
    import difflib
    pairs, st = {}, []
    for i, t in enumerate(a):
        if t == "{":
            st.append(i)
        elif t == "}" and st:
            pairs[st.pop()] = i
    gone = set()
    for tag, i1, i2, j1, j2 in difflib.SequenceMatcher(None, a, b, autojunk=False).get_opcodes():
        if tag in ("delete", "replace"):
            gone.update(i for i in range(i1, i2) if a[i] in "{}" and not (tag == "replace" and a[i] in b[j1:j2]))
    out = []
    for i in sorted(gone):
        if a[i] == "{" and i in pairs and pairs[i] in gone:
            j = pairs[i]
            if i > 0 and a[i - 1] == "{" and pairs.get(i - 1) == j + 1:
                continue          # '{ { ... } }': removing the inner or the outer pair gives the same tokens; the outer one holds one statement
            out.append(DBody(a[i + 1:j], a[j + 1] if j + 1 < len(a) else None))
    return out


class DBody(list):
    """tokens inside a removed brace pair; .after = the token that followed the closing brace"""
    def __init__(self, toks, after):
        list.__init__(self, toks)
        self.after = after


def open_if(tokens):
    """does the body end in an 'if' statement that has no 'else' of its own (at the body's top nesting level)?"""
    depth, ifs = 0, 0
    for t in tokens:
        if t in "([{":
            depth += 1
        elif t in ")]}":
            depth -= 1
        elif depth == 0 and t == "if":
            ifs += 1
        elif depth == 0 and t == "else":
            ifs -= 1
    return ifs > 0


def statements_in(tokens):
    """number of top-level statements of a brace body (braces of initialisers - not at a statement start - are not blocks)"""
    n, pdepth, pending = 0, 0, False
    stack = []              # True for a block brace, False for an initialiser brace
    for i, t in enumerate(tokens):
        prev = tokens[i - 1] if i else None
        if t in "([":
            pdepth += 1
            pending = True
        elif t in ")]":
            pdepth -= 1
        elif t == "{":
            stack.append(prev in (None, ";", "{", "}", ")", "else", "do", ":"))
            pending = True
        elif t == "}":
            block = stack.pop() if stack else True
            if not stack and pdepth == 0 and block:
                nxt = tokens[i + 1] if i + 1 < len(tokens) else None
                if nxt not in ("else", "while"):
                    n += 1
                    pending = False
        elif t == ";" and not stack and pdepth == 0:
            n += 1
            pending = False
        else:
            pending = True
    return n + (1 if pending else 0)


def judge(case, R, tin, tout, f):
    if tin is None:
        return
    from . import c02
    a, b = c02.norm_stream(lexc.code_stream(tin)), c02.norm_stream(lexc.code_stream(tout))
    named, sorts, dup = named_tokens(case.cfg_text)
    ca, da = directive_lines(a)
    cb, db = directive_lines(b)
    m = judge.model
    ans = m.ask("tokdiff %s %s %s" % (enc(named), enc(ca), enc(cb))).split()
    ls = "|leading-splice" if re.match(rb"^\s*\\\r?\n\s*#", case.data) else ""     # recorded cause: the file starts with a line splice in front of a directive
    if ans[0] != "1":
        keep = lambda s: [t for t in s if t not in named]
        ka, kb = keep(ca), keep(cb)
        k = lexc.first_diff(ka, kb)
        f.append(("tokens|%s%s" % ("defaults" if not named else "unnamed", ls), "tokens other than %s differ: at %d input %s, output %s" % (named or "none", k, ka[max(0, k - 3):k + 4], kb[max(0, k - 3):k + 4])))
    elif ans[1] == "1" and ans[2] != "1":
        f.append(("balance" + ls, "the input's brackets are balanced, the output's are not (options name %s)" % named))
    # directive lines: equal, or (sorting) a permutation, or (duplicate removal) a sub-multiset with only #include lines dropped
    strip_named = lambda ds: [tuple(t for t in d if t not in named) for d in ds]
    da, db = strip_named(da), strip_named(db)
    if da != db:
        from collections import Counter
        xa, xb = Counter(da), Counter(db)
        if sorts and xa == xb:
            pass
        elif dup and not (xb - xa) and all(d and d[0] in ("include", "import") for d in (xa - xb)) and (sorts or [d for d in da if d in xb] == db or True):
            pass
        elif sorts and dup and not (xb - xa) and all(d and d[0] in ("include", "import") for d in (xa - xb)):
            pass
        else:
            k = lexc.first_diff(da, db)
            f.append(("directives" + ls, "directive lines differ: input %s, output %s" % (da[k:k + 2], db[k:k + 2])))
    # mod_move_case_break: a 'break;' may only step left across the ONE closing brace in front of it (into the case's own block);
    # everything else keeps its order
    lines_ = [re.sub(r"\s+", "", l) for l in (case.cfg_text or "").split("\n")]
    if "mod_move_case_break=true" in lines_ and not [l for l in lines_ if l.startswith("mod_") and not l.startswith("mod_move_case_break")]:
        def strip_breaks(seq):
            rest, pos, k = [], [], 0
            while k < len(seq):
                if seq[k] == "break" and k + 1 < len(seq) and seq[k + 1] == ";":
                    pos.append(len(rest))
                    k += 2
                else:
                    rest.append(seq[k])
                    k += 1
            return rest, pos
        ra, pa = strip_breaks(ca)
        rb, pb = strip_breaks(cb)
        if ra != rb or len(pa) != len(pb):
            f.append(("move-case-break|order" + ls, "mod_move_case_break changed more than the position of 'break;' statements"))
        else:
            for x, y in zip(pa, pb):
                if not (y == x or (y == x - 1 and ra[y] == "}")):
                    f.append(("move-case-break|position" + ls, "a 'break;' moved from behind token %d to behind token %d of the remaining stream (%s | %s): only one step left across its block's '}' is a move into the case"
                              % (x, y, " ".join(ra[max(0, y - 4):y]), " ".join(ra[y:y + 4]))))
                    break
    # a brace pair may only be removed around a single statement
    if "{" in named and ans[0] == "1" and not sorts:
        for body in removed_brace_pairs(ca, cb):
            if statements_in(body) > 1:
                f.append(("braces-removed-around-block", "braces removed around %d statements: %s" % (statements_in(body), " ".join(body)[:120])))
                break
            if getattr(body, "after", None) == "else" and open_if(body):
                f.append(("dangling-else", "braces removed around an 'if' without 'else' although an 'else' follows the block: it now belongs to the inner if: %s"
                          % " ".join(body)[:120]))
                break


SHAPES = ["if (a) b = 1; else c = 2;", "if (a) { b = 1; c = 2; } else d = 3;", "if (a) if (b) c = 1; else d = 2;",
                                                       "if (a) { if (b) c = 1; } else d = 2;", "for (a = 0; a < 3; a++) if (b) break;", "if (a) { b = 1; } else if (c) { d = 2; e = 3; } else { f = 4; }",
                                                       "if (a) // note\n  b = 1;", "if (a > 0) // fast path\n{ g = 1; }", "for (a = 0; a < 3; a++) // loop\n{ b++; }", "while (a) // w\n{ a--; }",
                                                       "if (a) // c1\n{ b = 1; }\nelse // c2\n{ c = 2; }", "do // d\n{ a++; } while (a < 3);", "if (a) /* c */\n{ b = 1; }",
                                                       "if (a)\n{ b = 1; } // after", "if (a) {\n  b = 1; // inside\n}", "if (a)\n{ // first\n  b = 1;\n}", "else_less:\nif (a) { b = 1; }", "if (a) {\n#ifdef X\n b = 1;\n#endif\n}", "while (a) { /* only a comment */ }", "if (a) { b = 1; /* trailing */ }",
                                                       "if (a &&\n    b) { while (c) d--; } else { e = 1; }", "if (a) { for (i = 0;\n     i < 3; i++) b++; } else { c = 2; }",
                                                       "if (a ||\n    b) { c = 1; }", "if (a) { if (f(b,\n   c)) d = 1; }", "if (a) { switch (b) { case 1: c = 2; break; } } else { d = 3; }",
                                                       "while (a &&\n       b) { c--; }", "for (a = 0;\n     a < 3;\n     a++) { b++; }", "if (a) { while (f(b,\n    c)) d--; } else if (e) { g(1,\n 2); } else { h = 1; }",
                                                       "if (a) {\n/* *INDENT-OFF* */\n  b  =  1;\n/* *INDENT-ON* */\n  c = 2;\n}", "while (a) {\n// *INDENT-OFF*\n  b  =  1; c--;\n// *INDENT-ON*\n}", "if (a) for (i = 0; i < 2; i++) while (b) { if (c) d = 1; } else e = 2;", "if (a) while (b) { if (c) d = 1; } else e = 2;", "if (a) for (;;) { if (c) break; } else e = 2;",
                                                       "switch (a) { case 1: { b = 1; }\nbreak;\ncase 2: {\n c = 2; }\nbreak;\ncase 3:\n{\n d = 3;\n}\nbreak;\ndefault: { e = 4; } break; }", "switch (a) { case 1: { return b; }\ncase 2: {\n c = 2; }\nreturn c; }",
                                                       "if (a) { int v = 1; }", "if (a) { MACRO(b) }", "#define RET_A return a // result\nif (b) { RET_A; }", "#define BUMP if (a) b++ /* bump */\nBUMP;", "return (a);", "return a + 1;", "return (a) + (b);"]


# option pairs that only act together
COMBOS = [["mod_full_brace_if_chain=1", "mod_full_brace_nl_block_rem_mlcond=true"], ["mod_full_brace_if_chain=2", "mod_full_brace_nl_block_rem_mlcond=true"],
          ["mod_full_brace_if=remove", "mod_full_brace_nl_block_rem_mlcond=true"], ["mod_full_brace_for=remove", "mod_full_brace_while=remove", "mod_full_brace_nl_block_rem_mlcond=true"],
          ["mod_full_brace_if=remove", "mod_full_brace_if_chain_only=true", "mod_full_brace_if_chain=1"], ["mod_full_brace_if=add", "mod_full_brace_nl=2"],
          ["mod_paren_on_return=remove", "mod_full_paren_return_bool=true"], ["mod_full_paren_if_bool=true", "mod_full_paren_assign_bool=true"],
          ["mod_case_brace=remove", "mod_move_case_break=true", "mod_move_case_return=true"], ["mod_move_case_break=true"], ["mod_move_case_return=true"], ["mod_remove_empty_return=true", "mod_full_brace_function=add"]]


def mod_config(r):
    if r.random() < 0.25:
        return list(r.choice(COMBOS))
    opts = [o for o in lx.registry() if o["name"].startswith("mod_") and not o["name"].startswith(("mod_add_", "mod_sort_oc", "mod_pawn", "mod_sort_incl", "mod_sort_case"))]
    n = r.choice([1, 1, 2, 3, 6])
    out = []
    for o in r.sample(opts, n):
        if o["name"] == "mod_full_brace_nl":
            v = str(r.choice([1, 2, 3]))
        elif o["name"] == "mod_full_brace_nl_block_rem_mlcond":
            v = r.choice(["true", "false"])
        else:
            v = lx.value_for(r, o)
        out.append("%s=%s" % (o["name"], v))
    return out


def mod_program(r):
    """block-structured program with the shapes the mod_ options look for"""
    lines = progs.program(r, nfunc=r.randint(1, 2), max_depth=r.randint(2, 5), size=r.choice([10, 20, 30]), rich=True)
    if r.random() < 0.3:
        lines = progs.allman(lines)
    out = ["#include <b.h>", "#include \"a.h\"", "#include <b.h>", "#include <c.h> // last", "enum E { A, B%s };" % r.choice(["", ","]),
           "unsigned int u1; short int s1; long l1; unsigned u2; signed int g1; int long l2;", ""]
    for ln in lines:
        s = " " * (2 * ln.depth) + progs.join_tokens(r, ln.toks, loose=False)
        if r.random() < 0.15:
            s += r.choice(["  // note", " /* note */", " // x \\", "\t// t"]) if not s.endswith("\\") else ""
            if s.endswith("\\"):
                s += "\n"            # the comment swallows the next (empty) line
        out.append(s)
        k = r.random()
        if ln.kind == "stmt" and k < 0.08:
            out.append(" " * (2 * ln.depth) + ";")
        elif ln.kind == "stmt" and k < 0.14:
            out.append(" " * (2 * ln.depth) + r.choice(["for (;;) { a++; break; }", "while (1) { b--; break; }", "do { x1++; } while (1);", "while (true) break;"]))
        elif ln.kind == "stmt" and k < 0.2:
            out.append(" " * (2 * ln.depth) + r.choice(SHAPES))
    out.append("void g(void) { a = 1; return; }")
    out.append("void h(void) { if (a) { return; } b = 2; return ; }")
    return "\n".join(out) + "\n"


def make_cases(r, tier):
    ng, nc = (140, 50) if tier == "quick" else (3000, 900)
    cases = []
    for i in range(ng):
        cfg = mod_config(r) + (lx.ws_config(r, r.choice([0, 3, 10])) if r.random() < 0.6 else [])
        if i % 7 == 0:
            cfg = lx.ws_config(r, 10)                       # every mod_ option at its default
        cases.append(lx.LCase("gen:%d" % i, r.choice(["C", "CPP"]), "\n".join(cfg) + "\n", mod_program(r).encode("utf-8")))
    # every shape in one function, under every option combination and (thorough: every, quick: a sample of) single mod_ option values
    body = "\n".join("  " + sh.replace("\n", "\n  ") for sh in SHAPES)
    allshapes = ("int a, b, c, d, e, g, h, i, x1;\nvoid shapes(void)\n{\n%s\n}\n" % body).encode()
    singles = []
    for o in lx.registry():
        if o["name"].startswith("mod_") and not o["name"].startswith(("mod_add_", "mod_sort_oc", "mod_pawn", "mod_sort_incl", "mod_sort_case")):
            vals = ["add", "remove", "force"] if o["type"] == "iarf_e" else ["true"] if o["type"] == "bool" else ["1", "2", "3"]
            singles += [["%s=%s" % (o["name"], v)] for v in vals]
    chosen = COMBOS + (singles if tier != "quick" else r.sample(singles, 12))
    for k, combo in enumerate(chosen):
        for lang in ("C", "CPP"):
            cases.append(lx.LCase("shapes:%s" % ",".join(combo), lang, "\n".join(combo) + "\n", allshapes))
    # boolean expressions with nested groups - subscripts, calls, initialiser braces, templates, lambdas - that themselves hold comparisons, '?:', ',',
    # '&&', '||': the parenthesis adders must treat each group as one operand (round-5 seed: check_bool_parens() no longer skipped '[...]' and
    # wrote 'a[i) ? 1 : 2]'); every paren option singly and together, in every tier
    nested = ("int f(int *a, int i, int c, int d)\n{\n"
              "   if (c == a[i ? 1 : 2] || c)\n   {\n      return 1;\n   }\n"
              "   if (a[i == 1 && c] != 0 && d)\n      return 2;\n"
              "   while (c != g(i == 2, d ? 1 : 0) && d < a[i > 0 || c])\n      c--;\n"
              "   d = c == a[i, 1] || d != 3;\n"
              "   c = a[d < 2 ? i : 0] == 1 && g(c || d, 2) != 0;\n"
              "   return c == a[i && d ? 1 : 2] || d == g(a[i || c], c && d);\n}\n")
    nested_cpp = nested + ("bool h(int c, int d)\n{\n   auto l = [](int x) { return x == 1 || x > 3; };\n"
                           "   if (c == std::max<int>(d, 2) || l(c && d) != true)\n      return c == T<(1 > 0)>::v && d;\n"
                           "   return S{ c == 1 || d, 2 }.a != 0 || d;\n}\n")
    paren_opts = ["mod_full_paren_if_bool=true", "mod_full_paren_assign_bool=true", "mod_full_paren_return_bool=true"]
    for combo in [[o] for o in paren_opts] + [paren_opts, paren_opts + ["mod_paren_on_return=add"], paren_opts + ["mod_paren_on_return=remove", "mod_full_brace_if=add"]]:
        cases.append(lx.LCase("nested-groups:C:%s" % ",".join(combo), "C", "\n".join(combo) + "\n", nested.encode()))
        cases.append(lx.LCase("nested-groups:CPP:%s" % ",".join(combo), "CPP", "\n".join(combo) + "\n", nested_cpp.encode()))
    for i, c in enumerate(lx.corpus_cases(r, nc)):
        c.cfg_text = "\n".join(mod_config(r)) + "\n"
        cases.append(c)
    return cases


def run(rep, build, tier, seed):
    r = common.rng(seed, "C04")
    rep.cov["rule"] = ("generated block-structured C/C++ programs (if/else-if/else chains, dangling else, loops, switch/case, do-while, bare blocks, brace-less bodies with "
                       "comments and directives, '//' and block comments at line ends and between a statement head and its one-line '{ stmt; }' body, blocks with one and with several statements, macro calls without semicolon, infinite loops, empty and extra "
                       "semicolons, 'return;' at the end of void functions, parenthesised and plain returns, enum with/without trailing comma, int type spellings, "
                       "duplicate includes) and corpus files of the C family x 1-6 random mod_ options with random values plus up to 10 whitespace options; every "
                       "seventh generated case has all mod_ options at their defaults. Non-trivial = exit 0 and more than 5 chunks.")
    if build.get("uncrustify") != "ok" or build.get("model") != "ok":
        rep.unproved("build failed", "\n".join(build["errors"])[-3000:])
        return rep.finish(common.proof_status("C04", build))
    cases = make_cases(r, tier)
    stats = {"rc": {}}
    judge.model = common.Model()
    import threading
    lock = threading.Lock()
    base_ask = judge.model.ask

    def locked(q):
        with lock:
            return base_ask(q)
    judge.model.ask = locked
    corr = lx.explore(rep, cases, judge, stats)
    from collections import Counter
    used = Counter(l.split("=")[0] for c in cases for l in (c.cfg_text or "").split("\n") if l.startswith("mod_"))
    rep.cov["input_distribution"] = {"cases": len(cases), "exit_status": {str(k): v for k, v in stats["rc"].items()}, "mod_options_drawn": dict(used.most_common(60))}
    from .. import listops as _lo
    rep.cov["input_distribution"]["list_calls_judged_against_the_contract"] = dict(_lo.CALL_STATS)
    rep.sample({"config": cases[1].cfg_text, "input_head": cases[1].data[:300].decode("latin1")})
    return rc.finish(rep, build, "C04", corr, "correspondence Model/Render.v <-> output.cpp (emitted code points)",
                     "Theorems of Properties_C04.v re-checked by make; %d runs judged by the extracted checker c04_ok on LexC token streams (tokens named by the enabled "
                     "options taken out; bracket balance), directive-line multisets, and the single-statement rule for removed brace pairs." % len(cases), ASSUME)


def replay(rp, build):
    judge.model = common.Model()
    return lx.replay_with(rp, judge)
