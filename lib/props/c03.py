"""C03 — Comments and literals survive intact.
Theorems: coq/Properties/Properties_C03.v — output stage: a literal chunk (CT_STRING) is written verbatim, character by
character; the text of every chunk, the comment writers' segments included, is written exactly once and in order.
NOT modelled: the comment writers (output_comment_c/cpp/multi), the tokenizer's comment/literal scanners, the passes in
between.  On every explored run the comment sequence (normalised for the layout of continuation lines) and the literal
sequence (byte-exact) of input and output are compared, obtained with the lexical specification LexC for the C family and
with uncrustify's own tokenizer for the other languages.
Tie: Render correspondence on the dumps."""
import re
import tempfile

from .. import common, dumps, lexc, progs
from . import lex_common as lx, render_common as rc

LEVEL = "proof"
ASSUME = ["Coq kernel; extraction; driver glue; hooks",
          "comment writers, tokenizer scanners and middle passes are judged by the comment/literal sequence comparison on every run, not by theorems",
          "comment texts are compared modulo: leading/trailing blanks of each line, a repeated '//' leader on the continuation lines of a backslash-continued line comment",
          "other languages than C/C++/Objective-C: sequences taken from uncrustify's own tokenizer run on the output"]


def star_norm(c):
    k, lines = c
    if k != "b":
        return c
    return (k, tuple([lines[0]] + [re.sub(r"^\*(?!/)\s*", "* ", ln) for ln in lines[1:]]))


def cmp_comments(a, b, f, lang):
    if a == b:
        return
    sa, sb = [star_norm(x) for x in a], [star_norm(x) for x in b]
    k = lexc.first_diff(a, b)
    if sa == sb:
        f.append(("comment|star-leader", "%s: a block comment's continuation line '*text' was rewritten to '* text': in %r out %r" % (lang, a[k][1][:3], b[k][1][:3])))
        return
    if k < len(a) and k < len(b) and a[k][0] == "l" and re.search(r"(\\\\)+$", a[k][1][0]) and len(a[k][1]) > 1 and a[k][1][0] == b[k][1][0]:
        cls = "even-backslashes"          # '// ... \\\\' + line break: a splice by the languages' rules, not for uncrustify's tokenizer
    elif len(a) != len(b):
        cls = "count"
    elif a[k][0] != b[k][0]:
        cls = "kind"
    elif len(a[k][1]) != len(b[k][1]):
        cls = "lines"
    else:
        cls = "text"
    f.append(("comment|%s" % cls, "%s: comment %d of %d/%d differs: in %r out %r" % (lang, k + 1, len(a), len(b), a[k] if k < len(a) else None, b[k] if k < len(b) else None)))


def cmp_literals(a, b, f, lang):
    if a == b:
        return
    k = lexc.first_diff(a, b)
    x, y = (a[k] if k < len(a) else None), (b[k] if k < len(b) else None)
    if x is None or y is None or len(a) != len(b):
        cls = "count"
    elif re.sub(r"[ \t]", "", x[1]) == re.sub(r"[ \t]", "", y[1]):
        cls = "blanks|%s" % ("raw" if re.match(r"^(u8|u|U|L)?R\"", x[1]) else "plain")
    else:
        cls = "text"
    f.append(("literal|%s" % cls, "%s: literal %d of %d/%d differs: in %r out %r" % (lang, k + 1, len(a), len(b), x, y)))


def tok_comments(chunks):
    out = []
    for c in chunks:
        if c["type"] in ("COMMENT", "COMMENT_CPP", "COMMENT_MULTI"):
            t = dumps.text_str(c)
            out.append(lexc.norm_comment("l" if t.startswith("//") else "b", t))
    return out


def tok_literals(chunks):
    return [("S", dumps.text_str(c)) for c in chunks if c["type"] in ("STRING", "STRING_MULTI", "CHAR")]


def judge(case, R, tin, tout, f):
    if tin is not None:
        cmp_comments(lexc.comments(tin), lexc.comments(tout), f, case.lang)
        cmp_literals(lexc.literals(tin), lexc.literals(tout), f, case.lang)
    elif R.tok is not None:
        with tempfile.TemporaryDirectory(prefix="re_", dir=common.WORK) as wd:
            R2 = rc.run_case(wd, rc.Case("relex", case.lang, "", R.out), timeout=20)
            if R2.rc == 0 and R2.tok is not None:
                cmp_comments(tok_comments(R.tok), tok_comments(R2.tok), f, case.lang)
                cmp_literals(tok_literals(R.tok), tok_literals(R2.tok), f, case.lang)


def commented_program(r):
    """a block-structured program with a comment between random tokens of every line kind"""
    lines = progs.program(r, nfunc=r.randint(1, 2), max_depth=r.randint(2, 4), size=r.choice([8, 15]), rich=True)
    if r.random() < 0.4:
        lines = progs.allman(lines)
    out = []
    for ln in lines:
        toks = list(ln.toks)
        k = r.random()
        if k < 0.35:
            cm = r.choice(lx.COMMENTS)
            if cm.startswith("//"):
                out.append(" " * r.randint(0, 8) + progs.join_tokens(r, toks, loose=True) + r.choice(["", " ", "\t"]) + cm)
                continue
            pos = r.randint(0, len(toks))
            toks[pos:pos] = [cm]
            out.append(" " * r.randint(0, 8) + " ".join(toks))
            continue
        if k < 0.45:
            out.append(" " * r.randint(0, 12) + r.choice(lx.COMMENTS))
        if k < 0.55 and ln.kind == "stmt":
            toks[-1:-1] = ["+", r.choice(lx.LITERALS).replace("\n", " ")] if toks[-1] == ";" and "=" in toks else []
        out.append(" " * r.randint(0, 8) + progs.join_tokens(r, toks, loose=True))
    return "\n".join(out) + "\n"


def make_cases(r, tier):
    nc, ng, no = (60, 70, 30) if tier == "quick" else (1100, 1600, 500)
    cases = []

    def cfg_for(i):
        k = i % 5
        if k == 0:
            return "", "default"
        if k == 1:
            return "\n".join(lx.ws_config(r, r.choice([5, 15, 40]), aggressive=True)) + "\n", "random"
        if k == 2:
            return "\n".join(["indent_with_tabs=%d" % r.choice([0, 1, 2]), "indent_columns=%d" % r.choice([2, 3, 4, 8]), "align_with_tabs=%s" % r.choice(["true", "false"]),
                              "align_right_cmt_span=%d" % r.choice([0, 2, 5]), "align_keep_tabs=%s" % r.choice(["true", "false"]), "output_tab_size=%d" % r.choice([2, 4, 8])]
                             + lx.ws_config(r, 8, family="indent_") + lx.ws_config(r, 6, family="align_")) + "\n", "tabs-indent-align"
        if k == 3:
            return "\n".join(lx.ws_config(r, 30, family="nl_") + lx.ws_config(r, 8, family="pos_") + ["code_width=%d" % r.choice([30, 60, 100])]) + "\n", "nl-pos-width"
        return "\n".join(lx.all_sp(r.choice(["remove", "force"])) + lx.ws_config(r, 8)) + "\n", "sp-all"
    for i, c in enumerate(lx.corpus_cases(r, nc)):
        c.cfg_text, tag = cfg_for(i)
        c.label += ":" + tag
        cases.append(c)
    for i in range(ng):
        k = i % 3
        if k == 0:
            src, lang, kind = lx.literal_program(r, 10), "CPP", "literals"
        elif k == 1:
            src, lang, kind = commented_program(r), r.choice(["C", "CPP"]), "comments"
        else:
            src, lang, kind = lx.literal_program(r, 10, cpp=False), "C", "literals-c"
        cfg, tag = cfg_for(r.randrange(5))
        cases.append(lx.LCase("gen:%d:%s:%s" % (i, kind, tag), lang, cfg, src.encode("utf-8")))
    # fixed in every tier: every operator whose last character could open or extend a comment ('/', '*') or glue to one, directly in front of and
    # behind block and line comments, under "every sp_ option = remove" with the trailing-comment gap at 0 (round-4 seed: the '/'-before-comment guard of
    # space_text() folded into the punctuator lookup, which comment chunks never reach)
    opcmt = ("int ratio(int total, int parts)\n{\n    return total / /* never zero */ parts;\n}\n"
             "int scale(int v, int unit)\n{\n    int r = v / // per unit\n            unit;\n    return r; /* done */\n}\n"
             "int m(int a, int *p)\n{\n    int q = a * /* times */ *p;\n    q = a /* c1 */ / /* c2 */ 2;\n    q /= /* c3 */ 3;\n    q = a % // c4\n        2;\n"
             "    q = a - /* c5 */ -a;\n    q = a / /**/ 2 / // c6\n        3;\n    return q /* c7 */;\n}\n"
             "#define D(a, b) ((a) / /* in macro */ (b))\n#define E(a) ((a) / // tail\n")
    for j, extra in enumerate(["", "sp_before_tr_cmt=remove\nsp_num_before_tr_cmt=0\n", "sp_arith=remove\n", "sp_before_tr_cmt=remove\nsp_num_before_tr_cmt=0\nsp_arith=remove\nsp_assign=remove\n"]):
        for val in ("remove", "force"):
            cases.append(lx.LCase("fixed:op-comment:%s:%d" % (val, j), "C", "\n".join(lx.all_sp(val)) + "\n" + extra, opcmt.encode()))
    cases.append(lx.LCase("fixed:op-comment:plain-remove", "C", "sp_arith=remove\n", opcmt.encode()))
    cases.append(lx.LCase("fixed:op-comment:tr-remove", "C", "sp_before_tr_cmt=remove\nsp_num_before_tr_cmt=0\n", opcmt.encode()))
    for i, c in enumerate(lx.corpus_cases(r, no, langs=("CS", "D", "JAVA", "PAWN", "VALA", "ECMA"))):
        c.cfg_text, tag = cfg_for(i)
        c.label += ":" + tag
        cases.append(c)
    return cases


def run(rep, build, tier, seed):
    r = common.rng(seed, "C03")
    rep.cov["rule"] = ("corpus files of all languages; generated programs with every literal form (plain, escaped quotes and backslashes, real tabs, L/u/U/u8 prefixes, "
                       "raw strings with delimiters, inner quotes, tabs and line breaks, wide raw strings, character literals, header names with blanks, literals in "
                       "macro bodies) and with comments placed between random tokens of every statement kind (// and block comments, empty, multi-line with and "
                       "without star leaders, with tabs and non-ASCII text, ending in a backslash, after 'do' and 'if (..)', in macro bodies); x five families of "
                       "whitespace/newline/indent/align configurations with cmt_*, sp_cmt_cpp_*, string_* at their defaults. Non-trivial = exit 0 and more than 5 chunks.")
    if build.get("uncrustify") != "ok" or build.get("model") != "ok":
        rep.unproved("build failed", "\n".join(build["errors"])[-3000:])
        return rep.finish(common.proof_status("C03", build))
    cases = make_cases(r, tier)
    stats = {"rc": {}}
    corr = lx.explore(rep, cases, judge, stats)
    rep.cov["input_distribution"] = {"cases": len(cases), "exit_status": {str(k): v for k, v in stats["rc"].items()},
                                     "languages": {L: sum(1 for c in cases if c.lang == L) for L in sorted(set(c.lang for c in cases))}}
    from .. import listops as _lo
    rep.cov["input_distribution"]["list_calls_judged_against_the_contract"] = dict(_lo.CALL_STATS)
    rep.sample({"config_head": (cases[1].cfg_text or "")[:200], "input_head": cases[1].data[:200].decode("latin1")})
    return rc.finish(rep, build, "C03", corr, "correspondence Model/Render.v <-> output.cpp (emitted code points)",
                     "Theorems of Properties_C03.v re-checked by make; %d runs: comment and literal sequences of input vs output (LexC for the C family, uncrustify's "
                     "own tokenizer otherwise), Render correspondence." % len(cases), ASSUME)


def replay(rp, build):
    return lx.replay_with(rp, judge)
