"""C17 — Whitespace hygiene of the output.
Theorems: coq/Properties/Properties_C17.v over model B (coq/Model/Render.v).
Tie: the extracted Render model reproduces, code point for code point, what the real writer emitted for the dumped
chunk list (corpus slice + generated programs with randomised whitespace x tab/indent/align options).
Direct oracle on the real output, with every emitted character attributed to the chunk that produced it."""
from .. import common
from . import render_common as rc

LEVEL = "proof"
ASSUME = ["Coq kernel; extraction; driver glue; hooks H1 (dumps) and write_char recorder",
          "comment writers are oracle segments (not modelled); chunk texts free of leading/trailing blanks is the contract K_textws, evaluated by the oracle",
          "columns used are those at render time (after reindent_line)"]


def cfg_fn(r, i):
    iwt = r.choice([0, 1, 2])
    lines = ["indent_with_tabs=%d" % iwt, "indent_columns=%d" % r.choice([2, 3, 4, 8]), "output_tab_size=%d" % r.choice([2, 4, 8, 3]),
             "input_tab_size=%d" % r.choice([4, 8])]
    if r.random() < 0.5:
        lines.append("pp_indent_with_tabs=%d" % r.choice([-1, 0, 1, 2]))
    if r.random() < 0.4:
        lines.append("align_keep_tabs=true")
    if r.random() < 0.4:
        lines.append("align_with_tabs=true")
    if r.random() < 0.5:
        lines.append("nl_end_of_file=%s\nnl_end_of_file_min=%d" % (r.choice(["ignore", "add", "remove", "force"]), r.choice([0, 1, 2, 3])))
    if r.random() < 0.3:
        lines.append("align_assign_span=2\nalign_var_def_span=2")
    if r.random() < 0.3:
        lines.append("indent_continue=%d" % r.choice([2, 4, 6]))
    if r.random() < 0.3:
        lines.append("indent_single_newlines=true")          # blank lines are indented: the one case where a line may end in white space
    return "\n".join(lines) + "\n", "iwt%d" % iwt


PP_BLOCKS = [
    "#define V%d(x) \\\n        do { \\\n                (x)++; \\\n        } while (0)",
    "#define W%d(a, b) \\\n\t((a) + \\\n\t \t(b))",
    "#if defined(A%d)\n#  define K 1\n# if B\n  #   pragma pack(1)\n# else\n#define K2 (1 + \\\n   2)\n# endif\n#endif",
    "#ifdef D%d\n\t#include <stdio.h>\n  \t#define E(x) x\n#endif",
    "#pragma region r%d\n#pragma endregion",
]


def pp_decorate(r, data):
    """preprocessor lines between the lines of a generated program: multi-line macros whose continuation lines start beyond the
    first tab stop, nested conditionals (indented by pp_indent), and #if ... #endif wrapped around existing lines"""
    ls = data.decode("latin1").split("\n")
    ok = [k for k in range(1, len(ls)) if not ls[k - 1].rstrip().endswith("\\")]
    ins = {}
    for n in range(r.randint(2, 5)):
        if ok:
            ins.setdefault(r.choice(ok), []).append(r.choice(PP_BLOCKS) % n)
    if len(ok) > 4 and r.random() < 0.7:
        a, b = sorted(r.sample(ok, 2))
        ins.setdefault(a, []).append("#if WRAP")
        ins.setdefault(b, []).insert(0, "#endif")
    out = []
    for k, l in enumerate(ls):
        out.extend(ins.get(k, []))
        out.append(l)
    return "\n".join(out).encode("latin1")


def pp_cfg_fn(r, i):
    cfg, tag = cfg_fn(r, i)
    lines = ["pp_indent_with_tabs=%d" % r.choice([-1, 0, 0, 1, 2])]
    if r.random() < 0.7:
        lines.append("pp_indent=%s\npp_indent_count=%d" % (r.choice(["add", "force", "remove"]), r.choice([1, 2, 4, 8])))
    for name, vals in (("pp_indent_at_level", ["true", "false"]), ("pp_indent_at_level0", ["true", "false"]), ("pp_define_at_level", ["true", "false"]),
                       ("pp_indent_if", ["0", "1", "4"]), ("pp_indent_brace", ["-1", "0", "1"]), ("pp_indent_in_guard", ["true", "false"]),
                       ("pp_if_indent_code", ["true", "false"]), ("pp_multiline_define_body_indent", ["8", "2", "-4", "16"]), ("pp_ignore_define_body", ["true", "false"])):
        if r.random() < 0.3:
            lines.append("%s=%s" % (name, r.choice(vals)))
    if r.random() < 0.4:
        lines.append("pp_space_after=%s\npp_space_count=%d" % (r.choice(["add", "force", "remove"]), r.choice([0, 1, 3])))
    if r.random() < 0.5:            # the combination where the two policies differ most: tabs for code, blanks for directives
        cfg = cfg.replace("indent_with_tabs=%s" % cfg.split("\n")[0].split("=")[1], "indent_with_tabs=2", 1)
        lines[0] = "pp_indent_with_tabs=0"
    cfg = "\n".join(l for l in cfg.split("\n") if not l.startswith("pp_indent_with_tabs")) + "\n".join(lines) + "\n"
    return cfg, tag + "pp"


def oracle(R, findings):
    att = rc.attributed(R)
    newline = [int(x, 16) for x in R.hdr.get("nl", "a").split(",")]
    iwt = R.opts["indent_with_tabs"]
    ppiwt = R.opts["pp_indent_with_tabs"]
    if ppiwt == -1:
        ppiwt = iwt
    lines = rc.split_lines(att, newline)
    for n, (chars, term) in enumerate(lines):
        if not chars:
            continue
        cp, ty, idx, pre = chars[-1]
        if cp in (32, 9) and ty not in rc.OPAQUE and term is not None:
            if not (ty == "NEWLINE" and R.fin[idx]["nl_column"] > 1):
                findings.append(("trailing|%s" % ty, "output line %d ends in a blank written for a %s chunk: %r" % (n + 1, ty, "".join(chr(c[0]) for c in chars)[-40:])))
        lead = []
        for c in chars:
            if c[0] in (32, 9):
                lead.append(c)
            else:
                first = c
                break
        else:
            # a blank line that was indented on request (indent_single_newlines): written for a NEWLINE chunk outside directives,
            # its white space follows indent_with_tabs
            ws = [c for c in chars if c[1] == "NEWLINE" and not c[3]]
            if ws and len(ws) == len(chars):
                s_ = "".join(chr(c[0]) for c in ws)
                if iwt == 0 and "\t" in s_:
                    findings.append(("lead-tab|blank-line", "indent_with_tabs=0 but the indented blank line %d contains a tab: %r" % (n + 1, s_)))
                if iwt in (1, 2) and " \t" in s_:
                    findings.append(("space-tab|blank-line", "indent_with_tabs=%d but a space precedes a tab on the indented blank line %d: %r" % (iwt, n + 1, s_)))
            continue
        if first[1] in rc.OPAQUE:
            continue
        lead = [c for c in lead if c[1] not in rc.OPAQUE]
        which = ppiwt if first[3] else iwt
        s = "".join(chr(c[0]) for c in lead)
        if which == 0 and "\t" in s:
            findings.append(("lead-tab|%s" % first[1], "%s=0 but the indentation of output line %d contains a tab: %r" % ("pp_indent_with_tabs (effective)" if first[3] else "indent_with_tabs", n + 1, s)))
        if which in (1, 2) and " \t" in s:
            findings.append(("space-tab|%s" % first[1], "indent_with_tabs=%d but a space precedes a tab in the indentation of output line %d: %r" % (which, n + 1, s)))
    # end of file policy
    vals = rc.cfg_values(R.case.cfg_path, R.case.cfg_text)
    opt = vals.get("nl_end_of_file", "ignore")
    mn = int(vals.get("nl_end_of_file_min", "0") or 0)
    if R.hdr.get("frag") == "0" and att:
        tail = 0
        cps = [a[0] for a in att]
        k = len(cps)
        nl = newline
        while k >= len(nl) and cps[k - len(nl):k] == nl:
            tail += 1
            k -= len(nl)
        last_ty = att[-1][1]
        if last_ty not in rc.OPAQUE:
            if opt == "remove" and tail != 0:
                findings.append(("eof-remove", "nl_end_of_file=remove but the output ends with %d line break(s)" % tail))
            if opt == "force" and tail != mn and mn > 0:
                findings.append(("eof-force", "nl_end_of_file=force, min=%d but the output ends with %d line break(s)" % (mn, tail)))
            if opt == "add" and mn > 0 and tail < mn:
                findings.append(("eof-add", "nl_end_of_file=add, min=%d but the output ends with %d line break(s)" % (mn, tail)))


def run(rep, build, tier, seed):
    r = common.rng(seed, "C17")
    rep.cov["rule"] = ("corpus: seeded slice of the (language, config, input) triples of tests/*.test; generated: block-structured C programs whose "
                       "original whitespace is randomised (tabs after spaces, trailing blanks, whitespace-only lines) x random tab/indent/align options. "
                       "Non-trivial = more than 5 chunks were rendered.")
    if build.get("uncrustify") != "ok" or build.get("model") != "ok":
        rep.unproved("build failed", "\n".join(build["errors"])[-3000:])
        return rep.finish(common.proof_status("C17", build))
    nc, ng = (60, 60) if tier == "quick" else (2033, 1500)
    cases = rc.corpus_cases(r, nc) + rc.generated_cases(r, ng, cfg_fn, dict(indent="random", blank_max=3, tabs=True, trailing=True, comments=True))
    ppc = rc.generated_cases(r, ng // 3, pp_cfg_fn, dict(indent="random", blank_max=2, tabs=True, trailing=True, comments=True))
    for c in ppc:
        c.data = pp_decorate(r, c.data)
        c.label = c.label.replace("gen:", "genpp:")
    cases += ppc
    corr = rc.explore(rep, cases, oracle, tier, "render")
    rep.sample({"generated_config_example": cases[-1].cfg_text, "input_head": cases[-1].data[:120].decode("latin1")})
    return rc.finish(rep, build, "C17", corr, "correspondence Model/Render.v <-> output.cpp (emitted code points)",
                     "Theorems of Properties_C17.v re-checked by make; %d runs rendered by binary and model and scanned by the whitespace oracle." % rep.cov["evaluations"], ASSUME)


def replay(rp, build):
    return rc.replay_format(rp, oracle)
