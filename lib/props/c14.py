"""C14 — The backup always holds the last text uncrustify did not write itself.
Theorems: coq/Properties/Properties_C14.v over the content-level model coq/Model/Backup.v
(exact refinement for all histories of edits and completed runs; kill safety for all admissible histories).
Tie (three-way, every run): histories are executed with the REAL binary (--replace, two configurations, runs killed
at the phase boundaries through the interposer) and after every step (file, backup, md5 file) is compared with
Backup.step (extracted) and with the operation-level model FsProto.run (extracted)."""
import os
import shutil
import tempfile

from .. import common, fsrun
from . import fs_common as fc

LEVEL = "proof"
PHASES = ["C", "K0", "K1.3", "K2", "K3"]


class World:
    """contents of the three files; None = absent"""

    def __init__(self, file, backup=None, md5_of=None):
        self.file, self.backup, self.md5_of = file, backup, md5_of

    def key(self):
        return (self.file, self.backup, self.md5_of)


def real_md5_of(disk_md5, candidates):
    """which known content does the md5 file describe? returns bytes, None (absent) or 'unknown'"""
    if disk_md5 is None:
        return None
    hx = disk_md5[:32].decode("latin1")
    for c in candidates:
        if fsrun.md5hex(c) == hx and len(disk_md5) >= 32:
            return c
    return "unknown"


def crash_plan_for(phase, trace):
    """logical-op index at which to kill so that the run stops in the given phase (FsProto trace of the no-fault run)"""
    def idx(pred):
        return next((i for i, t in enumerate(trace) if pred(t)), None)
    if phase == "C":
        return []
    if phase == "K0":
        k = idx(lambda t: t.startswith("fopen-w backup"))
        if k is None:
            k = idx(lambda t: t.startswith("fopen-w tmp"))
        return [(k, "crash")] if k is not None else []
    if phase.startswith("K1"):
        k = idx(lambda t: t.startswith("write backup"))
        if k is None:   # no backup due: behaves like K0
            k = idx(lambda t: t.startswith("fopen-w tmp"))
            return [(k, "crash")] if k is not None else []
        return [(k, "crashw=%s" % phase[3:])]
    if phase == "K2":
        k = idx(lambda t: t.startswith("fopen-w md5"))
        if k is None:
            k = idx(lambda t: t.startswith("fopen-w tmp"))
            return [(k + 1, "crash")] if k is not None else []
        return [(k, "crash")]
    if phase == "K3":
        k = idx(lambda t: t.startswith("rename tmp") or t.startswith("unlink tmp"))
        if k is None:
            return []
        # the compare (stat/open/read/close) happens between the md5 write and the rename: kill just before the rename/unlink
        return [(k, "crash")]
    raise ValueError(phase)


def run(rep, build, tier, seed):
    ps = common.proof_status("C14", build)
    proof_broken = ps["discharged"] < ps["obligations"] or bool(build["forbidden"]) or build.get("model") != "ok"
    rep.cov["rule"] = ("all histories up to length L (quick 3, thorough 4) over events {user writes U1, U2, the formatted text, the current "
                       "content again; --replace with config A / B, completed or killed in phase K0/K1/K2/K3} executed on the real binary; "
                       "after every step file/backup/md5 are compared with Backup.step and FsProto.run. Non-trivial = history contains at "
                       "least two runs.")
    rep.assumptions = ["Coq kernel; extraction; driver glue; interposer for kills", "MD5 abstracted as injective digest (h_inj is a Section hypothesis); compared with hashlib on explored runs",
                       "an edit that retypes exactly the recorded output of uncrustify is indistinguishable from no edit (excluded by 'admissible')"]
    if build.get("uncrustify") != "ok" or build.get("model") != "ok":
        rep.unproved("build failed", "\n".join(build["errors"])[-3000:])
        return rep.finish(ps)
    m = common.Model()
    L = 3 if tier == "quick" else 4
    corr = []
    nsteps = [0]
    with tempfile.TemporaryDirectory(prefix="c14_", dir=common.WORK) as wd:
        base = os.path.join(wd, "run")
        U1 = b"int   a;\nvoid f(){return;}\n"
        U2 = b"int  b =1;\n"
        cfgs = {"A": fc.CFG_A, "B": fc.CFG_B}
        fcache = {}

        def fmt(cfg, content):
            k = (cfg, content)
            if k not in fcache:
                fcache[k] = fc.formatted_of(content, cfgs[cfg], wd)
            return fcache[k]
        FA = fmt("A", U1)
        known = set([U1, U2, FA])
        events = [("E", U1), ("E", U2), ("E", FA), ("E", None)] + [("R", c, p) for c in "AB" for p in PHASES]
        if tier == "quick":
            events = [("E", U2), ("E", FA), ("E", None)] + [("R", c, p) for c in "AB" for p in PHASES]

        def hx(b):
            return "none" if b is None else (b.hex() if b else "-")

        def unhx(s):
            return None if s == "none" else (b"" if s == "-" else bytes.fromhex(s))

        def step_impl(w, ev):
            """execute one event on the real binary from world w; returns observed World"""
            if ev[0] == "E":
                c = w.file if ev[1] is None else ev[1]
                return World(c, w.backup, w.md5_of), None, None
            cfg, ph = ev[1], ev[2]
            out = fmt(cfg, w.file)
            scn = fsrun.Scenario(fsrun.mode_for("replace"), w.file, cfgs[cfg], backup=w.backup, md5_of=w.md5_of, argv_style="replace", lang="C")
            M0 = fsrun.run_model(m, scn, out, [])
            plan = crash_plan_for(ph, M0["trace"])
            I = fsrun.run_impl(base, scn, plan)
            MF = fsrun.run_model(m, scn, out, plan)
            known.add(w.file)
            if out is not None:
                known.add(out)
            md = real_md5_of(I["disk"]["md5"], known)
            return World(I["disk"]["in"], I["disk"]["backup"], md), (I, MF, scn, out, plan), out

        def step_model(state, ev, w):
            """Backup.step on (file, backup, complete, md5_of, prot)"""
            fl, bk, cpl, md, prot = state
            if ev[0] == "E":
                c = fl if ev[1] is None else ev[1]
                evs = "E:%s" % (c.hex() if c else "-")
            else:
                out = fmt(ev[1], fl)
                evs = "R:%s:%s" % ("FAIL" if out is None else (out.hex() if out else "-"), ev[2])
            ans = m.ask("backup_step %s %s %d %s %s %s" % (fl.hex() if fl else "-", hx(bk), 1 if cpl else 0, hx(md), prot.hex() if prot else "-", evs))
            if ans.startswith("ERR"):
                raise RuntimeError(ans)
            a = ans.split()
            return int(a[0]), (unhx(a[1]) or b"", unhx(a[2]), a[3] == "1", unhx(a[4]), unhx(a[5]) or b"")

        def ghost_step(g, ev, w_file):
            """independent (Python) statement of the property for completed-run histories: (last, pristine)"""
            last, prist = g
            if ev[0] == "E":
                return g
            out = fmt(ev[1], w_file)
            if last != w_file:
                prist = w_file
            if out is None:
                return (last, prist)
            return (out, prist)

        def explore(w, mstate, ghost, hist, depth, admissible_so_far, only_completed):
            for ev in events:
                nsteps[0] += 1
                w2, detail, out = step_impl(w, ev)
                adm, ms2 = step_model(mstate, ev, w)
                h2 = hist + [ev if ev[0] == "R" else ("E", "same" if ev[1] is None else ev[1][:12].decode("latin1"))]
                nruns = sum(1 for e in h2 if e[0] == "R")
                rep.count(key=tuple(map(str, h2)), nontrivial=nruns >= 2)
                rep.validated()
                # 1. binary vs Backup.step
                mf, mb, mc, mm, mp = ms2
                diffs = []
                if w2.file != mf:
                    diffs.append("file %r vs model %r" % (w2.file[:30] if w2.file else w2.file, mf[:30]))
                if (w2.backup is None) != (mb is None) or (mb is not None and not (w2.backup == mb or (not mc and mb.startswith(w2.backup)))):
                    diffs.append("backup %r vs model %r (complete=%s)" % (w2.backup, mb, mc))
                if w2.md5_of != mm:
                    diffs.append("md5 describes %r vs model %r" % (w2.md5_of, mm))
                # 2. binary vs FsProto.run (operation level)
                if detail is not None:
                    I, MF, scn, o, plan = detail
                    d2 = fsrun.disk_agrees(I["disk"], MF["disk"])
                    if I["trace"] != MF["trace"]:
                        d2.append("trace differs")
                    if d2:
                        diffs.append("FsProto: %s" % d2[:2])
                if diffs:
                    corr.append((h2, diffs))
                # 3. direct oracles on the real files
                completed = only_completed and (ev[0] == "E" or ev[2] == "C")
                g2 = ghost_step(ghost, ev, w.file)
                adm_all = admissible_so_far and bool(adm)
                if completed and ev[0] == "R":
                    last, prist = g2
                    if w2.backup != prist:
                        rep.finding("exact|%s" % h2, "after history %s the backup holds %r, not the text before the earliest run since the last edit %r"
                                    % (h2, w2.backup, prist), {"kind": "history", "history": [list(map(str, e)) for e in h2]})
                    if out is not None and w2.md5_of != w2.file:
                        rep.finding("md5|%s" % h2, "after history %s the md5 file does not describe the file content" % h2,
                                    {"kind": "history", "history": [list(map(str, e)) for e in h2]})
                if adm_all:
                    prot = mp
                    ok = (w2.backup == prot) or (w2.file == prot and w2.md5_of != w2.file)
                    if not ok:
                        rep.finding("protected|%s" % h2, "after admissible history %s the user's text %r is neither in the backup nor in the file"
                                    % (h2, prot[:30]), {"kind": "history", "history": [list(map(str, e)) for e in h2]})
                elif ev[0] == "R" and ev[2] == "C" and w.md5_of != w.file and w.backup is not None and w2.backup == w.file and w.file in outputs:
                    # the known kill window: a completed run backed up uncrustify's own earlier output
                    rep.finding("kill-window", "run killed between the md5 write and the rename, next run backs up uncrustify's own output (history %s)" % h2,
                                {"kind": "history", "history": [list(map(str, e)) for e in h2]})
                if ev[0] == "R" and out is not None:
                    outputs.add(out)
                if len(rep.cov["samples"]) < 3 and nruns >= 2:
                    rep.sample({"history": [list(map(str, e)) for e in h2], "file": w2.file.decode("latin1"), "backup": None if w2.backup is None else w2.backup.decode("latin1"),
                                "md5_describes_file": w2.md5_of == w2.file})
                if depth > 1:
                    explore(w2, ms2, g2, h2, depth - 1, adm_all, completed)

        outputs = set()
        w0 = World(U1)
        explore(w0, (U1, None, False, None, U1), (None, None), [], L, True, True)
        # ---- the digest itself (the model abstracts MD5 as an injective function): files whose formatted size sits on and
        # around the block boundaries of MD5 (64 bytes) and of the 4096-byte read buffer; the md5 file must hold MD5(FILE),
        # a second run without an edit keeps the backup, a same-size edit of the last bytes is backed up
        import hashlib
        ddir = os.path.join(wd, "digest")
        cfgd = os.path.join(wd, "d.cfg")
        open(cfgd, "w").write("")
        for n in (55, 56, 63, 64, 65, 119, 120, 127, 128, 129, 256, 4095, 4096, 4097, 8192, 9000):
            shutil.rmtree(ddir, ignore_errors=True)
            os.makedirs(ddir)
            fpath = os.path.join(ddir, "f.c")
            Fn = b"int a;\n/* " + b"x" * (n - 14) + b" */\n"
            Un = b"int   a;\n/* " + b"x" * (n - 14) + b" */\n"
            assert len(Fn) == n
            open(fpath, "wb").write(Un)
            rd = lambda q: open(q, "rb").read() if os.path.exists(q) else None
            common.run_unc(["-q", "-c", cfgd, "--replace", fpath])
            rep.count(key=("digest", n), nontrivial=True)
            rep.validated()
            md5f = rd(fpath + ".unc-backup.md5~")
            if rd(fpath) != Fn:
                continue                      # the formatter did something unexpected with this text: not the question here
            if md5f is None or hashlib.md5(Fn).hexdigest().encode() not in md5f.lower():
                rep.finding("digest|md5-file|%d" % n, "after --replace of a file whose formatted text has %d bytes the md5 file does not hold MD5 of the file: %r" % (n, (md5f or b"")[:40]),
                            {"kind": "digest", "size": n})
                continue
            common.run_unc(["-q", "-c", cfgd, "--replace", fpath])
            if rd(fpath + ".unc-backup~") != Un:
                rep.finding("digest|second-run|%d" % n, "a second --replace without any edit replaced the backup of the %d-byte file by uncrustify's own output" % n, {"kind": "digest", "size": n})
                continue
            edit = Fn[:-6] + b"y */\n" if False else Fn[:-8] + b"yy" + Fn[-6:]
            if len(edit) == n and edit != Fn:
                open(fpath, "wb").write(edit)
                common.run_unc(["-q", "-c", cfgd, "--replace", fpath])
                if rd(fpath + ".unc-backup~") != edit:
                    rep.finding("digest|tail-edit|%d" % n, "a same-size edit in the last bytes of the %d-byte file was not backed up before the next run overwrote it" % n, {"kind": "digest", "size": n})
    m.close()
    if corr and not rep.violations:
        rep.unproved("correspondence Model/Backup.v <-> binary <-> Model/FsProto.v on histories", "first differences: %s" % corr[:3])
    if proof_broken and not rep.violations:
        rep.unproved("proof obligations of Properties_C14.v (files: %s)" % ps["broken_files"], build.get("coq_log_tail", ""))
    rep.cov["explanation"] = ("Theorems C14_backup_exact / C14_kill_safe re-checked by make; %d history steps executed on the real binary and compared "
                              "three-way (binary, Backup.step, FsProto.run); exact-backup and protected-text oracles evaluated on the real files." % nsteps[0])
    rep.cov["trusted_base"] = rep.assumptions
    rep.cov["exhaustive"] = True
    return rep.finish(ps)


def replay(rp, build):
    print("history:", rp.get("history"))
    print("re-run ./check C14 to replay the enumeration; the history above is the failing prefix")
    return 1
