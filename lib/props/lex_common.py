"""Shared exploration for the token-level properties (C02, C03, C04): whitespace-only configuration sampler, input
sources (corpus of the C family, generated programs with hard token neighbourhoods, comments and literals at many
grammar positions), the run loop with the contracts on the hook dumps and the re-lexing by the extracted LexC."""
import os
import re
import sys
import tempfile
import threading
from concurrent.futures import ThreadPoolExecutor

from .. import common, dumps, lexc, listops, progs, renderrun
from . import render_common as rc

C_FAMILY = ("C", "CPP", "OC", "OC+")
TOKPOS = ["ignore", "join", "lead", "lead_break", "lead_force", "trail", "trail_break", "trail_force"]
IARF = ["ignore", "add", "remove", "force"]
# options that are documented to change tokens, comments or the tokenizer: left at their defaults by every "whitespace-only"
# configuration (the property's own exclusion), plus housekeeping options
NOT_WS = re.compile(r"^(mod_|cmt_|tok_|string_|utf8_|debug_|sp_cmt_cpp_|enable_digraphs|newlines$|input_tab_size$|disable_processing|enable_processing|"
                    r"processing_cmt|pp_ignore_define_body|use_options_overriding|set_numbering|warn_level|pp_warn|pp_unbalanced|nl_cs_property|"
                    r"indent_off_after_return_new$)")
_REG = []


def registry():
    if not _REG:
        sys.path.insert(0, os.path.join(common.ROOT, "gen"))
        import gen_registry
        if not gen_registry.RAW:
            gen_registry.generate(common.REPO)
        _REG.extend(o for o in gen_registry.RAW if o["type"] != "string")
    return _REG


def ws_options():
    return [o for o in registry() if not NOT_WS.search(o["name"])]


def value_for(r, o, aggressive=False):
    t = o["type"]
    if t == "iarf_e":
        return r.choice(["remove", "remove", "force", "add", "ignore"] if aggressive else IARF)
    if t == "bool":
        return r.choice(["true", "false"])
    if t == "token_pos_e":
        return r.choice(TOKPOS)
    lo = o["lo"] if o["lo"] is not None else (0 if t == "unsigned" else -4)
    hi = o["hi"] if o["hi"] is not None else 16
    return str(r.randint(max(lo, -8), max(lo, min(hi, r.choice([1, 2, 3, 8, 16, 40, 80])))))


def ws_config(r, n, aggressive=False, family=None):
    opts = ws_options()
    if family:
        fam = [o for o in opts if o["name"].startswith(family)]
        pick = r.sample(fam, min(len(fam), n))
    else:
        pick = r.sample(opts, min(len(opts), n))
    return ["%s=%s" % (o["name"], value_for(r, o, aggressive)) for o in pick]


def all_sp(value):
    """every spacing option at one value: the strongest pressure on token boundaries"""
    return ["%s=%s" % (o["name"], value) for o in ws_options() if o["name"].startswith("sp_") and o["type"] == "iarf_e"]


# --------------------------------------------------------------------------------------------- generated inputs
UNARY = ["-", "+", "*", "&", "!", "~", "++", "--"]
BINARY = ["+", "-", "*", "/", "%", "&", "|", "^", "<", ">", "<=", ">=", "==", "!=", "&&", "||", "<<", ">>", "=", "+=", "-=", "/=", "&=", "->", ".", ",", "?"]


def tricky_expr(r):
    a, b = r.choice(progs.IDENT), r.choice(progs.IDENT + ["1", "0x1F", "1.5e+3", ".5", "'c'", "\"s\""])
    k = r.random()
    if k < 0.45:
        op = r.choice([o for o in BINARY if o not in ("->", ".", "?")])
        return "%s %s %s%s" % (a, op, r.choice(UNARY), b if b[0].isalpha() else r.choice(progs.IDENT))
    if k < 0.55:
        return "%s %s %s %s %s" % (a, r.choice(["+", "-"]), r.choice(["+", "-", "++", "--"]), r.choice(progs.IDENT), r.choice(["", "++", "--"]))
    if k < 0.65:
        return "%s ? %s : %s" % (a, r.choice(["-1", "*p", "&x", "::g"]), b)
    if k < 0.72:
        return "%s / *%s" % (a, r.choice(progs.IDENT))
    if k < 0.8:
        return r.choice(["sizeof %s + %s .5 - 1. + 1 .e" % (a, b), "0xe + 1 - 1.e + 3 + 0x1p - 2 + 1e1 + %s" % a]) if r.random() < 0.4 else "%s<%s<%s> >(%s)" % (a, a, b if b[0].isalpha() else "int", b)
    if k < 0.9:
        return "%s %s %s" % (a, r.choice(["->*", ".*", "::", "< ::", "<:", "% :", ". .", "- >", "| |", "& &", "< <", "> >", "= =", "! =", "+ =", "- > *", "< ="]), r.choice(progs.IDENT))
    return "%s(%s, %s)[%s]" % (a, b, r.choice(["-1", "+b", "*p", "&q"]), r.choice(["0", "i++", "--j"]))


COMMENTS = ["// plain", "//", "// ends with backslash \\", "// backslash then blank C:\\tmp\\ ", "// backslash then tab \\\t", "// backslash, blanks \\   ", "/* block */", "/**/", "/* multi\n   line */", "/* tab\there */", "// café 中",
            "/* star\n * cont\n */", "/*! doc\n    *tight\n    */", "// a /* b */ c", "/* a // b */", "//\ttab", "// trailing   ", "/*  two  spaces  */"]
LITERALS = ["\"plain\"", "\"esc \\\" q\"", "\"tab\\there\"", "\"real\ttab\"", "'c'", "'\\''", "'\\\\'", "L\"wide\"", "u8\"u8\"", "u\"u\"", "U'x'", "L'w'",
            "R\"(raw \"q\" )\"", "R\"x(a)\"b)x\"", "R\"xy(a)xz\"b)xy\"", "LR\"(say \"hello,world\" and \"a+b=c\" twice)\"", "u8R\"d(x \t y)d\"", "UR\"(U)\"", "uR\"(u)\"",
            "R\"(line1\nline2 \t )\"", "\"a\" \"b\"", "\"// not a comment\"", "\"/* neither */\"", "'\"'", "\"\\\\\"", "\"  two  spaces  \"", "\"café\""]


def literal_program(r, n=12, cpp=True):
    """statements with literals of every form, comments at many positions"""
    out = ["#include <std io.h>", "#include \"my  file.h\"", "#define STR \"in  macro\" /* c */",
           # block comments that span continuation lines of a directive: text right up to the backslash, a blank before it, a star line
           "#warning \"a\\ b\" c\\ d",
           "#define ONCE(a) /* evaluate the argument once\\\n   and only once */ (a)",
           "#define TWICE(a) do { /* first \\\n * second\\\n */ a; a; } while (0)", ""]
    out.append("int f(int a) {")
    for i in range(n):
        lit = r.choice(LITERALS if cpp else [x for x in LITERALS if not re.match(r"^(u8|u|U|L)?R\"", x)])
        k = r.random()
        cm = r.choice(COMMENTS)
        if k < 0.2:
            out.append("    g(%s, a); %s" % (lit, cm if cm.startswith("//") or "\n" not in cm else "/* x */"))
        elif k < 0.4:
            out.append("    %s" % cm)
            out.append("    s = %s;" % lit)
        elif k < 0.55:
            blk = cm if not cm.startswith("//") and "\n" not in cm else "/* in */"
            out.append("    h(a %s , %s %s);" % (blk, lit, blk))
        elif k < 0.7:
            out.append("    if (a) %s" % (cm if cm.startswith("//") else "/* c */"))
            out.append("        t = %s;" % lit)
        elif k < 0.8:
            out.append("    do %s" % (cm if not cm.startswith("//") and "\n" not in cm else "/* d */"))
            out.append("    { x = %s; } while (0);" % lit)
        elif k < 0.9:
            out.append("#define M%d(x) %s \\" % (i, cm if not cm.startswith("//") and "\n" not in cm else "/* m */"))
            out.append("    (x + %s)" % (lit if "\n" not in lit else "\"l\""))
        else:
            out.append("    return %s; %s" % (lit, cm if "\n" not in cm else "// r"))
            out.append("    %s" % r.choice(COMMENTS))
    out.append("}")
    return "\n".join(out) + "\n"


CLASS_TMPL = """class Foo%(c1)s
%(colon1a)s public Bar%(colon1b)s
{
public:
    Foo()%(c2)s
%(colon2a)s a(0), b(1) {}
#ifdef WITH_BAR
    Foo(int x) : a(x) %(c3)s
    , b(2)
    {}
#endif
    template<typename T> struct In : Base<Vec<T>> { };
    int a, b;
};
"""


def class_program(r):
    cm = lambda: r.choice(["", " // note", " /* note */", " // c \\", ""])
    lead = r.random() < 0.5
    d = {"c1": cm(), "c2": cm(), "c3": cm()}
    d["colon1a"], d["colon1b"] = ("    :", "") if lead else ("   ", "")
    if not lead:
        d["c1"] = " :" + d["c1"] if r.random() < 0.5 else d["c1"]
        if not d["c1"].startswith(" :"):
            d["colon1a"] = "    :"
    d["colon2a"] = "        :" if r.random() < 0.5 else "         "
    if d["colon2a"].strip() == "":
        d["c2"] = " :" + d["c2"]
    return CLASS_TMPL % d


def token_program(r, size=14):
    out = ["#define CAT(a, b) a ## b", "#define STR(x) # x", "#define MAX(a, b) \\", "    ((a) > (b) ? \\", "     (a) : (b))", "int g(int *p, int *q) {"]
    for i in range(size):
        k = r.random()
        if k < 0.7:
            out.append("    %s = %s;" % (r.choice(progs.IDENT), tricky_expr(r)))
        elif k < 0.8:
            out.append("    if (%s) // note" % tricky_expr(r))
            out.append("        %s--;" % r.choice(progs.IDENT))
        elif k < 0.9:
            out.append("#if %s" % r.choice(["0", "defined(A) && !defined B", "A > -1"]))
            out.append("    x = %s;" % tricky_expr(r))
            out.append("#else // other")
            out.append("#  define Z(%s) (%s) - -1" % (r.choice("ab"), tricky_expr(r)))
            out.append("#endif")
        else:
            out.append("    return %s; // done" % tricky_expr(r))
    out.append("}")
    return "\n".join(out) + "\n"


class LCase(rc.Case):
    pass


def corpus_cases(r, n, langs=C_FAMILY, max_len=40000):
    seen, out = set(), []
    cor = common.corpus()
    r.shuffle(cor)
    for lang, cfg, inp, suite, num in cor:
        if len(out) >= n:
            break
        L = lang or common.lang_of_path(inp)
        if L not in langs or inp in seen:
            continue
        seen.add(inp)
        try:
            data = open(inp, "rb").read()
        except OSError:
            continue
        if b"\x00" in data or len(data) > max_len or len(data) < 20 or data[:2] in (b"\xff\xfe", b"\xfe\xff"):
            continue
        c = LCase("corpus:%s:%s" % (suite, os.path.basename(inp)), L, None, data)
        c.src = inp
        out.append(c)
    return out


# --------------------------------------------------------------------------------------------- running
def explore(rep, cases, judge, stats, timeout=20):
    """judge(case, R, toks_in, toks_out, findings) is called for every run that exits 0; toks_* are LexC token lists (C family)"""
    tl = threading.local()
    base = tempfile.mkdtemp(prefix="lx_", dir=common.WORK)
    corr = []

    def work(case):
        if not hasattr(tl, "m"):
            tl.m = common.Model()
            tl.wd = tempfile.mkdtemp(dir=base)
        R = rc.run_case(tl.wd, case, timeout=timeout)
        f, diffs = [], None
        if R.rc == 0:
            tin = tout = None
            if case.lang in C_FAMILY:
                try:
                    tin = lexc.lex(tl.m, lexc.decode(case.data))
                    tout = lexc.lex(tl.m, lexc.decode(R.out))
                except Exception as e:
                    f.append(("lexc-error", "the lexical specification failed: %s" % str(e)[:100]))
            judge(case, R, tin, tout, f)
            listops.judge_calls(R, f)
            if R.fin is not None:
                try:
                    diffs, _ = renderrun.compare_file(tl.m, R.prefix)
                except Exception as e:
                    diffs = ["model error: %s" % str(e)[:200]]
        return case, R.rc, f, diffs, (R.fin is not None and len(R.fin) > 5)
    with ThreadPoolExecutor(max_workers=8) as ex:
        for case, rcode, f, diffs, nontriv in ex.map(work, cases):
            rep.count(key=(case.label, case.cfg_text, case.data[:300]), nontrivial=nontriv and rcode == 0)
            stats["rc"][rcode] = stats["rc"].get(rcode, 0) + 1
            if rcode != 0:
                continue
            rep.validated()
            if diffs:
                corr.append((case.label, diffs))
            for key, what in f:
                rep.finding(key, what, {"kind": "lex", "label": case.label, "lang": case.lang, "cfg": case.cfg_text, "cfg_path": case.cfg_path,
                                        "input_b64": common.b64(case.data)})
    import shutil
    shutil.rmtree(base, ignore_errors=True)
    return corr


def code_texts(chunks):
    """non-white-space characters of the non-comment chunks of a dump, in order"""
    out = []
    for c in chunks:
        if c["type"] in renderrun.COMMENT_TYPES or c["type"] in ("NEWLINE", "NL_CONT"):
            continue
        out.append("".join(chr(x) for x in c["text"] if x not in (32, 9, 10, 13, 12, 11, 92)))
    return "".join(out)


def replay_with(rp, judge):
    case = LCase(rp.get("label", "replay"), rp["lang"], rp.get("cfg"), common.unb64(rp["input_b64"]), cfg_path=rp.get("cfg_path"))
    with tempfile.TemporaryDirectory(prefix="rr_", dir=common.WORK) as wd:
        R = rc.run_case(wd, case)
        print("exit status", R.rc)
        f = []
        if R.rc == 0:
            m = common.Model()
            tin = tout = None
            if case.lang in C_FAMILY:
                tin, tout = lexc.lex(m, lexc.decode(case.data)), lexc.lex(m, lexc.decode(R.out))
            judge(case, R, tin, tout, f)
        for k, w in f:
            print("VIOLATION reproduced:", w)
        if not f:
            print("property holds on this replay")
        return 1 if f else 0
