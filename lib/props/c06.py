"""C06 — Any input terminates cleanly: formatted, or refused with a diagnostic.
Theorems: coq/Properties/Properties_C06.v -
  * over GENERATED inventories of /repo/src (gen/gen_termination.py, re-generated and re-proved on every run): every
    exit() call passes a documented status; every non-zero exit is preceded by a diagnostic (reviewed exceptions
    listed); no exit() call lies in the output phase apart from three reviewed internal-error sites; every loop that
    walks the chunk list is protected against running off its end (explicit null-chunk test, or a condition that only
    holds for chunks of named types) apart from reviewed loops, counted per function;
  * over the hand-written models: the lexer model of the 'off' state and the lexical specification always make
    progress; the codec model is total (every byte string is decoded or refused).
What a theorem about models and inventories cannot show - absence of memory errors and undefined behaviour in 50 kLoC
of C++, termination of every loop - is explored dynamically with an AddressSanitizer+UBSan build: truncations of corpus
files at line and byte boundaries, unterminated constructs, unbalanced brackets and token mutations in all nine
languages.  PARTIAL: see the manifest note."""
import os
import re
import subprocess
import tempfile
import threading
from concurrent.futures import ThreadPoolExecutor

from .. import common
from . import lex_common as lx

LEVEL = "proof"
NEED_ASAN = True
ASSUME = ["Coq kernel; translator gen/gen_termination.py (pattern-based inventory of exit() calls and chunk-walk loops)",
          "memory safety, absence of undefined behaviour and termination of the real code are NOT proved: explored with an ASan+UBSan build under a time limit (partial)",
          "loops outside the chunk-walk pattern (tokenizer character loops, std:: containers) are not inventoried",
          "time limit per run: 10 s (quick) / 20 s (thorough) with the sanitizer build on inputs of at most 40 KB"]

ALLOWED = set([0, 1] + list(range(64, 79)))
ASAN_BIN = os.path.join(common.BUILD_ASAN, "uncrustify")
ENV = {"ASAN_OPTIONS": "exitcode=99:detect_leaks=0:abort_on_error=0:allocator_may_return_null=1", "UBSAN_OPTIONS": "exitcode=98:halt_on_error=1:print_stacktrace=0"}
LANGS = ["C", "CPP", "OC", "CS", "D", "JAVA", "PAWN", "VALA", "ECMA"]

MODS = ("mod_full_brace_if_chain=1\nmod_move_case_return=true\nmod_move_case_break=true\nmod_infinite_loop=1\nmod_full_brace_for=add\nmod_full_brace_while=remove\n"
        "mod_full_brace_do=add\nmod_case_brace=add\nmod_paren_on_return=add\nmod_remove_extra_semicolon=true\nmod_remove_empty_return=true\nmod_enum_last_comma=add\n"
        "nl_create_if_one_liner=true\nnl_create_for_one_liner=true\nnl_create_while_one_liner=true\nnl_after_brace_open=true\nnl_remove_extra_newlines=1\n"
        "mod_add_long_function_closebrace_comment=1\nmod_sort_include=true\nmod_int_short=add\nalign_assign_span=2\nalign_var_def_span=2\nalign_right_cmt_span=3\n")
TAILS = ["#define FOO", "#define FOO(a", "#", "# ", "\\", "\\\n", "@", "@property (nonatomic", "@interface A", "@\"str", "A::A(int x)", "A::~A()", "A<T>::A(int x) : m(x)",
         "R\"x(", "R\"(abc", "LR\"", "'", "'\\", "\"", "\"abc\\", "/*", "/* a", "//\\", "// c \\\n", "case 1", "case", "default", "template<", "template<typename T", "operator",
         "operator+", "enum {", "enum E { A,", "struct", "struct S {", "class C : public", "[", "[[", "(", "((", "{", "{{", "<", "<<", "a ? b", "a ? b :", "else", "do", "do {", "while (",
         "for (;;", "for (;;)", "for (;;) x", "while (1)", "while (1) x", "do x", "do { x; } while (1)", "if (a", "if (a)", "if (a) x", "if (a) x; else", "case 1: return x", "case 1: return",
         "case 1: break", "switch (a) { case 1: return 1", "return", "typedef", "typedef struct", "namespace", "namespace N {", "using", "extern \"C\"", "extern \"C\" {", "#if", "#if 0\n", "#ifdef A\nx\n#else",
         "#include <", "#include \"", "#pragma", "#pragma asm", "#asm", "__attribute__((", "goto", "x = [", "x = {", "->", "::", "...", "0x", "1e", "1.", ".", "$", "`", "\x01", "\xff",
         "\xef\xbb\xbf", "\xc3", "\xe4\xb8", "delegate(", "foreach (", "new", "new[", "@selector(", "^{", "^(", "[x y:", "-(void)", "+(id)a:", "@implementation A\n-(void)f {",
         "public:", "signals:", "Q_OBJECT", "#region", "import std.", "version(", "mixin(", "q{", "r\"", "x\"AB", "forward f(", "native f(", "public f()", "stock f(a[", "var x = function(",
         "function f(", "x => ", "async ", "get {", "where T :", "[Attr(", "assert(", "synchronized(", "@Override", "int[] a = {", "lock(", "unsafe {", "fixed(", "checked("]


def classify(rc, out, err, timed_out):
    if timed_out:
        return "timeout", "did not terminate within the time limit"
    if rc < 0:
        return "signal|%d" % -rc, "killed by signal %d" % -rc
    if rc == 99:
        m = re.search(rb"ERROR: AddressSanitizer: ([\w-]+)", err)
        loc = re.search(rb"#\d+ 0x[0-9a-f]+ in (\S+) [^\n]*?src/([\w/.]+):(\d+)", err)
        where = (b"%s %s" % (loc.group(1)[:40], loc.group(2))).decode("latin1") if loc else "?"
        return "asan|%s|%s" % (m.group(1).decode() if m else "?", where), "AddressSanitizer: %s at %s" % (m.group(1).decode() if m else "?", where)
    if rc == 98:
        m = re.search(rb"src/([\w/.]+):(\d+):\d+: runtime error: ([^\n]{0,80})", err)
        return ("ubsan|%s" % (m.group(1).decode() if m else "?")), "UBSan: %s" % (m.group(0).decode("latin1") if m else "?")
    if b"terminate called" in err or b"what():" in err:
        return "exception", "uncaught exception: %r" % err[-120:]
    if rc not in ALLOWED:
        return "status|%d" % rc, "undocumented exit status %d" % rc
    if rc != 0 and out:
        return "stdout-on-failure|%d" % rc, "exit status %d but %d bytes of the source are on standard output" % (rc, len(out))
    if rc != 0 and not err.strip():
        return "silent-failure|%d" % rc, "exit status %d without a diagnostic on stderr" % rc
    return None, None


def run_one(binary, wd, lang, cfg_text, data, timeout, valid=False):
    src = os.path.join(wd, "in.src")
    cfg = os.path.join(wd, "u.cfg")
    open(src, "wb").write(data)
    open(cfg, "w").write(cfg_text or "")
    env = dict(os.environ)
    env.update(ENV)
    try:
        p = subprocess.run([binary, "-c", cfg, "-l", lang, "-f", src], stdout=subprocess.PIPE, stderr=subprocess.PIPE, timeout=timeout, env=env)
        return classify(p.returncode, p.stdout, p.stderr, False), p.returncode
    except subprocess.TimeoutExpired:
        # which loop? the line-width fixpoint of uncrustify_file() has a developer option that bounds it
        if "code_width" in (cfg_text or "") and not valid:        # (recorded finding: malformed text / tiny widths; well-formed wide lines must terminate)
            open(cfg, "w").write((cfg_text or "") + "\ndebug_max_number_of_loops=3000\n")
            try:
                p = subprocess.run([binary, "-c", cfg, "-l", lang, "-f", src], stdout=subprocess.PIPE, stderr=subprocess.PIPE, timeout=timeout, env=env)
                if p.returncode == 70:
                    return ("timeout|code_width-fixpoint", "did not terminate within the time limit: the align/indent/do_code_width() loop of uncrustify_file() does not reach "
                            "a fixed point (bounded by debug_max_number_of_loops it exits 70)"), -999
            except subprocess.TimeoutExpired:
                pass
        return classify(0, b"", b"", True), -999


# the mod_ options the first set leaves out (parenthesis adders, sorters, closing-brace comments ...)
MODS2 = ("mod_full_paren_if_bool=true\nmod_full_paren_assign_bool=true\nmod_full_paren_return_bool=true\nmod_full_brace_function=add\nmod_full_brace_using=add\n"
         "mod_full_brace_if=add\nmod_full_brace_nl=2\nmod_sort_include=true\nmod_sort_using=true\nmod_sort_import=true\nmod_sort_case_sensitive=true\n"
         "mod_remove_duplicate_include=true\nmod_add_force_c_closebrace_comment=true\nmod_add_long_namespace_closebrace_comment=1\nmod_add_long_class_closebrace_comment=1\n"
         "mod_add_long_switch_closebrace_comment=1\nmod_add_long_ifdef_endif_comment=1\nmod_add_long_ifdef_else_comment=1\nmod_sort_oc_properties=true\n"
         "mod_int_long=add\nmod_long_int=force\nmod_unsigned_int=remove\nmod_enum_last_comma=remove\nmod_case_brace=remove\nmod_paren_on_throw=add\n"
         "cmt_trailing_single_line_c_to_cpp=true\nnl_collapse_empty_body=true\nnl_squeeze_ifdef=true\nnl_squeeze_paren_close=true\nalign_nl_cont=1\nalign_func_params=true\nalign_typedef_span=2\n")
# complete statements: the interesting thing is that nothing - not even a line break - follows them
STATEMENTS = ["if (a != b && c) x();", "if (a != b ? c : d) x;", "return a != b && c;", "x = a < b || c;", "while (a && b != c) { y(); }", "for (;;) z();",
              "do x(); while (a || b == 1);", "switch (a) { case 1: return; }", "int v = (a) ? b : c;", "using namespace std;", "#include <a.h>", "#define M(a) a",
              "a = b; // c", "a = b; /* c */", "else x();", "typedef int t;", "enum e { A, B, };", "throw a && b;", "x = [](){ return 1; };", "} // end"]


def truncations(r, data, n):
    """cut points: line boundaries, and bytes inside lines (so that the file ends inside a token, without a newline)"""
    out = []
    nl = [i + 1 for i, b in enumerate(data) if b == 10]
    for p in r.sample(nl, min(len(nl), n)):
        out.append(("line", data[:p]))
        out.append(("line-no-nl", data[:p - 1].rstrip(b"\r")))
    for _ in range(n):
        if len(data) > 2:
            out.append(("byte", data[:r.randrange(1, len(data))]))
    return out


def mutations(r, data, n):
    out = []
    toks = re.findall(rb"\w+|\s+|.", data, flags=re.S)
    for _ in range(n):
        t = list(toks)
        k = r.random()
        if not t:
            break
        i = r.randrange(len(t))
        if k < 0.3:
            del t[i]
            kind = "delete-token"
        elif k < 0.5:
            t.insert(i, t[i])
            kind = "duplicate-token"
        elif k < 0.75:
            t.insert(i, r.choice([b"(", b")", b"{", b"}", b"[", b"]", b"<", b">", b"\"", b"'", b"/*", b"*/", b"#", b"\\", b"@", b";", b"::", b"?", b":"]))
            kind = "insert-bracket"
        else:
            j = r.randrange(len(t))
            t[i], t[j] = t[j], t[i]
            kind = "swap-tokens"
        out.append((kind, b"".join(t)))
    return out


def make_inputs(r, tier):
    nfiles, ntr, nmut = (40, 3, 2) if tier == "quick" else (500, 8, 6)
    cases = []
    cor = common.corpus()
    r.shuffle(cor)
    seen = set()
    for lang, cfg, inp, suite, num in cor:
        if len(seen) >= nfiles:
            break
        if inp in seen:
            continue
        L = (lang or common.lang_of_path(inp)).replace("OC+", "OC")
        if L not in LANGS:
            continue
        try:
            data = open(inp, "rb").read()
        except OSError:
            continue
        if len(data) > 40000 or len(data) < 30 or b"\x00" in data:
            continue
        seen.add(inp)
        from . import c07
        k = r.random()
        cfg_text = "" if k < 0.4 else "\n".join(lx.ws_config(r, 10) + r.sample(c07.FOCUS, 4)) + "\n" if k < 0.8 else "\n".join(r.sample(c07.FOCUS, 8)) + "\n"
        base = os.path.basename(inp)
        for kind, d in truncations(r, data, ntr) + mutations(r, data, nmut):
            cases.append(("%s:%s" % (kind, base), L, cfg_text, d))
    # tails: every tricky ending, alone and after a little valid code, in every language
    for t in TAILS:
        tb = t.encode("latin1")
        for L in LANGS:
            cases.append(("tail", L, "", tb))
            if tier != "quick" or r.random() < 0.25:
                cases.append(("tail-braceless-if", L, "nl_remove_extra_newlines=2\nmod_full_brace_if=remove\n", b"  if(7  )\nval=(res  )*  &  idx ;\n" + tb))
            cases.append(("tail-after-code", L, "", b"int f(int a)\n{\n  return a;\n}\n" + tb))
            cases.append(("tail-mods", L, MODS, b"void g(int a)\n{\n  switch (a) {\n  case 1: {\n    a++;\n    break;\n  }\n  }\n  if (a) b = 1; else\n  " + tb))
            if tier != "quick" or r.random() < 0.3:
                cases.append(("tail-in-func", L, "", b"void g()\n{\n  x = 1;\n  " + tb))
    # the other mod_ options and the curated profiles: complete statements with nothing behind them, the tails, and generated
    # compilable programs cut at every kind of place
    profdir = os.path.join(common.ROOT, "profiles")
    profs = [open(os.path.join(profdir, f)).read() for f in sorted(os.listdir(profdir)) if f.endswith(".cfg")]
    cfgs = [MODS2, MODS] + profs
    for st in STATEMENTS:
        sb = st.encode()
        for L in ("C", "CPP", "CS", "JAVA", "OC", "D"):
            for ci, cfg in enumerate(cfgs):
                if tier == "quick" and ci >= 2 and r.random() < 0.7:
                    continue
                cases.append(("statement-at-eof", L, cfg, sb))
                cases.append(("statement-in-func-at-eof", L, cfg, b"void g(int a)\n{\n  " + sb + b" }"))
    for t in TAILS:
        if tier == "quick" and r.random() < 0.8:
            continue
        for L in ("C", "CPP"):
            cases.append(("tail-mods2", L, MODS2, b"void g(int a)\n{\n  if (a != b && c) x();\n  " + t.encode("latin1")))
            cases.append(("tail-profile", L, r.choice(profs), b"void g(int a)\n{\n  x = a;\n  " + t.encode("latin1")))
    # well-formed lines that are wider than code_width and offer no place to split (templates/generics, long names, long literals):
    # the align/indent/do_code_width() loop of uncrustify_file() must still come to rest
    WIDE = [("CPP", "std::vector<some_very_long_type_name_that_exceeds_the_width_of_the_line> v;\n"),
            ("CPP", "template <typename A> std::map<an_extremely_long_key_type_name_here, A> make_the_map_of_everything_there_is();\n"),
            ("CPP", "void f() { std::unique_ptr<a_type_with_a_name_that_is_longer_than_the_line_allows> p; p.reset(); }\n"),
            ("CS", "class K { List<SomeVeryLongGenericArgumentTypeNameThatDoesNotFitIntoTheLine> items; }\n"),
            ("JAVA", "class K { Map<AnExtremelyLongKeyTypeNameForThisLine, AnotherQuiteLongValueTypeName> m; }\n"),
            ("C", "int a_very_long_identifier_that_alone_is_wider_than_the_permitted_line_width_of_this_file = 1;\n"),
            ("C", "const char *s = \"a string literal that is much longer than the line width permits and has no break\";\n"),
            ("C", "x = call_of_a_function_with_a_long_name(another_call_with_a_long_name(and_a_third_one_to_be_sure(1)));\n")]
    for L, text in WIDE:
        for w in (20, 40, 60, 80):
            for extra in ("", "ls_code_width=true\n", "indent_columns=8\n"):
                cases.append(("valid-width", L, "code_width=%d\n%s" % (w, extra), text.encode()))
    # valid programs nested to depths around the powers of two (tables indexed by level / brace level, grown on demand; round-4 seed:
    # align_func_proto()'s level table started at 16 and grew on '>' instead of '>='), under every alignment span and the mod_ sets
    spans = "".join("%s=3\n" % o["name"] for o in lx.ws_options() if o["name"].startswith("align_") and o["name"].endswith("_span"))
    deep_cfgs = [spans, spans + "align_on_tabstop=true\nindent_paren_nl=true\nindent_square_nl=true\n", MODS, MODS2, ""]
    for d in (15, 16, 17, 31, 32, 33, 64, 65):
        deep = [("C", "int v = " + "(" * d + "\n1" + ")" * d + ";\n"),
                ("C", "int v = " + "(" * d + "1" + ")" * d + ";\nint w;\n"),
                ("C", "void f(void)\n" + "".join("{\n" for _ in range(d)) + "x = 1;\n" + "".join("}\n" for _ in range(d))),
                ("C", "void f(void)\n{\n" + "".join("if (a%d)\n{\n" % k for k in range(d)) + "x = 1;\n" + "".join("}\n" for _ in range(d)) + "}\n"),
                ("C", "void f(void)\n{\nx = " + "".join("a[" for _ in range(d)) + "\n0" + "]" * d + ";\n}\n"),
                ("C", "int m[] = " + "{" * d + " 1, 2 " + "}" * d + ";\n"),
                ("CPP", "int g(int a = " + "f(" * d + "1" + ")" * d + ",\n      int b = 2);\nint h(int);\n"),
                ("CPP", "A<" * d + "int" + (" >" * d) + " v;\nint f();\nlong gg();\n"),
                ("CPP", "".join("namespace n%d {\n" % k for k in range(d)) + "int f();\nlong g();\n" + "}\n" * d),
                ("JAVA", "class K { void f() { x = " + "(" * d + "1" + ")" * d + "; } }\n")]
        for L, text in deep:
            for ci, cfg in enumerate(deep_cfgs):
                if tier == "quick" and d > 33 and ci > 1:
                    continue
                cases.append(("valid-deep:%d" % d, L, cfg, text.encode()))
    # repaired defects (side remarks of the round-4 seeding agents, reproduced): do-while scan of newline_case() past the start of the list; an
    # include_category_N that is no regular expression
    for L in ("C", "CPP"):
        cases.append(("regress-case-scan", L, "nl_before_case=true\n", b"switch (x) case 1: foo();\n"))
        cases.append(("regress-case-scan", L, "nl_before_case=true\n", b"#define F(x) switch (x) case 1: foo()\n"))
        cases.append(("regress-category-regex", L, "mod_sort_include=true\ninclude_category_0=\"(\"\n", b"#include \"b.h\"\n#include \"a.h\"\n"))
        cases.append(("regress-category-regex", L, "mod_sort_include=true\ninclude_category_1=\"[a-\"\ninclude_category_2=\"*\"\n", b"#include \"b.h\"\n#include <a.h>\n"))
    from .. import cprogs
    for i in range(6 if tier == "quick" else 120):
        cpp = i % 2 == 1
        data = cprogs.program(r, nfunc=r.randint(1, 2), size=r.choice([8, 16]), cpp=cpp).encode()
        for kind, d in truncations(r, data, 3 if tier == "quick" else 6):
            cases.append(("gen-%s" % kind, "CPP" if cpp else "C", r.choice(cfgs), d))
    return cases


def run(rep, build, tier, seed):
    r = common.rng(seed, "C06")
    rep.cov["rule"] = ("AddressSanitizer+UBSan build of the current tree; inputs: corpus files of all nine languages cut at random line boundaries (with and without the final "
                       "line break) and at random bytes, token-level mutations (delete, duplicate, swap, inserted brackets/quotes/comment openers), and %d tricky endings "
                       "(unterminated strings, raw strings, comments, directives, brackets, keywords without their construct, stray bytes) alone, after valid code and "
                       "inside a function, per language; default and random in-range configurations. A run is non-trivial when the binary ran to an exit status. "
                       "Checked: terminates in time; status 0, 1 or 64..78; no signal; no sanitizer report; no uncaught exception; on failure stdout is empty and "
                       "stderr is not." % len(TAILS))
    ps = common.proof_status("C06", build)
    if build.get("uncrustify") != "ok" or not os.path.exists(ASAN_BIN):
        rep.unproved("build failed", "\n".join(build["errors"])[-3000:])
        return rep.finish(ps)
    cases = make_inputs(r, tier)
    timeout = 10 if tier == "quick" else 20
    tl = threading.local()
    base = tempfile.mkdtemp(prefix="c06_", dir=common.WORK)
    from collections import Counter
    stat, kinds = Counter(), Counter()

    def work(case):
        if not hasattr(tl, "wd"):
            tl.wd = tempfile.mkdtemp(dir=base)
        (key, what), rc = run_one(ASAN_BIN, tl.wd, case[1], case[2], case[3], timeout, valid=case[0] == "valid-width")
        return case, key, what, rc
    with ThreadPoolExecutor(max_workers=14) as ex:
        for case, key, what, rc in ex.map(work, cases):
            rep.count(key=(case[1], case[2], case[3]), nontrivial=rc != -999)
            rep.validated()
            stat[rc] += 1
            kinds[case[0].split(":")[0] + "/" + case[1]] += 1
            if key:
                rep.finding("%s|%s" % (key, case[1]) if key == "timeout" else key, "%s (%s, language %s, %d bytes ending in %r)" % (what, case[0], case[1], len(case[3]), case[3][-30:]),
                            {"kind": "c06", "label": case[0], "lang": case[1], "cfg": case[2], "input_b64": common.b64(case[3])})
    import shutil
    shutil.rmtree(base, ignore_errors=True)
    rep.cov["input_distribution"] = {"runs": len(cases), "exit_status": {str(k): v for k, v in sorted(stat.items())}, "kinds": dict(kinds.most_common(40))}
    rep.sample({"label": cases[0][0], "lang": cases[0][1], "input_tail": cases[0][3][-80:].decode("latin1")})
    gen = (build.get("gen") or {}).get("Termination.v") or {}
    if (ps["discharged"] < ps["obligations"] or build["forbidden"]) and not rep.violations:
        rep.unproved("proof obligations of Properties_C06.v (files: %s): the inventory of exit() calls / chunk-walk loops no longer satisfies the theorems" % ps["broken_files"],
                     (build.get("coq_log_tail", "") + "\ninventory: %s" % str(gen)[:600]))
    rep.cov["explanation"] = ("Theorems of Properties_C06.v re-proved by make over the regenerated inventories (%s); %d sanitizer runs." % (str(gen.get("info", gen))[:300], len(cases)))
    rep.assumptions = ASSUME
    rep.cov["trusted_base"] = ASSUME
    return rep.finish(ps)


def replay(rp, build):
    with tempfile.TemporaryDirectory(prefix="rr_", dir=common.WORK) as wd:
        (key, what), rc = run_one(ASAN_BIN if os.path.exists(ASAN_BIN) else common.UNC, wd, rp["lang"], rp.get("cfg") or "", common.unb64(rp["input_b64"]), 20)
        print("exit status", rc)
        if key:
            print("VIOLATION reproduced:", what)
            return 1
        print("property holds on this replay")
        return 0
