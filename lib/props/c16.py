"""C16 — Bad configuration lines are diagnosed and have no other effect.
Theorems: coq/Properties/Properties_C16.v (model D + generated registry).
Tie: translator + correspondence on a malformed-config stream (saved state and diagnostics, by file:line:option).
Direct oracles on the real binary: a bad line inserted into a good config leaves --update-config output and the
formatted bytes identical to the config without the line, and produces a diagnostic naming file, line and option;
no crash/hang on any config text; the nl_max guard refuses inconsistent blank-line settings."""
import os
import tempfile

from .. import common, cfgrun
from . import c15

LEVEL = "proof"
GOOD = b"indent_columns = 3\nsp_arith = force\nnl_end_of_file = force\nnl_end_of_file_min = 1\ncode_width = 9999\n"


def bad_lines(opts, r, tier):
    out = []
    for o in opts:
        n, ty = o["name"], o["type"]
        if n in c15.SKIP:
            continue
        if ty in ("signed", "unsigned") and o["lo"] is not None:
            out.append((n, "less", "%s = %d" % (n, o["lo"] - 1)))
            out.append((n, "greater", "%s = %d" % (n, o["hi"] + 1)))
            # literals that are congruent modulo 2^32 (and 2^31, 2^16) to a value inside the range: a check made after the
            # value has been narrowed to the option's 32-bit type would accept them
            mid = (o["lo"] + o["hi"]) // 2
            for k, (base, kind) in enumerate([(1 << 32, "greater"), (-(1 << 32), "less"), (1 << 33, "greater"), (1 << 31, "greater"), (1 << 16, "greater")]):
                if tier == "thorough" or (len(n) + k) % 3 == 0:
                    v = base + (o["hi"] if k % 2 == 0 else mid if o["lo"] <= mid <= o["hi"] else o["lo"])
                    if not (o["lo"] <= v <= o["hi"]):
                        out.append((n, kind, "%s = %d" % (n, v)))
            # references whose (negated) value falls outside the range: code_width is 9999 in the good config
            if n != "code_width":
                if o["lo"] > -9999:
                    out.append((n, "less", "%s = -code_width" % n))
                if o["hi"] < 9999:
                    out.append((n, "greater", "%s = code_width" % n))
            if tier == "thorough" or len(n) % 5 == 0:
                out.append((n, "bad-value", "%s = abc" % n))
                out.append((n, "bad-value", "%s = 12x" % n))
                out.append((n, "bad-ref", "%s = sp_arith" % n))
                out.append((n, "greater", "%s = 99999999999999999999999" % n))
        elif ty == "bool":
            if tier == "thorough" or len(n) % 9 == 0:
                out.append((n, "bad-value", "%s = maybe" % n))
                out.append((n, "bad-ref", "%s = ~indent_columns" % n))
                out.append((n, "bad-value", "%s = 2" % n))
        elif ty in ("iarf_e", "token_pos_e", "line_end_e"):
            if tier == "thorough" or len(n) % 9 == 0:
                out.append((n, "bad-value", "%s = sometimes" % n))
                out.append((n, "bad-ref", "%s = indent_columns" % n))
                out.append((n, "bad-value", "%s = 7" % n))
    out += [("-", "unknown-option", "no_such_option = 1"), ("-", "unknown-option", "indent_colums = 4"),
            ("-", "unterminated", 'cmt_sp_after_star_cont = "3'), ("-", "unterminated", "sp_arith = force\\"),
            ("-", "unexpected-text", 'sp_arith = "force"x'), ("-", "few-args", "sp_arith"), ("-", "few-args", "set BOOL"),
            ("-", "unknown-type", "set NOTATOKEN x"), ("-", "unknown-lang", "file_ext KLINGON .kl"), ("-", "bad-version", "using x"), ("-", "bad-version", "using a.b"), ("-", "bad-version", "using 1.x"), ("-", "bad-version", "using 1.2.z"), ("-", "bad-version", "using 99999999999.1"),
            ("-", "unknown-option", "x" * 300 + " = 1")]
    return out


def run(rep, build, tier, seed):
    r = common.rng(seed, "C16")
    ps = common.proof_status("C16", build)
    proof_broken = ps["discharged"] < ps["obligations"] or bool(build["forbidden"]) or build.get("model") != "ok"
    rep.cov["rule"] = ("for every bounded numeric option: the values just outside both bounds (exhaustive over the registry); wrong-typed values, dangling "
                       "and ill-typed references, over-long numbers for a slice (all in thorough); unknown options, unterminated quotes, trailing backslash, "
                       "text after a quoted string, missing arguments, unknown token/language, bad 'using', 300-character names, non-ASCII bytes, include "
                       "cycles, nl_max inconsistencies; each bad line is inserted into a good config. Non-trivial = every case (each is a distinct bad line).")
    rep.assumptions = ["Coq kernel; extraction; driver glue; translator gen_registry.py", "diagnostics are compared by kind, line number and option name, not by message text",
                       "NUL bytes excluded from config text"]
    if build.get("uncrustify") != "ok" or build.get("model") != "ok":
        rep.unproved("build failed", "\n".join(build["errors"])[-3000:])
        return rep.finish(ps)
    if any("error" in v for v in build.get("gen", {}).values() if isinstance(v, dict)):
        rep.unproved("translator no longer recognises the source", str(build.get("gen"))[:1500])
        return rep.finish(ps)
    m = common.Model()
    corr = []
    opts = c15.options()
    with tempfile.TemporaryDirectory(prefix="c16_", dir=common.WORK) as wd:
        src = os.path.join(wd, "s.c")
        open(src, "wb").write(c15.SAMPLE)
        base = cfgrun.impl_load(GOOD, wd)
        gp = os.path.join(wd, "good.cfg")
        open(gp, "wb").write(GOOD)
        base_fmt = common.run_unc(["-q", "-c", gp, "-l", "C", "-f", src])
        cases = bad_lines(opts, r, tier)
        # batches: many bad lines in one config (each must be diagnosed at its own line), plus singles for a slice
        B = 40
        for i in range(0, len(cases), B):
            chunk = cases[i:i + B]
            text = GOOD + ("\n".join(c[2] for c in chunk) + "\n").encode("latin1")
            I = cfgrun.impl_load(text, wd)
            M = cfgrun.model_load(m, text)
            rep.validated()
            for c in chunk:
                rep.count(key=c[2], nontrivial=True)
            d = cfgrun.compare(I, M)
            if d:
                corr.append((chunk[0][2], d))
            if I["rc"] != 0:
                rep.finding("exit|%s" % chunk[0][2], "config with bad lines makes --update-config exit %s" % I["rc"], {"kind": "config", "cfg_b64": common.b64(text)})
                continue
            if I["lines"] != base["lines"]:
                diff = next((a, b) for a, b in zip(base["lines"] + [None], I["lines"] + [None]) if a != b)
                rep.finding("effect|%s" % (diff,), "a rejected line changed the configuration: %r -> %r (batch starting %r)" % (diff[0], diff[1], chunk[0][2]),
                            {"kind": "config", "cfg_b64": common.b64(text)})
            nl0 = GOOD.count(b"\n")
            for j, c in enumerate(chunk):
                ln = nl0 + j + 1
                got = [x for x in I["diags"] if x[0] == ln]
                want_kind = c[1]
                if not got:
                    rep.finding("nodiag|%s" % c[2][:60], "bad line %r (line %d) produced no diagnostic" % (c[2][:60], ln), {"kind": "config", "cfg_b64": common.b64(text)})
                elif c[0] != "-" and not any(x[2] == c[0] for x in got):
                    rep.finding("diagname|%s" % c[2][:60], "diagnostic for %r does not name the option: %s" % (c[2][:60], got), {"kind": "config", "cfg_b64": common.b64(text)})
                elif want_kind not in [x[1] for x in got]:
                    corr.append((c[2], ["expected diagnostic kind %s, got %s" % (want_kind, got)]))
            p = os.path.join(wd, "bad.cfg")
            open(p, "wb").write(text)
            f = common.run_unc(["-q", "-c", p, "-l", "C", "-f", src])
            if (f[0], f[1]) != (base_fmt[0], base_fmt[1]):
                rep.finding("format|%s" % chunk[0][2], "formatted bytes differ when rejected lines are present", {"kind": "config", "cfg_b64": common.b64(text)})
        rep.sample({"bad_lines": [c[2] for c in cases[:5]], "total": len(cases)})
        # non-ASCII byte before '#': exit with "not printable"; after '#': fine
        for text in [b"indent_columns = 3\nsp_arith = \xe9\n", b"indent_columns = 3 # caf\xc3\xa9\n", b"# \xff\xfe\nsp_arith=force\n", b"cmt_sp_after_star_cont = 1\n\x80\n"]:
            I = cfgrun.impl_load(text, wd)
            M = cfgrun.model_load(m, text)
            rep.count(key=text, nontrivial=True)
            rep.validated()
            d = cfgrun.compare(I, M)
            if d:
                corr.append((text, d))
            if I["rc"] < 0 or I["rc"] > 128:
                rep.finding("crash|%r" % text, "config %r: exit %s" % (text, I["rc"]), {"kind": "config", "cfg_b64": common.b64(text)})
        # include: cycle, missing, nested
        inc = os.path.join(wd, "self.cfg")
        open(inc, "wb").write(("indent_columns=3\ninclude \"%s\"\nsp_arith=force\n" % inc).encode())
        p = common.sh([common.UNC, "-c", inc, "--update-config"], timeout=60)
        rep.count(key="include-cycle", nontrivial=True)
        if p[0] != 0:
            rep.finding("include-cycle", "a config that includes itself: exit status %s" % p[0], {"kind": "include-cycle"})
        a, b = os.path.join(wd, "a.cfg"), os.path.join(wd, "b.cfg")
        open(a, "w").write("include \"%s\"\nsp_arith=force\n" % b)
        open(b, "w").write("include \"%s\"\nsp_assign=force\n" % a)
        p = common.sh([common.UNC, "-c", a, "--update-config"], timeout=60)
        rep.count(key="include-cycle-2", nontrivial=True)
        if p[0] != 0:
            rep.finding("include-cycle-2", "two configs including each other: exit status %s" % p[0], {"kind": "include-cycle"})
        # diagnostics behind an include name the including file and ITS line numbers (also behind a nested include and when the
        # included file is longer or shorter than the position of the directive)
        for n_inc in (1, 6, 11):
            incp = os.path.join(wd, "inc%d.cfg" % n_inc)
            open(incp, "w").write("".join("sp_arith = force # %d\n" % k for k in range(n_inc)))
            body = ["indent_columns = 3", "include \"%s\"" % incp, "indent_colums = 4", "sp_assign = force", "sp_arith = sometimes", "indent_columns = 99", "no_such = 1"]
            text = ("\n".join(body) + "\n").encode()
            I = cfgrun.impl_load(text, wd)
            rep.count(key=("include-lines", n_inc), nontrivial=True)
            rep.validated()
            want = {3: "unknown-option", 5: None, 6: None, 7: "unknown-option"}
            got = sorted(set(x[0] for x in I["diags"]))
            if got != sorted(want):
                rep.finding("include-linenumbers|%d" % n_inc, "after 'include' of a %d-line file on line 2 the diagnostics of lines 3, 5, 6, 7 name lines %s" % (n_inc, got),
                            {"kind": "config", "cfg_b64": common.b64(text)})
        # nl_max guard (model: too_big over the generated list)
        guard = build.get("gen", {}).get("Registry.v", {}).get("nlmax_guard")
        for text, want in [(b"nl_max=2\nnl_after_func_body=3\n", True), (b"nl_max=3\nnl_after_func_body=3\n", False), (b"nl_max=0\nnl_after_func_body=9\n", False),
                           (b"nl_max=1\nnl_start_of_file_min=2\n", True), (b"nl_max=2\nnl_end_of_file_min=2\n", False)]:
            p = os.path.join(wd, "g.cfg")
            open(p, "wb").write(text)
            f = common.run_unc(["-q", "-c", p, "-l", "C", "-f", src])
            rep.count(key=text, nontrivial=True)
            refused = f[0] != 0 and f[1] .startswith(b"The option") is not None and b"too big" in (f[1] + f[2])
            if want != refused or (want and len(f[1]) > 200):
                rep.finding("nlmax|%r" % text, "nl_max guard: config %r %s (exit %s)" % (text, "not refused" if want else "refused", f[0]), {"kind": "config", "cfg_b64": common.b64(text)})
        # random garbage config text: no crash / hang
        n_g = 60 if tier == "quick" else 1500
        frag = [b"sp_arith", b"=", b" ", b"\"", b"'", b"`", b"\\", b"#", b",", b"force", b"\n", b"set", b"type", b"file_ext", b"include", b"using", b"0.7", b".", b"a.b", b"-", b"~", b"99999999999", b"\t", b"indent_columns", b"\r"]
        for k in range(n_g):
            text = b"".join(r.choice(frag) for _ in range(r.randint(1, 30)))
            if b"include" in text:
                text = text.replace(b"include", b"includ")
            I = cfgrun.impl_load(text, wd, timeout=20)
            M = cfgrun.model_load(m, text)
            rep.count(key=text, nontrivial=True)
            rep.validated()
            if I["rc"] < 0 or I["rc"] > 128:
                rep.finding("crash|%r" % text[:40], "config text %r: exit %s (crash or hang)" % (text[:60], I["rc"]), {"kind": "config", "cfg_b64": common.b64(text)})
                continue
            if b"using" in text:
                continue          # the model keeps only the documented form of 'using <version>' (DESIGN.md): such text is crash-tested, not compared
            d = cfgrun.compare(I, M)
            if d:
                corr.append((text, d))
    m.close()
    if corr and not rep.violations:
        rep.unproved("correspondence Model/Config.v <-> option.cpp on malformed configs", "first differences: %s" % corr[:3])
    if proof_broken and not rep.violations:
        rep.unproved("proof obligations of Properties_C16.v (files: %s)" % ps["broken_files"], build.get("coq_log_tail", ""))
    rep.cov["explanation"] = ("Theorems of Properties_C16.v re-checked against the regenerated registry; %d bad lines (each inserted into a good config) and %d "
                              "garbage configs run on binary and model; no-effect, diagnostic and no-crash oracles on the real binary." % (len(cases), n_g))
    rep.cov["trusted_base"] = rep.assumptions
    return rep.finish(ps)


def replay(rp, build):
    m = common.Model()
    with tempfile.TemporaryDirectory(prefix="c16r_", dir=common.WORK) as wd:
        if "cfg_b64" in rp:
            cfg = common.unb64(rp["cfg_b64"])
            I = cfgrun.impl_load(cfg, wd)
            M = cfgrun.model_load(m, cfg)
            print("impl rc", I["rc"], "diags", I["diags"][:8])
            print("differences to the model:", cfgrun.compare(I, M))
            return 1 if (I["rc"] < 0 or I["rc"] > 128) else 0
        print(rp)
    return 1
