"""Shared exploration for the file-protocol properties (C12, C13, C14): scenarios x fault/crash plans,
model (coq/Model/FsProto.v, extracted) vs binary (under the interposer), plus per-property direct oracles."""
import os

from .. import common, fsrun

SRC_CHANGED = b"int   a;\nvoid f(){return;}\n"
SRC_FAIL = b"#endif\n"
# more than two stdio buffers of output: only then does libc flush in the middle of the write, and a fault can be transient
SRC_BIG = b"".join(b"int   f%d(int a){if(a){return a+%d;}return   %d;}\n" % (i, i, i) for i in range(260))
CFG_A = ""
SRC_SAMELEN = b"char* p;\nchar* q;\n"
CFG_SAMELEN = "sp_before_ptr_star=force\nsp_after_ptr_star=remove\n"
CFG_B = "indent_with_tabs=0\nindent_columns=3\nsp_assign=force\n"


def formatted_of(src, cfg_text, workdir):
    cfg = os.path.join(workdir, "fmt.cfg")
    with open(cfg, "w") as f:
        f.write(cfg_text)
    rc, out, err = common.run_unc(["-q", "-c", cfg, "-l", "C"], inp=src)
    return out if rc == 0 else None


def plans_for(model_trace, tier, nops):
    plans = [[]]
    for k in range(nops + 1):
        plans.append([(k, "crash")])
    for k in range(nops):
        plans.append([(k, "fail")])
    writes = [k for k, t in enumerate(model_trace) if t.startswith("write")]
    for k in writes:
        for j in (0, 1, 7):
            plans.append([(k, "crashw=%d" % j)])
            plans.append([(k, "full=%d" % j)])
    if tier == "thorough":
        # all pairs of single faults (fail/full=0) plus fault followed by crash
        singles = [(k, "fail") for k in range(nops)] + [(k, "full=0") for k in writes]
        for i, a in enumerate(singles):
            for b in singles[i + 1:]:
                if a[0] != b[0]:
                    plans.append([a, b])
            for k in range(a[0] + 1, nops + 1):
                plans.append([a, (k, "crash")])
    return plans


def compare(m, base, scn, formatted, plan):
    I = fsrun.run_impl(base, scn, plan)
    M = fsrun.run_model(m, scn, formatted, plan)
    diffs = []
    if I["trace"] != M["trace"]:
        n = min(len(I["trace"]), len(M["trace"]))
        k = next((i for i in range(n) if I["trace"][i] != M["trace"][i]), n)
        diffs.append("trace differs at op %d: impl %s / model %s" % (k, I["trace"][k:k + 2], M["trace"][k:k + 2]))
    if not fsrun.exit_agrees(I["rc"], M["exit"]):
        diffs.append("exit: impl %s / model %s" % (I["rc"], M["exit"]))
    diffs += fsrun.disk_agrees(I["disk"], M["disk"])
    if M["stdout"] is not None and scn.argv_style != "check" and M["stdout"] != I["stdout"]:
        diffs.append("stdout differs")
    return I, M, diffs


def replay_dict(scn, formatted, plan, I=None):
    d = {"kind": "fs", "style": scn.argv_style, "mode": scn.mode, "orig_b64": common.b64(scn.orig) if scn.orig is not None else None,
         "cfg": scn.cfg_text, "backup_b64": common.b64(scn.backup) if scn.backup is not None else None,
         "md5_of_b64": common.b64(scn.md5_of) if scn.md5_of is not None else None,
         "out_b64": common.b64(scn.out) if scn.out is not None else None,
         "formatted_b64": common.b64(formatted) if formatted is not None else None,
         "plan": [list(p) for p in plan]}
    if I is not None:
        d["observed"] = {"rc": I["rc"], "disk": {k: (common.b64(v) if v is not None else None) for k, v in I["disk"].items()},
                         "trace": I["trace"]}
    return d


def scenario_from_replay(rp):
    ub = lambda k: common.unb64(rp[k]) if rp.get(k) is not None else None
    scn = fsrun.Scenario(rp["mode"], ub("orig_b64"), rp.get("cfg", ""), backup=ub("backup_b64"), md5_of=ub("md5_of_b64"),
                         out=ub("out_b64"), argv_style=rp["style"])
    return scn, ub("formatted_b64"), [tuple(p) for p in rp["plan"]]
