"""C20 — Blank-line limits are respected.
Theorem: coq/Properties/Properties_C20.v (model B): a NEWLINE chunk is written as exactly nl_count line breaks, so the runs
of the output are the nl_count fields of the final chunk list.  The passes that compute nl_count (do_blank_lines,
newlines_eat_start_end, newlines_cleanup_braces ...) are NOT modelled: the bound on the final chunk list is the contract
K_nlmax, evaluated on every explored run together with the byte-level run scan (validated, not proved).
Tie: Render correspondence + oracle on real runs."""
from .. import common
from . import render_common as rc

LEVEL = "proof"
ASSUME = ["Coq kernel; extraction; driver glue; hooks", "the newline passes are covered by contract K_nlmax on the dumped final chunk list and by the output scan, not by a theorem",
          "'no other blank-line count option asks for more than N' is evaluated on the configuration as the binary reports it (--update-config)"]
IARF = ["ignore", "add", "remove", "force"]


def cfg_fn(r, i):
    n = r.choice([0, 1, 1, 2, 2, 3, 4, 6])
    lines = ["indent_columns=4", "indent_with_tabs=0", "nl_max=%d" % n]
    if r.random() < 0.6:
        lines.append("nl_start_of_file=%s" % r.choice(IARF))
        lines.append("nl_start_of_file_min=%d" % r.randint(0, max(0, n if n else 3)))
    if r.random() < 0.6:
        lines.append("nl_end_of_file=%s" % r.choice(IARF))
        lines.append("nl_end_of_file_min=%d" % r.randint(0, max(0, n if n else 3)))
    if r.random() < 0.5:
        lines.append("eat_blanks_after_open_brace=true")
    if r.random() < 0.5:
        lines.append("eat_blanks_before_close_brace=true")
    if n and r.random() < 0.4:
        lines.append("nl_after_func_body=%d" % r.randint(0, n))
    if n and r.random() < 0.3:
        lines.append("nl_before_block_comment=%d" % r.randint(0, n))
    return "\n".join(lines) + "\n", "nlmax%d" % n


def ask_nlmax(R, m):
    """worker-thread question to the extracted model: K_nlmax on the dumped final chunk list"""
    vals = rc.cfg_values(R.case.cfg_path, R.case.cfg_text)
    try:
        N = int(vals.get("nl_max", "0"))
    except ValueError:
        N = 0
    if N > 0 and R.recs is not None:
        from .. import renderrun
        R.nlmax_ans = m.ask("nlmax %d %s" % (N, " ".join(renderrun.model_chunks(R.fin, R.recs))))


def oracle(R, findings):
    vals = rc.cfg_values(R.case.cfg_path, R.case.cfg_text)

    def iv(k):
        try:
            return int(vals.get(k, "0"))
        except ValueError:
            return 0
    N = iv("nl_max")
    fin = R.fin
    att = rc.attributed(R)
    newline = [int(x, 16) for x in R.hdr.get("nl", "a").split(",")]
    frag = R.hdr.get("frag") != "0"
    others_ok = True
    if N > 0:
        for k, v in vals.items():
            if k.startswith("nl_") and k != "nl_max" and v.lstrip("-").isdigit() and int(v) > N:
                others_ok = False
    # ---- contract K_nlmax on the final chunk list + byte-level runs
    if N > 0 and others_ok:
        for i, c in enumerate(fin):
            if c["type"] != "NEWLINE" or (c["flags"] & 1):
                continue
            prev_t = fin[i - 1]["type"] if i else None
            next_t = fin[i + 1]["type"] if i + 1 < len(fin) else None
            if prev_t in ("IGNORED", "JUNK") or next_t in ("IGNORED", "JUNK"):
                continue
            run = c["nl_count"]
            j = i + 1
            while j < len(fin) and fin[j]["type"] == "NEWLINE":
                run += fin[j]["nl_count"]
                j += 1
            if i and fin[i - 1]["type"] == "NEWLINE":
                continue
            if run > N:
                ctx = rc.dumps.text_str(fin[i - 1]) if i else "<start>"
                findings.append(("nlmax|%s|%s" % (prev_t, next_t), "nl_max=%d but %d consecutive line breaks after %r (%s) before %s" % (N, run, ctx[:30], prev_t, next_t)))
        # the verified checker (Model/NlMax.v nlmax_ok, extracted): same contract, sound by C20_checked_lists_have_bounded_runs
        ans = getattr(R, "nlmax_ans", None)
        if ans is not None:
            if ans.startswith("ERR"):
                findings.append(("nlmax-checker-error", "the extracted K_nlmax checker failed: %s" % ans[:120]))
            elif ans.split()[0] == "0" and not any(f[0].startswith("nlmax") for f in findings):
                findings.append(("nlmax-checker", "nl_max=%d: the verified checker K_nlmax (NlMax.nlmax_ok) rejects the final chunk list" % N))
        # the same on the bytes
        k, runlen, n = 0, 0, len(newline)
        worst = 0
        while k < len(att):
            if [a[0] for a in att[k:k + n]] == newline and att[k][1] == "NEWLINE" and not att[k][3]:
                runlen += 1
                k += n
                worst = max(worst, runlen)
            else:
                runlen = 0
                k += 1
        ign = any(c["type"] in ("IGNORED", "JUNK") for c in fin)
        if worst > N and not ign and not any(f[0].startswith("nlmax") for f in findings):
            findings.append(("nlmax-bytes", "nl_max=%d but the output has a run of %d line breaks" % (N, worst)))
    # ---- start / end of file
    if not frag and att and (N == 0 or others_ok):
        cps = [a[0] for a in att]
        n = len(newline)
        lead = 0
        k = 0
        while cps[k:k + n] == newline:
            lead += 1
            k += n
        tail = 0
        k = len(cps)
        while k >= n and cps[k - n:k] == newline:
            tail += 1
            k -= n
        so, sm = vals.get("nl_start_of_file", "ignore"), iv("nl_start_of_file_min")
        eo, em = vals.get("nl_end_of_file", "ignore"), iv("nl_end_of_file_min")
        only_nl = all(c["type"] == "NEWLINE" for c in fin)
        if not only_nl:
            if so == "remove" and lead != 0:
                findings.append(("sof-remove", "nl_start_of_file=remove but the output starts with %d line break(s)" % lead))
            if so == "force" and lead != sm:
                findings.append(("sof-force", "nl_start_of_file=force, min=%d but the output starts with %d line break(s)" % (sm, lead)))
            if so == "add" and sm > 0 and lead < sm:
                findings.append(("sof-add", "nl_start_of_file=add, min=%d but the output starts with %d line break(s)" % (sm, lead)))
            last_ty = att[-1][1]
            if last_ty == "NEWLINE" or tail == 0:
                if eo == "remove" and tail != 0:
                    findings.append(("eof-remove", "nl_end_of_file=remove but the output ends with %d line break(s)" % tail))
                if eo == "force" and tail != em:
                    findings.append(("eof-force", "nl_end_of_file=force, min=%d but the output ends with %d line break(s)" % (em, tail)))
                if eo == "add" and em > 0 and tail < em:
                    findings.append(("eof-add", "nl_end_of_file=add, min=%d but the output ends with %d line break(s)" % (em, tail)))
    # ---- blank lines next to braces
    # documented overrides: nl_inside_namespace > 0 sets the count inside a namespace, nl_inside_empty_func > 0 inside an empty function body
    def overridden(c, other):
        return (iv("nl_inside_namespace") > 0 and c["ptype"] == "NAMESPACE") or \
               (iv("nl_inside_empty_func") > 0 and c["ptype"] in ("FUNC_DEF", "FUNC_CLASS_DEF") and other in ("BRACE_CLOSE", "BRACE_OPEN"))
    if vals.get("eat_blanks_after_open_brace") == "true":
        for i, c in enumerate(fin[:-1]):
            if c["type"] == "BRACE_OPEN" and fin[i + 1]["type"] == "NEWLINE" and fin[i + 1]["nl_count"] > 1 and not (c["flags"] & 1):
                nxt = fin[i + 2]["type"] if i + 2 < len(fin) else None
                if overridden(c, nxt):
                    continue
                findings.append(("eat-open|%s|%s" % (c["ptype"], nxt), "eat_blanks_after_open_brace: %d line breaks after '{' (parent %s, next %s)" % (fin[i + 1]["nl_count"], c["ptype"], nxt)))
    if vals.get("eat_blanks_before_close_brace") == "true":
        for i, c in enumerate(fin):
            if i and c["type"] == "BRACE_CLOSE" and fin[i - 1]["type"] == "NEWLINE" and fin[i - 1]["nl_count"] > 1 and not (c["flags"] & 1):
                prv = fin[i - 2]["type"] if i >= 2 else None
                if overridden(c, prv):
                    continue
                findings.append(("eat-close|%s|%s" % (c["ptype"], prv), "eat_blanks_before_close_brace: %d line breaks before '}' (parent %s, previous %s)" % (fin[i - 1]["nl_count"], c["ptype"], prv)))


# Constructs that a blank-line COUNT option governs (nl_after_struct, nl_after_class, nl_after_func_body, nl_var_def_blk_*, ...)
# placed directly next to an opening or closing brace: eat_blanks_* must win there whatever the count options say (round-4 seed:
# the nl_inside_empty_func exception of can_increase_nl() applied to non-empty bodies).
BRACE_ADJ_CPP = b"""void empty()
{
}

int f1(int x)
{
   struct S
   {
      int a;
   };
}

int f2(int x)
{
   class K
   {
public:
      int a;
      void m() { }
   };
}

int f3(int x)
{
   enum E { A, B };
}

int f4(int x)
{
   union U { int a; char b; };
   return x;
}

namespace N
{
struct T
{
   int a;
   int g() { return 1; }
};
class V
{
public:
   V();
   ~V();
private:
   int v;
};
}

int f5(int x)
{
   int y = x;
   int z = y;
   if (x)
   {
      typedef int I;
   }
   switch (x)
   {
   case 1:
   {
      struct Q { int q; };
   }
   }
}
"""
BRACE_ADJ_C = b"""void empty(void)
{
}

int f1(int x)
{
   struct S
   {
      int a;
   };
}

int f4(int x)
{
   int y = x;
   typedef int I;
}

struct T
{
   int a;
   struct I { int b; } i;
};

int f5(int x)
{
   if (x)
   {
      int y = x;
   }
}
"""


def brace_adjacent_cases():
    from . import lex_common as lx
    counts = [o["name"] for o in lx.ws_options() if o["type"] == "unsigned" and o["name"].startswith("nl_")
              and o["name"] not in ("nl_max", "nl_max_blank_in_func", "nl_start_of_file_min", "nl_end_of_file_min")
              and not o["name"].endswith("_thresh") and "one_liner" not in o["name"]]
    out = []
    eat = "nl_max=3\neat_blanks_after_open_brace=true\neat_blanks_before_close_brace=true\n"
    for lang, data in (("CPP", BRACE_ADJ_CPP), ("C", BRACE_ADJ_C)):
        for nie in (0, 1):
            base = eat + "nl_inside_empty_func=%d\n" % nie
            for v in (2, 3):
                allc = "".join("%s=%d\n" % (n, v) for n in counts if n != "nl_inside_empty_func")
                out.append(rc.Case("brace-adj:%s:all=%d:nie%d" % (lang, v, nie), lang, base + allc, data))
            for n in counts:
                if n == "nl_inside_empty_func":
                    continue
                out.append(rc.Case("brace-adj:%s:%s:nie%d" % (lang, n, nie), lang, base + "%s=2\n" % n, data))
    return out


def run(rep, build, tier, seed):
    r = common.rng(seed, "C20")
    rep.cov["rule"] = ("generated block-structured C programs with 0..6 blank lines injected at random line boundaries x nl_max 0..6 x nl_start/end_of_file at all "
                       "four values x minima x eat_blanks_* x count options within nl_max; plus a corpus slice with the configs of tests/*.test. "
                       "Non-trivial = more than 5 chunks were rendered.")
    if build.get("uncrustify") != "ok" or build.get("model") != "ok":
        rep.unproved("build failed", "\n".join(build["errors"])[-3000:])
        return rep.finish(common.proof_status("C20", build))
    nc, ng = (50, 80) if tier == "quick" else (2033, 2500)
    cases = rc.generated_cases(r, ng, cfg_fn, dict(indent=4, blank_max=6, comments=True)) + rc.corpus_cases(r, nc)
    # every value of the file-edge options x minima x inputs with and without blank lines at the edges (exhaustive)
    core = b"int a;\n\n\n\nint f(void)\n{\n\n    return 1;\n\n}\n"
    for pre, post in [(b"", b""), (b"\n\n", b"\n\n"), (b"\n", b""), (b"", b"\n\n\n")]:
        for which in ("start", "end"):
            for v in IARF:
                for mn in (None, 0, 1, 2, 3):
                    cfg = "nl_%s_of_file=%s\n" % (which, v) + ("" if mn is None else "nl_%s_of_file_min=%d\n" % (which, mn))
                    for nm in ("", "nl_max=2\n"):
                        if nm and mn is not None and mn > 2:
                            continue
                        cases.append(rc.Case("edge:%s:%s:%s:pre%d:post%d:%s" % (which, v, mn, len(pre), len(post), nm.strip()), "C", cfg + nm, pre + core + post))
    # both edges at once: the start and end options (and their minima) must not influence each other
    for sv in ("add", "force"):
        for smn in (0, 2, 3):
            for ev in ("ignore", "force", "remove"):
                for emn in (0, 1, 2):
                    for pre in (b"", b"\n\n\n"):
                        cfg = "nl_start_of_file=%s\nnl_start_of_file_min=%d\nnl_end_of_file=%s\nnl_end_of_file_min=%d\nnl_max=3\n" % (sv, smn, ev, emn)
                        cases.append(rc.Case("edges:%s:%d:%s:%d:pre%d" % (sv, smn, ev, emn, len(pre)), "C", cfg, pre + core))
    cases += brace_adjacent_cases()
    corr = rc.explore(rep, cases, oracle, tier, "render", extra=ask_nlmax)
    rep.sample({"generated_config_example": cases[0].cfg_text, "input_head": cases[0].data[:160].decode("latin1")})
    return rc.finish(rep, build, "C20", corr, "correspondence Model/Render.v <-> output.cpp (emitted code points)",
                     "Theorem of Properties_C20.v re-checked by make; %d runs: render correspondence, K_nlmax on the final chunk list, byte-level runs, "
                     "file start/end counts and brace-adjacent blanks checked." % rep.cov["evaluations"], ASSUME)


def replay(rp, build):
    return rc.replay_format(rp, oracle, extra=ask_nlmax)
