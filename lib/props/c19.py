"""C19 — Spacing options mean what they say at the places they are reported to govern.
Theorems: coq/Properties/Properties_C19.v over the GENERATED table of do_space() return sites (translator
gen/gen_space.py, re-run and re-proved every run) and the model of the decision's application (apply_gap).
Tie: translator + hook H2: for every adjacent pair decided by space_text() on the explored inputs, the site that
logged the rule is looked up by its source line; the value do_space() returned must be one the table allows for the
configured value of the option NAMED in the log, and the gap chosen must obey apply_gap.
Explored: each sp_ option at each of its four values over a corpus slice + random joint assignments."""
import os
import sys
import tempfile
import threading
from concurrent.futures import ThreadPoolExecutor

from .. import common, dumps
from . import render_common as rc

LEVEL = "proof"
IARF = {"ignore": 0, "add": 1, "remove": 2, "force": 3}
NAMES = ["ignore", "add", "remove", "force"]
ASSUME = ["Coq kernel (vm_compute over the generated site table and registry); extraction; driver glue",
          "translator gen/gen_space.py: every return of do_space() must match a known shape, else it fails loudly",
          "hook H2 (rule, raw and final decision, columns per pair)", "alignment and code_width splitting left at their defaults (off)"]


def sites():
    sys.path.insert(0, os.path.join(common.ROOT, "gen"))
    import gen_space
    if not gen_space.SITES:
        gen_space.generate(common.REPO)
    by_line = {}
    for s in gen_space.SITES:
        by_line.setdefault(s["line"], []).append(s)
    return by_line


def allowed(site, v):
    sh = site["shape"]
    if sh == "Opt":
        return {v}
    if sh == "Const":
        return {site["const"]}
    if sh == "OrAdd":
        return {v | 1}
    if sh == "AddUnlessIgnore":
        return {v | (1 if v else 0)}
    if sh == "RemoveToForce":
        return {3}
    if sh == "MaybeIgnore":
        return {v, 0}
    if sh == "MaybeOrAdd":
        return {v, v | 1}
    return set()


# inside Qt SIGNAL()/SLOT() macros uncrustify replaces the user's spacing options by its own (option
# use_options_overriding_for_qt_macros, default true, documented): switched off so that every decision is the configured one
QT_OFF = "indent_with_tabs=0\nuse_options_overriding_for_qt_macros=false\n"


def apply_gap(av, min_sp, noc, pce):
    m = max(1, min_sp)
    keep = pce <= noc and pce != 0
    if av == 3:
        return m
    if av == 1:
        return max(noc - pce, m) if keep else m
    if av == 2:
        return 0
    return (noc - pce) if keep else 0


def check_records(recs, vals, by_line, findings, label):
    n_opt = 0
    for rec in recs:
        rule = rec["rule"]
        base = rule.split(" ")[0]
        cand = by_line.get(rec["rule_line"], [])
        cand = [s for s in cand if s["rule"] == rule] or cand
        if base in vals and vals[base] in IARF:
            v = IARF[vals[base]]
            n_opt += 1
            if cand:
                ok = any(rec["raw_av"] in allowed(s, IARF.get(vals.get(s["opt"], "ignore"), 0) if s["opt"] else 0) for s in cand)
                named_ok = any((not s["opt"]) or s["opt"] == base for s in cand)
                if not ok or not named_ok or (cand[0]["shape"] == "Opt" and rec["raw_av"] != v):
                    findings.append(("value|%s" % rule, "pair '%s' '%s' (%d:%d): spacing attributed to %s (configured %s) but do_space returned %s"
                                     % ("".join(map(chr, rec["text1"]))[:20], "".join(map(chr, rec["text2"]))[:20], rec["l1"], rec["c1"], base, vals[base], NAMES[rec["raw_av"]])))
                    continue
        # application: the column chosen by space_text obeys the (force-adjusted) decision
        if rec["t1"] in ("VBRACE_OPEN", "VBRACE_CLOSE") or rec["t2"] in ("VBRACE_OPEN", "VBRACE_CLOSE") or rec["next_comment"] or rec["nl_count"]:
            continue
        want_av = rec["raw_av"] | 1 if rec["forced"] else rec["raw_av"]
        if rec["av"] != want_av:
            findings.append(("ensure|%s" % rule, "ensure_force_space: raw %s forced=%d but applied %s" % (NAMES[rec["raw_av"]], rec["forced"], NAMES[rec["av"]])))
            continue
        gap = rec["column"] - rec["prev_column"]
        # next orig col is c2; pc orig_col_end
        want = apply_gap(rec["av"], rec["min_sp"], rec["c2"], rec["orig_col_end"]) if rec["l1"] == rec["l2"] or True else None
        if gap != want:
            findings.append(("gap|%s|%s" % (rule, NAMES[rec["av"]]), "pair '%s' '%s' (%d:%d) rule %s decision %s: gap %d, the decision means %d"
                             % ("".join(map(chr, rec["text1"]))[:20], "".join(map(chr, rec["text2"]))[:20], rec["l1"], rec["c1"], rule, NAMES[rec["av"]], gap, want)))
    return n_opt


SKIP_T = ("NEWLINE", "NL_CONT_", "COMMENT", "COMMENT_CPP", "COMMENT_MULTI", "COMMENT_EMBED", "COMMENT_START", "COMMENT_END", "COMMENT_WHOLE", "COMMENT_ENDIF",
          "VBRACE_OPEN", "VBRACE_CLOSE", "IGNORED", "JUNK", "PP_IGNORE")


# ---- documented scope of the options: for a catalogue of unambiguous constructs, the option that governs the pair (first
# token, second token) according to the option's documentation.  The table theorem (space_rules_faithful) shows that a rule
# returns the option it logs; this catalogue is what says the rule fires for the RIGHT pair.  One construct per entry, every
# sp_ option forced, the pair is looked up on the entry's own line(s).
SCOPE_C = [
("union U { int a; };", "{","int",["sp_inside_braces_struct"]),
("union U2 { int a; };", ";","}",["sp_inside_braces_struct"]),
("struct S { int a; };", "{","int",["sp_inside_braces_struct"]),
("enum E { EA, EB };", "{","EA",["sp_inside_braces_enum"]),
("enum E2 { EA2, EB2 };", "EB2","}",["sp_inside_braces_enum"]),
("void f1(void) { int x; x = b + c; }", "b","+",["sp_arith","sp_arith_additive"]),
("void f2(void) { a = b; }", "a","=",["sp_assign","sp_before_assign"]),
("void f3(void) { a = b; }", "=","b",["sp_assign","sp_after_assign"]),
("void f4(void) { if (a == b) c(); }", "a","==",["sp_compare"]),
("void f5(void) { if (a && b) c(); }", "a","&&",["sp_bool"]),
("void f6(void) { x = a ? b : c; }", "a","?",["sp_cond_question","sp_cond_question_before","sp_cond_ternary_short"]),
("void f7(void) { x = a ? b : c; }", "b",":",["sp_cond_colon","sp_cond_colon_before"]),
("void f8(void) { g(a, b); }", ",","b",["sp_after_comma"]),
("void f9(void) { g(a , b); }", "a",",",["sp_before_comma"]),
("void f10(void) { g (a); }", "g","(",["sp_func_call_paren"]),
("void f11 (int a);", "f11","(",["sp_func_proto_paren"]),
("void f12 (int a) { }", "f12","(",["sp_func_def_paren"]),
("void f13(void) { if (a) b(); }", "if","(",["sp_before_sparen"]),
("void f14(void) { if (a) b(); }", "(","a",["sp_inside_sparen","sp_inside_sparen_open"]),
("void f15(void) { if (a) b(); }", "a",")",["sp_inside_sparen","sp_inside_sparen_close"]),
("void f17(void) { x = (a + b) * c; }", "(","a",["sp_inside_paren"]),
("int *p1;", "int","*",["sp_before_ptr_star","sp_before_unnamed_ptr_star"]),
("int *p2;", "*","p2",["sp_after_ptr_star"]),
("void f18(void) { x = *p; }", "*","p",["sp_deref"]),
("void f19(void) { x = &y; }", "&","y",["sp_addr"]),
("void f20(void) { x = !a; }", "!","a",["sp_not"]),
("void f21(void) { x = ~a; }", "~","a",["sp_inv"]),
("void f22(void) { x = -a; }", "-","a",["sp_sign"]),
("void f23(void) { i++; }", "i","++",["sp_incdec"]),
("void f24(void) { arr [1] = 2; }", "arr","[",["sp_before_square"]),
("void f25(void) { arr[ 1 ] = 2; }", "[","1",["sp_inside_square"]),
("void f26(void) { x = (int) y; }", ")","y",["sp_after_cast"]),
("void f27(void) { x = ( int ) y; }", "(","int",["sp_inside_paren_cast"]),
("void f28(void) { x = sizeof (int); }", "sizeof","(",["sp_sizeof_paren"]),
("int f29(void) { return (a); }", "return","(",["sp_return_paren"]),
("void f30(void) { for (i = 0; i < 3; i++) x(); }", ";","i",["sp_after_semi_for","sp_after_semi"]),
("void f31(void) { for (i = 0 ; i < 3; i++) x(); }", "0",";",["sp_before_semi_for"]),
("void f32(void) { x = 1 ; }", "1",";",["sp_before_semi"]),
("void f33(void) { p->m = 1; }", "p","->",["sp_member"]),
("void f34(void) { s.m = 1; }", "s",".",["sp_member"]),
("void f35(void) { do { x(); } while (a); }", "}","while",["sp_brace_close_while"]),
("void f36(void) { if (a) { b(); } else { c(); } }", "}","else",["sp_brace_else"]),
("void f37(void) { if (a) { b(); } else { c(); } }", "else","{",["sp_else_brace"]),
("void f38(void)\n{ if (a) { b(); } }", ")","{",["sp_sparen_brace"]),
("void f39(void) { switch (a) { case 1 : break; } }", "1",":",["sp_before_case_colon"]),
("void f40(void) { x = a << 2; }", "a","<<",["sp_arith"]),
("struct B1 { int a : 3; };", "a",":",["sp_before_bit_colon","sp_bit_colon"]),
("struct B2 { int a : 3; };", ":","3",["sp_after_bit_colon","sp_bit_colon"]),
("void f41(void) { while (a) b(); }", "while","(",["sp_before_sparen"]),
("int f42(void) { return a; }", "return","a",["sp_return"]),
("void f43(void) { x = a * b; }", "a","*",["sp_arith"]),
("void f44(void) { x = a | b; }", "a","|",["sp_arith"]),
("void f45(void) { x += 1; }", "x","+=",["sp_assign","sp_before_assign"]),
]
SCOPE_CPP = [
("class A1 : public B { };", "A1",":",["sp_before_class_colon"]),
("class A2 : public B { };", ":","public",["sp_after_class_colon"]),
("template <typename T> class C1;", "template","<",["sp_template_angle"]),
("template < typename T > class C2;", "<","typename",["sp_inside_angle"]),
("void f1() { a ::b(); }", "a","::",["sp_before_dc"]),
("void f2() { a:: b(); }", "::","b",["sp_after_dc"]),
("void f3() { x = new int; }", "new","int",["sp_after_new"]),
("void f4() { throw (a); }", "throw","(",["sp_throw_paren"]),
("void f5() { try { a(); } catch (...) { } }", "}","catch",["sp_brace_catch"]),
("void f6() { try { a(); } catch (...) { } }", "catch","(",["sp_catch_paren"]),
("namespace N { int a; }", "N","{",["sp_word_brace_ns"]),
("void f7() { auto l = [] (int a) { return a; }; }", "]","(",["sp_cpp_lambda_square_paren"]),
("int &r1 = x;", "int","&",["sp_before_byref"]),
("int &r2 = x;", "&","r2",["sp_after_byref"]),
("void f8() { x = static_cast<int> (y); }", ">","(",["sp_angle_paren"]),
("A::A() : b(1) { }", ")",":",["sp_before_constr_colon"]),
("A::A(int) : c(1) { }", ":","c",["sp_after_constr_colon"]),
("void f9() { operator + (a); }", "operator","+",["sp_after_operator"]),
]


def scope_sources():
    out = {}
    for lang, tab in (("C", SCOPE_C), ("CPP", SCOPE_CPP)):
        lines, index = [], []
        for code, t1, t2, allowed in tab:
            first = len(lines) + 1
            lines += code.split("\n")
            index.append((first, len(lines), t1, t2, allowed, code))
        out[lang] = ("\n".join(lines) + "\n", index)
    return out


def check_scope(lang, recs, findings):
    text, index = scope_sources()[lang]
    for first, last, t1, t2, allowed, code in index:
        got = [r for r in recs if first <= r["l1"] <= last and "".join(map(chr, r["text1"])) == t1 and "".join(map(chr, r["text2"])) == t2]
        rule = got[-1]["rule"].split(" ")[0] if got else None
        if rule not in allowed:
            findings.append(("scope|%s" % allowed[0], "the pair '%s' '%s' of %r is documented to be governed by %s, but do_space() applies %s"
                             % (t1, t2, code.replace("\n", " "), " / ".join(allowed), rule)))


def check_output_gaps(sp, fin, recs, findings, src=None):
    """the blanks actually WRITTEN between the two chunks of a decided pair (hook H1: the characters emitted per chunk) against the
    decision space_text() took for it: force = exactly max(1, min) blanks, remove = none, add = at least one.  Decisions are
    taken before the output stage, which is free to recompute a column (it does for backslash-newlines)."""
    by_pos = {}
    for i, c in enumerate(fin):
        by_pos[(c["orig_line"], c["orig_col"], c["type"])] = i
    lead = {}
    for rec in recs:
        n = 0
        for cp in rec["chars"]:
            if cp in (32, 9):
                n += 1
            else:
                break
        lead[rec["begin"]] = (n, len(rec["chars"]), rec["pre"])
    n_checked = 0
    for rec in sp:
        cont = rec["t2"] == "NL_CONT"         # a backslash-newline is a chunk with a line break of its own
        if (rec["nl_count"] and not cont) or rec["next_comment"] or rec["t1"] in SKIP_T or rec["t2"] in SKIP_T \
                or rec["t1"].startswith("COMMENT") or rec["t2"].startswith("COMMENT"):     # comments are placed by the comment rules (columns, alignment)
            continue
        i = by_pos.get((rec["l2"], rec["c2"], rec["t2"]))
        if i is None or i == 0 or i not in lead:
            continue
        a = fin[i - 1]
        if (a["orig_line"], a["orig_col"], a["type"]) != (rec["l1"], rec["c1"], rec["t1"]) or a["type"] in SKIP_T or (i - 1) not in lead:
            continue
        if fin[i]["flags"] & dumps.PCF_WAS_ALIGNED or ((fin[i].get("nl_count") or 0) and not cont):
            continue
        n, total, pre = lead[i]
        if pre[3]:              # did_newline: the chunk starts an output line, its column is the indenter's
            continue
        n_checked += 1
        if rec["av"] == 0:
            # Ignore keeps presence or absence as in the input: judged for two chunks that stood on one input line, in this order
            b = fin[i]
            # a backslash-newline that a newline option inserted into a macro body carries the position of a neighbour: only continuations of the input count
            in_input = not cont or (src is not None and 0 < b["orig_line"] <= len(src) and src[b["orig_line"] - 1].rstrip(b" \t\r").endswith(b"\\"))
            if in_input and a["orig_line"] == b["orig_line"] and a["orig_line"] > 0 and 0 < a["orig_col"] < b["orig_col"] and a["orig_col_end"] > 0:
                had = b["orig_col"] > a["orig_col_end"]
                if had != (n > 0):
                    cause = rec["rule"] if " from " in rec["rule"] else rec["rule"].split(" ")[0]
                    findings.append(("written-gap|%s|ignore" % cause,
                                     "pair '%s' '%s' (%d:%d), rule %s, decision ignore: the input had %s between them, %d blank(s) written"
                                     % ("".join(map(chr, rec["text1"]))[:20], "".join(map(chr, rec["text2"]))[:20], rec["l1"], rec["c1"], rec["rule"],
                                        "white space" if had else "nothing", n)))
            continue
        want = max(1, rec["min_sp"])
        bad = (rec["av"] == 3 and n != want) or (rec["av"] == 2 and n != 0) or (rec["av"] == 1 and n < 1)
        if bad:
            # a literal with raw tabs is wider on the page than the length space_text() reckons with: recorded cause of its own
            cause = "literal-tab" if 9 in rec["text1"] else rec["rule"] if " from " in rec["rule"] else rec["rule"].split(" ")[0]
            findings.append(("written-gap|%s|%s" % (cause, NAMES[rec["av"]]),
                             "pair '%s' '%s' (%d:%d), rule %s, decision %s: %d blank(s) written between them"
                             % ("".join(map(chr, rec["text1"]))[:20], "".join(map(chr, rec["text2"]))[:20], rec["l1"], rec["c1"], rec["rule"], NAMES[rec["av"]], n)))
    return n_checked


def run(rep, build, tier, seed):
    r = common.rng(seed, "C19")
    ps = common.proof_status("C19", build)
    proof_broken = ps["discharged"] < ps["obligations"] or bool(build["forbidden"]) or build.get("model") != "ok"
    rep.cov["rule"] = ("translator: every return site of do_space() (count in evidence); dynamic: corpus inputs (C, C++, Java, ObjC, C#, D, ...) under configs that set "
                       "EVERY sp_ IARF option to one of its four values (4 uniform configs + random joint assignments), every decided pair checked against the site table "
                       "and apply_gap. Non-trivial = the run produced at least one pair attributed to an option.")
    rep.assumptions = ASSUME
    if build.get("uncrustify") != "ok" or build.get("model") != "ok":
        rep.unproved("build failed", "\n".join(build["errors"])[-3000:])
        return rep.finish(ps)
    ginfo = build.get("gen", {})
    gerr = [k for k, v in ginfo.items() if isinstance(v, dict) and "error" in v]
    by_line = sites() if "gen_space.py" not in gerr else {}
    from . import c15
    opts = [o["name"] for o in c15.options() if o["type"] == "iarf_e" and (o["name"].startswith("sp_") or o["name"].startswith("pp_space") or o["name"] == "pp_indent")]
    cor = common.corpus()
    files = []
    seen = set()
    for lang, cfg, inp, suite, num in cor:
        if inp not in seen and os.path.getsize(inp) < 20000:
            seen.add(inp)
            files.append((lang or common.lang_of_path(inp), inp))
    nfiles = 40 if tier == "quick" else len(files)
    pick = r.sample(files, min(nfiles, len(files)))
    # fixed inputs for pairs the corpus slice of a quick run may not contain (backslash-newlines behind 0, 1, 2, 5 blanks and a tab ...)
    sdir = os.path.join(common.ROOT, "corpus", "c19")
    for fn in sorted(os.listdir(sdir)) if os.path.isdir(sdir) else []:
        pick.append(("CPP" if fn.endswith(".cpp") else "C", os.path.join(sdir, fn)))
    cfgs = []
    for name in NAMES:
        cfgs.append(("all-" + name, "".join("%s=%s\n" % (o, name) for o in opts)))
    for k in range(3 if tier == "quick" else 40):
        cfgs.append(("random-%d" % k, "".join("%s=%s\n" % (o, r.choice(NAMES)) for o in opts)))
    base = tempfile.mkdtemp(prefix="c19_", dir=common.WORK)
    tl = threading.local()
    jobs = [(lang, inp, cn, ct) for (lang, inp) in pick for (cn, ct) in cfgs]

    def work(job):
        lang, inp, cn, ct = job
        if not hasattr(tl, "wd"):
            tl.wd = tempfile.mkdtemp(dir=base)
        cfgp = os.path.join(tl.wd, "c.cfg")
        open(cfgp, "w").write(ct + QT_OFF)
        rc_, out, err, prefix = dumps.run_with_dumps(["-q", "-c", cfgp, "-l", lang, "-f", inp], tl.wd, timeout=60)
        recs = dumps.parse_sp(prefix + ".0.sp") if rc_ == 0 else []
        wf, wn = [], 0
        if rc_ == 0 and os.path.exists(prefix + ".0.fin") and os.path.exists(prefix + ".0.out"):
            _, _, fin = dumps.parse_chunks(prefix + ".0.fin")
            wn = check_output_gaps(recs, fin, dumps.parse_out(prefix + ".0.out"), wf, src=open(inp, "rb").read().split(b"\n"))
        return job, rc_, recs, wf, wn
    pairs = written = 0
    vals_cache = {}
    with ThreadPoolExecutor(max_workers=8) as ex:
        for job, rc_, recs, wf, wn in ex.map(work, jobs):
            lang, inp, cn, ct = job
            if cn not in vals_cache:
                vals_cache[cn] = dict(l.split("=") for l in ct.strip().split("\n"))
            findings = list(wf)
            written += wn
            n_opt = check_records(recs, vals_cache[cn], by_line, findings, cn) if by_line else 0
            pairs += len(recs)
            rep.count(key=(inp, cn), nontrivial=n_opt > 0)
            if recs:
                rep.validated()
            for key, what in findings[:3]:
                rep.finding(key, "%s [%s, %s]" % (what, os.path.basename(inp), cn),
                            {"kind": "space", "input": inp, "lang": lang, "cfg": ct})
    # the documented-scope catalogue, every sp_ option forced
    sdir2 = os.path.join(common.ROOT, "corpus", "c19")
    for lang, (text, index) in scope_sources().items():
        fp = os.path.join(sdir2, "scope_%s.%s" % (lang.lower(), "cpp" if lang == "CPP" else "c"))
        if not os.path.exists(fp) or open(fp).read() != text:
            rep.unproved("corpus/c19/%s is not the text of the SCOPE table" % os.path.basename(fp), "regenerate it with: python3 -c 'from lib.props import c19; c19.write_scope_files()'")
            continue
        wd3 = tempfile.mkdtemp(dir=base)
        cfgp = os.path.join(wd3, "c.cfg")
        ct = "".join("%s=force\n" % o for o in opts)
        open(cfgp, "w").write(ct + QT_OFF)
        rc_, out, err, prefix = dumps.run_with_dumps(["-q", "-c", cfgp, "-l", lang, "-f", fp], wd3, timeout=60)
        sf = []
        check_scope(lang, dumps.parse_sp(prefix + ".0.sp") if rc_ == 0 else [], sf)
        rep.count(key=("scope", lang), nontrivial=True)
        rep.validated()
        for key, what in sf:
            rep.finding(key, what, {"kind": "space", "input": fp, "lang": lang, "cfg": ct, "scope": True})
    import shutil
    shutil.rmtree(base, ignore_errors=True)
    rep.cov["pairs_checked"] = pairs
    rep.cov["scope_entries"] = len(SCOPE_C) + len(SCOPE_CPP)
    rep.cov["written_gaps_checked"] = written
    rep.cov["generated"] = {k: v for k, v in ginfo.get("SpaceRules.v", {}).items() if k != "changed"}
    rep.sample({"sites": rep.cov["generated"].get("sites"), "shapes": rep.cov["generated"].get("shapes"), "configs": [c[0] for c in cfgs]})
    # ---- failing-input search when the site table is no longer faithful: aim at the offending sites
    iarf_names = set(opts) | set(o["name"] for o in c15.options() if o["type"] == "iarf_e")
    bad_sites = []
    for lst in by_line.values():
        for s_ in lst:
            b = s_["rule"].split(" ")[0]
            if s_["shape"] != "Const" and b in iarf_names and s_["opt"] != b:
                bad_sites.append(s_)
            if s_["shape"] == "Const" and b in iarf_names:
                bad_sites.append(s_)
    if bad_sites and not rep.violations:
        base2 = tempfile.mkdtemp(prefix="c19s_", dir=common.WORK)
        for s_ in bad_sites[:3]:
            b = s_["rule"].split(" ")[0]
            found = [None]
            for vb, vo in (("force", "remove"), ("remove", "force")):
                ct = "%s=%s\n" % (b, vb) + ("%s=%s\n" % (s_["opt"], vo) if s_["opt"] else "")
                vals = {b: vb}
                if s_["opt"]:
                    vals[s_["opt"]] = vo

                def probe(fl):
                    lang, inp = fl
                    wd2 = tempfile.mkdtemp(dir=base2)
                    cfgp = os.path.join(wd2, "c.cfg")
                    open(cfgp, "w").write(ct + QT_OFF)
                    rc_, out, err, prefix = dumps.run_with_dumps(["-q", "-c", cfgp, "-l", lang, "-f", inp], wd2, timeout=60)
                    recs = dumps.parse_sp(prefix + ".0.sp") if rc_ == 0 else []
                    shutil.rmtree(wd2, ignore_errors=True)
                    for rec in recs:
                        if rec["rule_line"] == s_["line"] and rec["rule"] == s_["rule"] and rec["raw_av"] != IARF[vb]:
                            return (lang, inp, rec)
                    return None
                with ThreadPoolExecutor(max_workers=8) as ex:
                    for res in ex.map(probe, files):
                        if res and not found[0]:
                            found[0] = (res, ct, vb)
                if found[0]:
                    break
            if found[0]:
                (lang, inp, rec), ct, vb = found[0]
                rep.finding("site|%s|%d" % (s_["rule"], s_["line"]),
                            "space.cpp line %d logs rule %s but returns %s: with %s the pair '%s' '%s' at %d:%d of %s gets %s"
                            % (s_["line"], s_["rule"], "options::%s()" % s_["opt"] if s_["opt"] else "a constant", ct.strip().replace("\n", ", "),
                               "".join(map(chr, rec["text1"]))[:20], "".join(map(chr, rec["text2"]))[:20], rec["l1"], rec["c1"], os.path.basename(inp), NAMES[rec["raw_av"]]),
                            {"kind": "space", "input": inp, "lang": lang, "cfg": ct})
        shutil.rmtree(base2, ignore_errors=True)
    if gerr and not rep.violations:
        rep.unproved("translator no longer recognises src/space.cpp / options", str({k: ginfo[k] for k in gerr})[:1500])
    if proof_broken and not rep.violations:
        # the table theorem broke: name the offending sites
        rep.unproved("proof obligations of Properties_C19.v (files: %s) - a do_space() site returns the value of an option other than the one it logs, or has an unknown shape"
                     % ps["broken_files"], build.get("coq_log_tail", ""))
    rep.cov["explanation"] = ("C19_rules_faithful re-proved over the regenerated table (%s sites); %d decided pairs from %d runs checked against the table (value returned for "
                              "the option named) and against apply_gap." % (rep.cov["generated"].get("sites"), pairs, len(jobs)))
    rep.cov["trusted_base"] = ASSUME
    return rep.finish(ps)


def write_scope_files():
    for lang, (text, index) in scope_sources().items():
        open(os.path.join(common.ROOT, "corpus", "c19", "scope_%s.%s" % (lang.lower(), "cpp" if lang == "CPP" else "c")), "w").write(text)


def replay(rp, build):
    by_line = sites()
    with tempfile.TemporaryDirectory(prefix="c19r_", dir=common.WORK) as wd:
        cfgp = os.path.join(wd, "c.cfg")
        open(cfgp, "w").write(rp["cfg"] + QT_OFF)
        rc_, out, err, prefix = dumps.run_with_dumps(["-q", "-c", cfgp, "-l", rp["lang"], "-f", rp["input"]], wd)
        recs = dumps.parse_sp(prefix + ".0.sp")
        vals = dict(l.split("=") for l in rp["cfg"].strip().split("\n"))
        f = []
        check_records(recs, vals, by_line, f, "replay")
        if rp.get("scope"):
            check_scope(rp["lang"], recs, f)
        if os.path.exists(prefix + ".0.fin") and os.path.exists(prefix + ".0.out"):
            check_output_gaps(recs, dumps.parse_chunks(prefix + ".0.fin")[2], dumps.parse_out(prefix + ".0.out"), f, src=open(rp["input"], "rb").read().split(b"\n"))
        for k, w in f[:10]:
            print("VIOLATION reproduced:", w)
        if not f:
            print("property holds on this replay")
        return 1 if f else 0
