"""C19 — Spacing options mean what they say at the places they are reported to govern.
Theorems: coq/Properties/Properties_C19.v over the GENERATED table of do_space() return sites (translator
gen/gen_space.py, re-run and re-proved every run) and the model of the decision's application (apply_gap).
Tie: translator + hook H2: for every adjacent pair decided by space_text() on the explored inputs, the site that
logged the rule is looked up by its source line; the value do_space() returned must be one the table allows for the
configured value of the option NAMED in the log, and the gap chosen must obey apply_gap.
Explored: each sp_ option at each of its four values over a corpus slice + random joint assignments."""
import os
import sys
import tempfile
import threading
from concurrent.futures import ThreadPoolExecutor

from .. import common, dumps
from . import render_common as rc

LEVEL = "proof"
IARF = {"ignore": 0, "add": 1, "remove": 2, "force": 3}
NAMES = ["ignore", "add", "remove", "force"]
ASSUME = ["Coq kernel (vm_compute over the generated site table and registry); extraction; driver glue",
          "translator gen/gen_space.py: every return of do_space() must match a known shape, else it fails loudly",
          "hook H2 (rule, raw and final decision, columns per pair)", "alignment and code_width splitting left at their defaults (off)"]


def sites():
    sys.path.insert(0, os.path.join(common.ROOT, "gen"))
    import gen_space
    if not gen_space.SITES:
        gen_space.generate(common.REPO)
    by_line = {}
    for s in gen_space.SITES:
        by_line.setdefault(s["line"], []).append(s)
    return by_line


def allowed(site, v):
    sh = site["shape"]
    if sh == "Opt":
        return {v}
    if sh == "Const":
        return {site["const"]}
    if sh == "OrAdd":
        return {v | 1}
    if sh == "AddUnlessIgnore":
        return {v | (1 if v else 0)}
    if sh == "RemoveToForce":
        return {3}
    if sh == "MaybeIgnore":
        return {v, 0}
    if sh == "MaybeOrAdd":
        return {v, v | 1}
    return set()


# inside Qt SIGNAL()/SLOT() macros uncrustify replaces the user's spacing options by its own (option
# use_options_overriding_for_qt_macros, default true, documented): switched off so that every decision is the configured one
QT_OFF = "indent_with_tabs=0\nuse_options_overriding_for_qt_macros=false\n"


def apply_gap(av, min_sp, noc, pce):
    m = max(1, min_sp)
    keep = pce <= noc and pce != 0
    if av == 3:
        return m
    if av == 1:
        return max(noc - pce, m) if keep else m
    if av == 2:
        return 0
    return (noc - pce) if keep else 0


def check_records(recs, vals, by_line, findings, label):
    n_opt = 0
    for rec in recs:
        rule = rec["rule"]
        base = rule.split(" ")[0]
        cand = by_line.get(rec["rule_line"], [])
        cand = [s for s in cand if s["rule"] == rule] or cand
        if base in vals and vals[base] in IARF:
            v = IARF[vals[base]]
            n_opt += 1
            if cand:
                ok = any(rec["raw_av"] in allowed(s, IARF.get(vals.get(s["opt"], "ignore"), 0) if s["opt"] else 0) for s in cand)
                named_ok = any((not s["opt"]) or s["opt"] == base for s in cand)
                if not ok or not named_ok or (cand[0]["shape"] == "Opt" and rec["raw_av"] != v):
                    findings.append(("value|%s" % rule, "pair '%s' '%s' (%d:%d): spacing attributed to %s (configured %s) but do_space returned %s"
                                     % ("".join(map(chr, rec["text1"]))[:20], "".join(map(chr, rec["text2"]))[:20], rec["l1"], rec["c1"], base, vals[base], NAMES[rec["raw_av"]])))
                    continue
        # application: the column chosen by space_text obeys the (force-adjusted) decision
        if rec["t1"] in ("VBRACE_OPEN", "VBRACE_CLOSE") or rec["t2"] in ("VBRACE_OPEN", "VBRACE_CLOSE") or rec["next_comment"] or rec["nl_count"]:
            continue
        want_av = rec["raw_av"] | 1 if rec["forced"] else rec["raw_av"]
        if rec["av"] != want_av:
            findings.append(("ensure|%s" % rule, "ensure_force_space: raw %s forced=%d but applied %s" % (NAMES[rec["raw_av"]], rec["forced"], NAMES[rec["av"]])))
            continue
        gap = rec["column"] - rec["prev_column"]
        # next orig col is c2; pc orig_col_end
        want = apply_gap(rec["av"], rec["min_sp"], rec["c2"], rec["orig_col_end"]) if rec["l1"] == rec["l2"] or True else None
        if gap != want:
            findings.append(("gap|%s|%s" % (rule, NAMES[rec["av"]]), "pair '%s' '%s' (%d:%d) rule %s decision %s: gap %d, the decision means %d"
                             % ("".join(map(chr, rec["text1"]))[:20], "".join(map(chr, rec["text2"]))[:20], rec["l1"], rec["c1"], rule, NAMES[rec["av"]], gap, want)))
    return n_opt


SKIP_T = ("NEWLINE", "NL_CONT_", "COMMENT", "COMMENT_CPP", "COMMENT_MULTI", "COMMENT_EMBED", "COMMENT_START", "COMMENT_END", "COMMENT_WHOLE", "COMMENT_ENDIF",
          "VBRACE_OPEN", "VBRACE_CLOSE", "IGNORED", "JUNK", "PP_IGNORE")


def check_output_gaps(sp, fin, recs, findings):
    """the blanks actually WRITTEN between the two chunks of a decided pair (hook H1: the characters emitted per chunk) against the
    decision space_text() took for it: force = exactly max(1, min) blanks, remove = none, add = at least one.  Decisions are
    taken before the output stage, which is free to recompute a column (it does for backslash-newlines)."""
    by_pos = {}
    for i, c in enumerate(fin):
        by_pos[(c["orig_line"], c["orig_col"], c["type"])] = i
    lead = {}
    for rec in recs:
        n = 0
        for cp in rec["chars"]:
            if cp in (32, 9):
                n += 1
            else:
                break
        lead[rec["begin"]] = (n, len(rec["chars"]), rec["pre"])
    n_checked = 0
    for rec in sp:
        cont = rec["t2"] == "NL_CONT"         # a backslash-newline is a chunk with a line break of its own
        if rec["av"] == 0 or (rec["nl_count"] and not cont) or rec["next_comment"] or rec["t1"] in SKIP_T or rec["t2"] in SKIP_T \
                or rec["t1"].startswith("COMMENT") or rec["t2"].startswith("COMMENT"):     # comments are placed by the comment rules (columns, alignment)
            continue
        i = by_pos.get((rec["l2"], rec["c2"], rec["t2"]))
        if i is None or i == 0 or i not in lead:
            continue
        a = fin[i - 1]
        if (a["orig_line"], a["orig_col"], a["type"]) != (rec["l1"], rec["c1"], rec["t1"]) or a["type"] in SKIP_T or (i - 1) not in lead:
            continue
        if fin[i]["flags"] & dumps.PCF_WAS_ALIGNED or ((fin[i].get("nl_count") or 0) and not cont):
            continue
        n, total, pre = lead[i]
        if pre[3]:              # did_newline: the chunk starts an output line, its column is the indenter's
            continue
        n_checked += 1
        want = max(1, rec["min_sp"])
        bad = (rec["av"] == 3 and n != want) or (rec["av"] == 2 and n != 0) or (rec["av"] == 1 and n < 1)
        if bad:
            # a literal with raw tabs is wider on the page than the length space_text() reckons with: recorded cause of its own
            cause = "literal-tab" if 9 in rec["text1"] else rec["rule"] if " from " in rec["rule"] else rec["rule"].split(" ")[0]
            findings.append(("written-gap|%s|%s" % (cause, NAMES[rec["av"]]),
                             "pair '%s' '%s' (%d:%d), rule %s, decision %s: %d blank(s) written between them"
                             % ("".join(map(chr, rec["text1"]))[:20], "".join(map(chr, rec["text2"]))[:20], rec["l1"], rec["c1"], rec["rule"], NAMES[rec["av"]], n)))
    return n_checked


def run(rep, build, tier, seed):
    r = common.rng(seed, "C19")
    ps = common.proof_status("C19", build)
    proof_broken = ps["discharged"] < ps["obligations"] or bool(build["forbidden"]) or build.get("model") != "ok"
    rep.cov["rule"] = ("translator: every return site of do_space() (count in evidence); dynamic: corpus inputs (C, C++, Java, ObjC, C#, D, ...) under configs that set "
                       "EVERY sp_ IARF option to one of its four values (4 uniform configs + random joint assignments), every decided pair checked against the site table "
                       "and apply_gap. Non-trivial = the run produced at least one pair attributed to an option.")
    rep.assumptions = ASSUME
    if build.get("uncrustify") != "ok" or build.get("model") != "ok":
        rep.unproved("build failed", "\n".join(build["errors"])[-3000:])
        return rep.finish(ps)
    ginfo = build.get("gen", {})
    gerr = [k for k, v in ginfo.items() if isinstance(v, dict) and "error" in v]
    by_line = sites() if "gen_space.py" not in gerr else {}
    from . import c15
    opts = [o["name"] for o in c15.options() if o["type"] == "iarf_e" and (o["name"].startswith("sp_") or o["name"].startswith("pp_space") or o["name"] == "pp_indent")]
    cor = common.corpus()
    files = []
    seen = set()
    for lang, cfg, inp, suite, num in cor:
        if inp not in seen and os.path.getsize(inp) < 20000:
            seen.add(inp)
            files.append((lang or common.lang_of_path(inp), inp))
    nfiles = 40 if tier == "quick" else len(files)
    pick = r.sample(files, min(nfiles, len(files)))
    # fixed inputs for pairs the corpus slice of a quick run may not contain (backslash-newlines behind 0, 1, 2, 5 blanks and a tab ...)
    sdir = os.path.join(common.ROOT, "corpus", "c19")
    for fn in sorted(os.listdir(sdir)) if os.path.isdir(sdir) else []:
        pick.append(("CPP" if fn.endswith(".cpp") else "C", os.path.join(sdir, fn)))
    cfgs = []
    for name in NAMES:
        cfgs.append(("all-" + name, "".join("%s=%s\n" % (o, name) for o in opts)))
    for k in range(3 if tier == "quick" else 40):
        cfgs.append(("random-%d" % k, "".join("%s=%s\n" % (o, r.choice(NAMES)) for o in opts)))
    base = tempfile.mkdtemp(prefix="c19_", dir=common.WORK)
    tl = threading.local()
    jobs = [(lang, inp, cn, ct) for (lang, inp) in pick for (cn, ct) in cfgs]

    def work(job):
        lang, inp, cn, ct = job
        if not hasattr(tl, "wd"):
            tl.wd = tempfile.mkdtemp(dir=base)
        cfgp = os.path.join(tl.wd, "c.cfg")
        open(cfgp, "w").write(ct + QT_OFF)
        rc_, out, err, prefix = dumps.run_with_dumps(["-q", "-c", cfgp, "-l", lang, "-f", inp], tl.wd, timeout=60)
        recs = dumps.parse_sp(prefix + ".0.sp") if rc_ == 0 else []
        wf, wn = [], 0
        if rc_ == 0 and os.path.exists(prefix + ".0.fin") and os.path.exists(prefix + ".0.out"):
            _, _, fin = dumps.parse_chunks(prefix + ".0.fin")
            wn = check_output_gaps(recs, fin, dumps.parse_out(prefix + ".0.out"), wf)
        return job, rc_, recs, wf, wn
    pairs = written = 0
    vals_cache = {}
    with ThreadPoolExecutor(max_workers=8) as ex:
        for job, rc_, recs, wf, wn in ex.map(work, jobs):
            lang, inp, cn, ct = job
            if cn not in vals_cache:
                vals_cache[cn] = dict(l.split("=") for l in ct.strip().split("\n"))
            findings = list(wf)
            written += wn
            n_opt = check_records(recs, vals_cache[cn], by_line, findings, cn) if by_line else 0
            pairs += len(recs)
            rep.count(key=(inp, cn), nontrivial=n_opt > 0)
            if recs:
                rep.validated()
            for key, what in findings[:3]:
                rep.finding(key, "%s [%s, %s]" % (what, os.path.basename(inp), cn),
                            {"kind": "space", "input": inp, "lang": lang, "cfg": ct})
    import shutil
    shutil.rmtree(base, ignore_errors=True)
    rep.cov["pairs_checked"] = pairs
    rep.cov["written_gaps_checked"] = written
    rep.cov["generated"] = {k: v for k, v in ginfo.get("SpaceRules.v", {}).items() if k != "changed"}
    rep.sample({"sites": rep.cov["generated"].get("sites"), "shapes": rep.cov["generated"].get("shapes"), "configs": [c[0] for c in cfgs]})
    # ---- failing-input search when the site table is no longer faithful: aim at the offending sites
    iarf_names = set(opts) | set(o["name"] for o in c15.options() if o["type"] == "iarf_e")
    bad_sites = []
    for lst in by_line.values():
        for s_ in lst:
            b = s_["rule"].split(" ")[0]
            if s_["shape"] != "Const" and b in iarf_names and s_["opt"] != b:
                bad_sites.append(s_)
            if s_["shape"] == "Const" and b in iarf_names:
                bad_sites.append(s_)
    if bad_sites and not rep.violations:
        base2 = tempfile.mkdtemp(prefix="c19s_", dir=common.WORK)
        for s_ in bad_sites[:3]:
            b = s_["rule"].split(" ")[0]
            found = [None]
            for vb, vo in (("force", "remove"), ("remove", "force")):
                ct = "%s=%s\n" % (b, vb) + ("%s=%s\n" % (s_["opt"], vo) if s_["opt"] else "")
                vals = {b: vb}
                if s_["opt"]:
                    vals[s_["opt"]] = vo

                def probe(fl):
                    lang, inp = fl
                    wd2 = tempfile.mkdtemp(dir=base2)
                    cfgp = os.path.join(wd2, "c.cfg")
                    open(cfgp, "w").write(ct + QT_OFF)
                    rc_, out, err, prefix = dumps.run_with_dumps(["-q", "-c", cfgp, "-l", lang, "-f", inp], wd2, timeout=60)
                    recs = dumps.parse_sp(prefix + ".0.sp") if rc_ == 0 else []
                    shutil.rmtree(wd2, ignore_errors=True)
                    for rec in recs:
                        if rec["rule_line"] == s_["line"] and rec["rule"] == s_["rule"] and rec["raw_av"] != IARF[vb]:
                            return (lang, inp, rec)
                    return None
                with ThreadPoolExecutor(max_workers=8) as ex:
                    for res in ex.map(probe, files):
                        if res and not found[0]:
                            found[0] = (res, ct, vb)
                if found[0]:
                    break
            if found[0]:
                (lang, inp, rec), ct, vb = found[0]
                rep.finding("site|%s|%d" % (s_["rule"], s_["line"]),
                            "space.cpp line %d logs rule %s but returns %s: with %s the pair '%s' '%s' at %d:%d of %s gets %s"
                            % (s_["line"], s_["rule"], "options::%s()" % s_["opt"] if s_["opt"] else "a constant", ct.strip().replace("\n", ", "),
                               "".join(map(chr, rec["text1"]))[:20], "".join(map(chr, rec["text2"]))[:20], rec["l1"], rec["c1"], os.path.basename(inp), NAMES[rec["raw_av"]]),
                            {"kind": "space", "input": inp, "lang": lang, "cfg": ct})
        shutil.rmtree(base2, ignore_errors=True)
    if gerr and not rep.violations:
        rep.unproved("translator no longer recognises src/space.cpp / options", str({k: ginfo[k] for k in gerr})[:1500])
    if proof_broken and not rep.violations:
        # the table theorem broke: name the offending sites
        rep.unproved("proof obligations of Properties_C19.v (files: %s) - a do_space() site returns the value of an option other than the one it logs, or has an unknown shape"
                     % ps["broken_files"], build.get("coq_log_tail", ""))
    rep.cov["explanation"] = ("C19_rules_faithful re-proved over the regenerated table (%s sites); %d decided pairs from %d runs checked against the table (value returned for "
                              "the option named) and against apply_gap." % (rep.cov["generated"].get("sites"), pairs, len(jobs)))
    rep.cov["trusted_base"] = ASSUME
    return rep.finish(ps)


def replay(rp, build):
    by_line = sites()
    with tempfile.TemporaryDirectory(prefix="c19r_", dir=common.WORK) as wd:
        cfgp = os.path.join(wd, "c.cfg")
        open(cfgp, "w").write(rp["cfg"] + QT_OFF)
        rc_, out, err, prefix = dumps.run_with_dumps(["-q", "-c", cfgp, "-l", rp["lang"], "-f", rp["input"]], wd)
        recs = dumps.parse_sp(prefix + ".0.sp")
        vals = dict(l.split("=") for l in rp["cfg"].strip().split("\n"))
        f = []
        check_records(recs, vals, by_line, f, "replay")
        if os.path.exists(prefix + ".0.fin") and os.path.exists(prefix + ".0.out"):
            check_output_gaps(recs, dumps.parse_chunks(prefix + ".0.fin")[2], dumps.parse_out(prefix + ".0.out"), f)
        for k, w in f[:10]:
            print("VIOLATION reproduced:", w)
        if not f:
            print("property holds on this replay")
        return 1 if f else 0
