"""Model B (coq/Model/Render.v) vs the binary: the chunk list dumped at output time plus the comment oracle segments
are rendered by the extracted model; the code points must equal what the real writer handed to write_char()."""
import os

from . import dumps

COMMENT_TYPES = {"COMMENT", "COMMENT_CPP", "COMMENT_MULTI", "COMMENT_ENDIF", "COMMENT_CPP_ENDIF"}


def b(x):
    return "1" if x else "0"


def model_chunks(fin, recs):
    """one model chunk per .fin chunk; chunks not visited by the loop (swallowed by a comment writer) are 'S'kipped"""
    n = len(fin)
    kind = ["S"] * n
    rcol = [c["column"] for c in fin]
    seg = [None] * n
    for r in recs:
        i = r["begin"]
        if i >= n:
            continue
        t = fin[i]["type"]
        if t == "NEWLINE":
            kind[i] = "N"
        elif t == "NL_CONT":
            kind[i] = "C"
        elif t in COMMENT_TYPES:
            kind[i] = "M"
            seg[i] = r
        elif t in ("JUNK", "IGNORED"):
            kind[i] = "I"
        else:
            kind[i] = "O"
        if r["end"] < n:
            rcol[r["end"]] = r["column"]
    out = []
    for i, c in enumerate(fin):
        fl = c["flags"]
        pre = bool(fl & dumps.PCF_IN_PREPROC)
        t = c["type"]
        r = seg[i]
        txt = ",".join("%x" % x for x in c["text"]) or "-"
        sg = "-"
        ss = "0.0.0.0"
        if r is not None:
            sg = ",".join("%x" % x for x in r["chars"]) or "-"
            ss = "%d.%d.%d.%d" % r["post"]
        out.append(":".join([kind[i], txt, str(rcol[i]), str(c["column_indent"]), str(c["nl_count"]), str(c["nl_column"]), str(c["orig_col"]),
                             str(c["orig_prev_sp"]), b(pre), b(fl & dumps.PCF_WAS_ALIGNED), b(c["after_tab"]),
                             b(t in ("BRACE_CLOSE", "CASE_COLON")), b(t == "PP_DEFINE"), b(t in ("STRING", "STRING_MULTI")), b(t == "STRING_MULTI"), b(t == "PP_IGNORE"),
                             b(t in ("COMMENT", "COMMENT_CPP", "COMMENT_MULTI")), sg, ss]))
    return out


def model_render(m, opts, hdr, fin, recs):
    pre = recs[0]["pre"] if recs else (1, 0, 0, 1)
    o = "%d:%d:%d:%d:%d:%d:%d:%d:%d" % (opts["indent_with_tabs"], opts["pp_indent_with_tabs"], opts["output_tab_size"], opts["align_with_tabs"],
                                        opts["align_keep_tabs"], opts["sp_before_nl_cont"], opts["force_tab_after_define"],
                                        opts["cmt_convert_tab_to_spaces"], opts.get("inpp", 0))
    nl = hdr.get("nl", "a")
    line = "render %s %s %d %d %s" % (o, nl, pre[2], pre[1], " ".join(model_chunks(fin, recs)))
    ans = m.ask(line)
    if ans.startswith("ERR"):
        raise RuntimeError(ans[:300])
    return [] if ans == "-" else [int(x, 16) for x in ans.split(",")]


def impl_chars(recs):
    out = []
    for r in recs:
        out += r["chars"]
    return out


def compare_file(m, prefix, k=0):
    """returns (diffs, info) for the k-th file of an invocation"""
    fin_p = "%s.%d.fin" % (prefix, k)
    out_p = "%s.%d.out" % (prefix, k)
    if not (os.path.exists(fin_p) and os.path.exists(out_p)):
        return ["no dump"], {}
    hdr, opts, fin = dumps.parse_chunks(fin_p)
    recs = dumps.parse_out(out_p)
    if opts.get("html") or opts.get("version"):
        return [], {"skipped": "tracking/version mode"}
    got = impl_chars(recs)
    exp = model_render(m, opts, hdr, fin, recs)
    diffs = []
    if got != exp:
        n = min(len(got), len(exp))
        i = next((j for j in range(n) if got[j] != exp[j]), n)
        diffs.append("code point %d: impl %s / model %s (context %r)" % (i, got[i:i + 6], exp[i:i + 6], "".join(map(chr, got[max(0, i - 30):i]))))
    return diffs, {"chunks": len(fin), "chars": len(got), "opts": opts, "hdr": hdr}
