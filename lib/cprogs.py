"""Grammar-based generator of COMPILABLE C (and C-in-C++) translation units, for C01: every identifier is declared,
every function has a prototype, no undefined behaviour is needed (the programs are only compiled, not run).
The layout is randomised so that the formatter has something to do; __LINE__, __FILE__ and debug information are
avoided (they would make the object code depend on layout by definition)."""

INTS = ["v0", "v1", "v2", "v3", "g0", "g1", "g2"]
FUNCS = ["f0", "f1", "f2", "f3"]


def expr(r, d=0):
    k = r.random()
    if d > 2 or k < 0.3:
        return r.choice(INTS) if r.random() < 0.65 else str(r.randint(0, 99))
    if k < 0.6:
        return "%s %s %s" % (expr(r, d + 1), r.choice(["+", "-", "*", "&", "|", "^", "<", ">", "==", "!=", "&&", "||", "<<", "<=", ">="]), expr(r, d + 1))
    if k < 0.68:
        return "(%s)" % expr(r, d + 1)
    if k < 0.78:
        return "%s(%s)" % (r.choice(FUNCS), expr(r, d + 1))
    if k < 0.86:
        return "%s%s" % (r.choice(["-", "!", "~", "+"]), r.choice(INTS))
    if k < 0.9:
        return "*pp %s %s" % (r.choice(["+", "*", "/ 3 -"]), expr(r, d + 1))
    if k < 0.94:
        return "%s ? %s : %s" % (expr(r, d + 1), expr(r, d + 1), expr(r, d + 1))
    if k < 0.97:
        return "arr[%s & 3]" % expr(r, d + 1)
    return "(int) sizeof(%s)" % r.choice(["int", "v0", "arr"])


def simple(r):
    k = r.random()
    v = r.choice(INTS)
    if k < 0.4:
        return "%s = %s;" % (v, expr(r))
    if k < 0.5:
        return "%s%s;" % (v, r.choice(["++", "--"]))
    if k < 0.6:
        return "%s %s %s;" % (v, r.choice(["+=", "-=", "*=", "|=", "&=", "^="]), expr(r))
    if k < 0.7:
        return "(void) %s(%s);" % (r.choice(FUNCS), expr(r))
    if k < 0.78:
        return "*pp = %s;" % expr(r)
    if k < 0.84:
        return ";"
    if k < 0.9:
        return "arr[%d] = %s;" % (r.randint(0, 3), expr(r))
    return "{ %s t%d = %s; %s += t%d; }" % (r.choice(["int", "unsigned int", "short int", "long", "unsigned", "signed int"]), r.randint(0, 9), expr(r), v, 0) \
        .replace("t%d" % 0, "tq") if False else "{ int tq = %s; %s += tq; }" % (expr(r), v)


def stmt(r, depth, budget, out, ind):
    budget[0] -= 1
    pad = " " * r.randint(0, 10)
    k = r.random()
    if depth > 3 or budget[0] <= 0 or k < 0.4:
        out.append(pad + simple(r))
        return
    if k < 0.58:
        style = r.random()
        if style < 0.35:        # brace-less
            out.append(pad + "if (%s)" % expr(r))
            out.append(pad + "  " + simple(r))
            if r.random() < 0.4:
                out.append(pad + "else")
                out.append(pad + "  " + simple(r))
        else:
            out.append(pad + "if (%s) {" % expr(r))
            block(r, depth + 1, budget, out, ind)
            while r.random() < 0.3:
                out.append(pad + "} else if (%s) {" % expr(r))
                block(r, depth + 1, budget, out, ind)
            if r.random() < 0.4:
                out.append(pad + "} else {")
                block(r, depth + 1, budget, out, ind)
            out.append(pad + "}")
    elif k < 0.68:
        out.append(pad + "while (%s) {" % expr(r))
        block(r, depth + 1, budget, out, ind)
        out.append(pad + r.choice(["break; }", "}", "if (v0) break; }"]))
    elif k < 0.76:
        v = r.choice(INTS)
        out.append(pad + "for (%s = 0; %s < %d; %s++)%s" % (v, v, r.randint(1, 9), v, r.choice([" {", ""])))
        if out[-1].endswith("{"):
            block(r, depth + 1, budget, out, ind)
            out.append(pad + "}")
        else:
            out.append(pad + "   " + simple(r))
    elif k < 0.82:
        out.append(pad + "do {")
        block(r, depth + 1, budget, out, ind)
        out.append(pad + "} while (%s);" % expr(r))
    elif k < 0.9:
        out.append(pad + "switch (%s) {" % expr(r))
        for c in range(r.randint(1, 3)):
            out.append(pad + "case %d:" % c)
            out.append(pad + "  " + simple(r))
            if r.random() < 0.3:
                out.append(pad + "  {")
                block(r, depth + 1, budget, out, ind)
                out.append(pad + "  }")
            out.append(pad + r.choice(["  break;", "  break;", "  return %s;" % expr(r)]))
        if r.random() < 0.5:
            out.append(pad + "default:")
            out.append(pad + "  " + simple(r))
            out.append(pad + "  break;")
        out.append(pad + "}")
    elif k < 0.95:
        out.append(pad + "{")
        block(r, depth + 1, budget, out, ind)
        out.append(pad + "}")
    elif k < 0.975:
        out.append(pad + r.choice(["for (;;) { if (%s) break; }", "while (1) { if (%s) break; }", "do { v1++; if (%s) break; } while (1);"]) % expr(r))
    else:
        # shapes on which a modifying pass can change the meaning without changing more than the tokens it names
        e1, e2 = expr(r), expr(r)
        out.append(pad + r.choice([
            "if (%s) if (%s) v0++; else v1--;" % (e1, e2),                                  # dangling else
            "if (%s) { if (%s) v0++; } else v1--;" % (e1, e2),                              # braces that pin the else
            "if (%s) { int tq = %s; (void) tq; }" % (e1, e2),                               # a declaration as the only statement
            "if (%s) { int tz = 1; }" % e1,
            "if (%s) { v0++; v1--; } else v2++;" % e1,                                      # two statements in front of an else
            "while (%s) { { v0++; } v1--; break; }" % e1,
            "for (v2 = 0; v2 < 3; v2++) ;",                                                 # an empty statement as loop body
            "while (f0(v0) > 99) ;",
            "if (%s) ; else v3++;" % e1,
            "if (%s) return v0; else return v1;" % e1,
            "return (%s) + (%s);" % (e1, e2) if False else "v0 = (%s) + (%s);" % (e1, e2),
        ]))


def block(r, depth, budget, out, ind):
    for _ in range(r.randint(1, 3)):
        stmt(r, depth, budget, out, ind)
        if r.random() < 0.12:
            out.append("")
        if r.random() < 0.1:
            out.append(" " * r.randint(0, 8) + r.choice(["/* note */", "// remark", "/* multi\n   line */"]))


def program(r, nfunc=3, size=18, cpp=False):
    out = ["#include <stddef.h>", "#include <limits.h>", "#include <stddef.h>"] + ([] if cpp else ["#include <stdbool.h>   /* mod_infinite_loop may write 'true' */"]) + ["",
           "enum color { RED, GREEN = 3, BLUE%s };" % r.choice(["", ","]),
           "struct pt { int x; int y; };",
           "static int g0, g1 = 2, g2;", "static int arr[4];", "static unsigned int gu; static short int gs; static long gl;"]
    # every spelling of the integer types, with storage and cv keywords in every position (the mod_*_int options rewrite them)
    out += ["static unsigned const char uc1 = 1; static long const double ld1 = 1.0; static double const long ld2 = 2.0; static char volatile unsigned cv1;",
            "static unsigned const long ucl = 3; static const short int csi = 4; static long unsigned int lui; static signed char sc1; static long long ll1;",
            "static volatile unsigned vu1; static short const unsigned scu = 5; static long double ld3; static unsigned char uc2;"]
    out += ["int %s(int a);" % f for f in FUNCS]
    out += ["#define SQR(x) ((x) * (x))", "#define ADD(a, b) \\", "    ((a) + \\", "     (b))", ""]
    if cpp:
        out += ["namespace ns { class C { public: C() : m(0), n(1) {} int get() const { return m; } private: int m; int n; }; }",
                "template <typename T> static T tmax(T a, T b) { return a > b ? a : b; }", ""]
    for f in FUNCS[:nfunc]:
        out.append("int %s(int a)%s" % (f, r.choice([" {", "\n{"])))
        out.append("  int v0 = a, v1 = 1, v2 = SQR(a), v3 = ADD(a, 2); int *pp = &v1;")
        if cpp and r.random() < 0.5:
            out.append("  ns::C c; v0 += c.get() + tmax<int>(v1, v2);")
        budget = [size]
        block(r, 1, budget, out, 2)
        out.append("  return %s;" % expr(r))
        out.append("}")
        out.append("")
    for f in FUNCS[nfunc:]:
        out.append("int %s(int a) { return a + %d; }" % (f, r.randint(0, 9)))
    out.append("void vfun(void) { g0++; return; }")
    out.append("void vearly(void)\n{\n  if (g0) {\n    g1++;\n    return;\n  }\n  g2++;\n  if (g1)\n    return;\n  g0--;\n}")
    out.append("#define SPIN(c) while (1) { if (c) break; }")
    # an 'else' behind nested brace-less statements whose innermost body is a braced if without else
    out.append("int vnest(int a) { int r = 0; int i; if (a) for (i = 0; i < 2; i++) while (r < 3) { if (i) r++; else r += 2; } else r = 7;\n"
               "  if (a > 1) for (i = 0; i < 2; i++) while (r < 9) { if (i) r += 3; } else r = 5; return r; }")
    # a 'return;' that is not the last statement, a label in front of the last one; an assignment inside a Boolean condition
    out.append("void vret(void) { g0++; if (g0 > 100) goto done; g1++; return; g2++;\ndone: return; }")
    out.append("int vasg(int a) { int x; if (x = a == 1 && g1) return x; if ((x = a) == 2 || g2) return x + 1; return 0; }")
    out.append("double vnum(void) { return 0xe + 1 + 0x1E - 2 + 1e1 - 4 + 0xe +g0 + 0xE -g1; }")
    out.append("#define FOREVER for (;;)")
    # statements as macro bodies, without their semicolon and with trailing comments: the mod_ options work inside directives too
    out.append("#define RET_A return a // result\n#define RET_SUM return a + \\\n  g0 /* sum */\n#define BUMP if (g1) g2++ // bump")
    out.append("int vmac(int a) { BUMP; if (a > 3) { RET_SUM; } RET_A; }")
    out.append("int vspin(int a) { SPIN(a > 2) FOREVER { if (a) break; } return a; }")
    # closing braces with code behind them on the same line (the closing-brace comment options add '// ...' there)
    out.append("int vsw(int a, int b) { int r = 0; switch (a) { case 1: switch (b) { case 2:\n r = 1;\n break;\n default:\n r = 2;\n } break;\n case 2:\n r = 3;\n break;\n default:\n r = 4; } return r; }")
    if cpp:
        out.append("namespace outer { namespace inner {\nint nsv = 1;\nint nsf(int a) { return a + nsv; }\n} }\nint vns(int a) { return outer::inner::nsf(a); }")
        out.append("int vtry(int a) { if (a) { try { a = f0(a); } catch (...) { a = 0; } } a++; return a; }")
    return "\n".join(out) + "\n"


JAVA = """public class T%(n)d {
    static int g0 = 1, g1 = 2;
    static int f0(int a) { return a + 1; }
    public static int run(int a) {
        int v0 = a, v1 = 1, v2 = 2, v3 = 3;
%(body)s
        return v0 + v1;
    }
}
"""
