#!/bin/sh
# independent re-check of all compiled property files and everything they depend on; prints the axioms they rely on
cd "$(dirname "$0")/coq" && exec coqchk -o -silent -Q . UV $(ls Properties/*.v | sed 's/\.v$//; s/\//./g; s/^/UV./')
