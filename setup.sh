#!/bin/sh
# Build everything the checks need, offline, from files on disk: hook-enabled uncrustify (from /repo's
# current tree), generated Coq tables, all proofs (full .vo build), the extracted OCaml model, the shim.
set -e
cd "$(dirname "$0")"
python3 - <<'PY'
import sys, json
sys.path.insert(0, '.')
from lib import common
st = common.ensure_built(need_asan=False)
print(json.dumps({k: st[k] for k in ('uncrustify', 'model', 'coq_failed', 'forbidden', 'build_s')}, indent=1))
if st['errors'] or st['coq_failed']:
    print("\n".join(st['errors'])[-4000:])
    print(st.get('coq_log_tail', ''))
    sys.exit(1)
PY
