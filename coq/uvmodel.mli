
val negb : bool -> bool

type nat =
| O
| S of nat

val option_map : ('a1 -> 'a2) -> 'a1 option -> 'a2 option

val fst : ('a1 * 'a2) -> 'a1

val snd : ('a1 * 'a2) -> 'a2

val length : 'a1 list -> nat

val app : 'a1 list -> 'a1 list -> 'a1 list

type comparison =
| Eq
| Lt
| Gt

val compOpp : comparison -> comparison

val add : nat -> nat -> nat

module Nat :
 sig
  val eqb : nat -> nat -> bool

  val leb : nat -> nat -> bool

  val ltb : nat -> nat -> bool

  val even : nat -> bool

  val odd : nat -> bool

  val divmod : nat -> nat -> nat -> nat -> nat * nat

  val div : nat -> nat -> nat
 end

val nth : nat -> 'a1 list -> 'a1 -> 'a1

val flat_map : ('a1 -> 'a2 list) -> 'a1 list -> 'a2 list

val skipn : nat -> 'a1 list -> 'a1 list

type positive =
| XI of positive
| XO of positive
| XH

type z =
| Z0
| Zpos of positive
| Zneg of positive

module Pos :
 sig
  val succ : positive -> positive

  val add : positive -> positive -> positive

  val add_carry : positive -> positive -> positive

  val pred_double : positive -> positive

  val mul : positive -> positive -> positive

  val compare_cont : comparison -> positive -> positive -> comparison

  val compare : positive -> positive -> comparison

  val eqb : positive -> positive -> bool
 end

module Z :
 sig
  val double : z -> z

  val succ_double : z -> z

  val pred_double : z -> z

  val pos_sub : positive -> positive -> z

  val add : z -> z -> z

  val opp : z -> z

  val sub : z -> z -> z

  val mul : z -> z -> z

  val compare : z -> z -> comparison

  val leb : z -> z -> bool

  val ltb : z -> z -> bool

  val eqb : z -> z -> bool

  val pos_div_eucl : positive -> z -> z * z

  val div_eucl : z -> z -> z * z

  val div : z -> z -> z

  val modulo : z -> z -> z
 end

type enc =
| E_ASCII
| E_BYTE
| E_UTF8
| E_UTF16LE
| E_UTF16BE

val enc_eqb : enc -> enc -> bool

val encode_utf8 : z -> z list

val utf8_lead : z -> (nat * z) option

val is_cont : z -> bool

val utf8_min : nat -> z

val dec8 : bool -> ((nat * nat) * z) option -> z list -> z list option

val has_utf8_bom : z list -> bool

val decode_utf8 : bool -> z list -> z list option

val word : bool -> z -> z -> z

val dec16 : bool -> z option -> z list -> z list option

val nth_byte : z list -> nat -> z

val bom16 : z list -> bool option

val enc16 : bool -> enc

val decode_utf16 : z list -> (enc * z list) option

val decode_bom : z list -> enc option

val count_if : (z -> bool) -> z list -> nat

type decoded = { d_enc : enc; d_bom : bool; d_data : z list }

val decode_unicode : bool -> z list -> decoded option

val write_byte : z -> z list

val write_utf8 : z -> z list

val write_utf16 : bool -> z -> z list

val write_char : enc -> z -> z list

val write_bom : enc -> z list

val write_string : enc -> z list -> z list

type iarf =
| Ignore
| Add
| Remove
| Force

type enc_opts = { utf8_bom : iarf; utf8_byte : bool; utf8_force : bool }

val out_enc : enc_opts -> enc -> enc

val out_bom : enc_opts -> enc -> bool -> bool

val has_embedded_nul : z list -> bool

type outcome =
| Refused
| Written of z list

val run_file : bool -> enc_opts -> (z list -> z list) -> z list -> outcome

val repo_check_min : bool
