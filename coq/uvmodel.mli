
val negb : bool -> bool

type nat =
| O
| S of nat

val option_map : ('a1 -> 'a2) -> 'a1 option -> 'a2 option

val fst : ('a1 * 'a2) -> 'a1

val snd : ('a1 * 'a2) -> 'a2

val length : 'a1 list -> nat

val app : 'a1 list -> 'a1 list -> 'a1 list

type comparison =
| Eq
| Lt
| Gt

val compOpp : comparison -> comparison

val add : nat -> nat -> nat

val sub : nat -> nat -> nat

module Nat :
 sig
  val eqb : nat -> nat -> bool

  val leb : nat -> nat -> bool

  val ltb : nat -> nat -> bool

  val max : nat -> nat -> nat

  val even : nat -> bool

  val odd : nat -> bool

  val divmod : nat -> nat -> nat -> nat -> nat * nat

  val div : nat -> nat -> nat
 end

val hd_error : 'a1 list -> 'a1 option

val tl : 'a1 list -> 'a1 list

val nth : nat -> 'a1 list -> 'a1 -> 'a1

val rev : 'a1 list -> 'a1 list

val map : ('a1 -> 'a2) -> 'a1 list -> 'a2 list

val flat_map : ('a1 -> 'a2 list) -> 'a1 list -> 'a2 list

val fold_left : ('a1 -> 'a2 -> 'a1) -> 'a2 list -> 'a1 -> 'a1

val existsb : ('a1 -> bool) -> 'a1 list -> bool

val forallb : ('a1 -> bool) -> 'a1 list -> bool

val filter : ('a1 -> bool) -> 'a1 list -> 'a1 list

val firstn : nat -> 'a1 list -> 'a1 list

val skipn : nat -> 'a1 list -> 'a1 list

val repeat : 'a1 -> nat -> 'a1 list

type positive =
| XI of positive
| XO of positive
| XH

type n =
| N0
| Npos of positive

type z =
| Z0
| Zpos of positive
| Zneg of positive

module Pos :
 sig
  val succ : positive -> positive

  val add : positive -> positive -> positive

  val add_carry : positive -> positive -> positive

  val pred_double : positive -> positive

  val pred_N : positive -> n

  val mul : positive -> positive -> positive

  val compare_cont : comparison -> positive -> positive -> comparison

  val compare : positive -> positive -> comparison

  val eqb : positive -> positive -> bool

  val coq_Nsucc_double : n -> n

  val coq_Ndouble : n -> n

  val coq_lor : positive -> positive -> positive

  val coq_land : positive -> positive -> n

  val ldiff : positive -> positive -> n

  val iter_op : ('a1 -> 'a1 -> 'a1) -> positive -> 'a1 -> 'a1

  val to_nat : positive -> nat

  val of_succ_nat : nat -> positive
 end

module N :
 sig
  val succ_pos : n -> positive

  val coq_lor : n -> n -> n

  val ldiff : n -> n -> n
 end

module Z :
 sig
  val double : z -> z

  val succ_double : z -> z

  val pred_double : z -> z

  val pos_sub : positive -> positive -> z

  val add : z -> z -> z

  val opp : z -> z

  val sub : z -> z -> z

  val mul : z -> z -> z

  val compare : z -> z -> comparison

  val leb : z -> z -> bool

  val ltb : z -> z -> bool

  val geb : z -> z -> bool

  val gtb : z -> z -> bool

  val eqb : z -> z -> bool

  val to_nat : z -> nat

  val of_nat : nat -> z

  val of_N : n -> z

  val pos_div_eucl : positive -> z -> z * z

  val div_eucl : z -> z -> z * z

  val div : z -> z -> z

  val modulo : z -> z -> z

  val coq_land : z -> z -> z
 end

type enc =
| E_ASCII
| E_BYTE
| E_UTF8
| E_UTF16LE
| E_UTF16BE

val enc_eqb : enc -> enc -> bool

val encode_utf8 : z -> z list

val utf8_lead : z -> (nat * z) option

val is_cont : z -> bool

val utf8_min : nat -> z

val dec8 : bool -> ((nat * nat) * z) option -> z list -> z list option

val has_utf8_bom : z list -> bool

val decode_utf8 : bool -> z list -> z list option

val word : bool -> z -> z -> z

val dec16 : bool -> z option -> z list -> z list option

val nth_byte : z list -> nat -> z

val bom16 : z list -> bool option

val enc16 : bool -> enc

val decode_utf16 : z list -> (enc * z list) option

val decode_bom : z list -> enc option

val count_if : (z -> bool) -> z list -> nat

type decoded = { d_enc : enc; d_bom : bool; d_data : z list }

val decode_unicode : bool -> z list -> decoded option

val write_byte : z -> z list

val write_utf8 : z -> z list

val write_utf16 : bool -> z -> z list

val write_char : enc -> z -> z list

val write_bom : enc -> z list

val write_string : enc -> z list -> z list

type iarf =
| Ignore
| Add
| Remove
| Force

type enc_opts = { utf8_bom : iarf; utf8_byte : bool; utf8_force : bool }

val out_enc : enc_opts -> enc -> enc

val out_bom : enc_opts -> enc -> bool -> bool

val has_embedded_nul : z list -> bool

type outcome =
| Refused
| Written of z list

val run_file : bool -> enc_opts -> (z list -> z list) -> z list -> outcome

val repo_check_min : bool

type bytes = z list

val bytes_eqb : bytes -> bytes -> bool

type role =
| RIn
| ROut
| RTmp
| RBackup
| RMd5

val role_eqb : role -> role -> bool

type content =
| Data of bytes
| Digest of bytes
| DigestPrefix of bytes * nat

type fstate =
| Absent
| Closed of content
| Writing of content * bool

type opk =
| KStat
| KFopenR
| KFopenW
| KFread
| KFclose
| KWrite
| KRename
| KUnlink
| KOpen
| KRead
| KClose
| KUtime

type ev = { e_op : opk; e_role : role; e_ok : bool }

type fault =
| FFail
| FFull of nat

type plan = { faults : (nat -> fault option);
              crash : (nat * nat option) option }

type st = { disk : (role -> fstate); nop : nat; trace : ev list }

type 'a res =
| Ok of 'a * st
| Stop of z option * st

type 'a m = st -> 'a res

val ret : 'a1 -> 'a1 m

val bind : 'a1 m -> ('a1 -> 'a2 m) -> 'a2 m

val exit_ : z -> 'a1 m

val upd : (role -> fstate) -> role -> fstate -> role -> fstate

val begin_op : plan -> fault option m

val crashw_here : plan -> st -> nat option

val log : opk -> role -> bool -> unit m

val get : role -> fstate m

val put : role -> fstate -> unit m

val exists_ : fstate -> bool

val op_probe : plan -> opk -> role -> bool m

val op_read : plan -> opk -> role -> content option m

val op_close : plan -> role -> unit m

val op_simple : plan -> opk -> role -> bool m

val op_fopen_w : plan -> role -> bool m

val app_content : content -> content -> nat option -> content

val bites : content -> nat -> bool

val eff_fault : content -> fault option -> fault option

val eff_crash : content -> nat option -> nat option

val op_write : plan -> role -> content -> unit m

val op_fclose_w : plan -> role -> bool m

val op_rename : plan -> role -> role -> bool m

val op_unlink : plan -> role -> bool m

type mode = { in_place : bool; to_file : bool; no_backup : bool;
              if_changed : bool; do_check : bool; keep_mtime : bool }

val eX_IOERR : z

val eX_SOFTWARE : z

val eX_FMT : z

val content_eqb : content -> content -> bool

val bytes_of : content -> bytes

val load : plan -> bytes m

val backup_copy : plan -> bytes -> unit m

val content_matches : plan -> role -> role -> bool m

val create_md5 : plan -> role -> unit m

type out = { stdout : bytes; check_fail : bool }

val write_out :
  plan -> mode -> (bytes -> bytes option) -> bytes option -> bytes -> out m

val after_load :
  plan -> mode -> (bytes -> bytes option) -> bytes -> bytes option -> out m

val do_source_file : plan -> mode -> (bytes -> bytes option) -> out m

type result = { r_disk : (role -> fstate); r_exit : z option;
                r_trace : ev list; r_out : out option; r_ops : nat }

val run :
  plan -> mode -> (bytes -> bytes option) -> (role -> fstate) -> result

val no_plan : plan

val disk0 : bytes -> role -> fstate

type 'digest bst = { b_file : bytes; b_backup : (bytes * bool) option;
                     b_md5 : 'digest option }

type phase =
| K0
| K1 of nat
| K2
| K3
| Completed

type event =
| Edit of bytes
| Run of (bytes -> bytes option) * phase

val own : (bytes -> 'a1) -> ('a1 -> 'a1 -> bool) -> 'a1 bst -> bool

val run_step :
  (bytes -> 'a1) -> ('a1 -> 'a1 -> bool) -> 'a1 bst -> (bytes -> bytes
  option) -> phase -> 'a1 bst

val step :
  (bytes -> 'a1) -> ('a1 -> 'a1 -> bool) -> 'a1 bst -> event -> 'a1 bst

val pstep :
  (bytes -> 'a1) -> ('a1 -> 'a1 -> bool) -> bytes -> 'a1 bst -> event -> bytes

val admissible :
  (bytes -> 'a1) -> ('a1 -> 'a1 -> bool) -> 'a1 bst -> event -> bool

val idh : bytes -> bytes

val check_exit : bool list -> z

type kind =
| KBool
| KIarf
| KLineEnd
| KTokenPos
| KNum of (z * z) option
| KUnum of (z * z) option
| KString

type value =
| VBool of bool
| VIarf of z
| VLineEnd of z
| VTokenPos of z
| VNum of z
| VUnum of z
| VStr of z list

type optdef = { o_name : z list; o_kind : kind; o_def : value }

type bytes0 = z list

val beqb : bytes0 -> bytes0 -> bool

val tolower : z -> z

val to_lower : bytes0 -> bytes0

val beqb_ci : bytes0 -> bytes0 -> bool

val is_space : z -> bool

val is_arg_sep : z -> bool

val is_quote : z -> bool

type sstate =
| SSkip
| SQuote of z * bytes0
| SQuoteEsc of z * bytes0
| SAfterQ
| SWord of bytes0
| SWordEsc of bytes0

type split_res =
| SOk of bytes0 list
| SUnterminated
| SUnexpected

val split : sstate -> bytes0 list -> bytes0 -> split_res

val split_args : bytes0 -> split_res

type diag =
| DUnterminated
| DUnexpectedText
| DFewArgs of bytes0
| DUnknownOption of bytes0
| DUnknownType of bytes0
| DUnknownLang of bytes0
| DBadValue of bytes0
| DBadRef of bytes0 * bytes0
| DLess of bytes0
| DGreater of bytes0
| DDeprecated of bytes0
| DBadVersion
| DEmptyInclude

type cstate = { vals : (bytes0 * value) list; kws : (bytes0 * bytes0) list;
                exts : (bytes0 * bytes0) list; compat : z;
                includes : bytes0 list }

val init_state : optdef list -> cstate

val lookup_kind : optdef list -> bytes0 -> kind option

val lookup_val : (bytes0 * value) list -> bytes0 -> value option

val set_val :
  (bytes0 * value) list -> bytes0 -> value -> (bytes0 * value) list

val alias_find : (bytes0 * 'a1) list -> bytes0 -> 'a1 option

val is_digit : z -> bool

val digits : z -> bytes0 -> z * bytes0

val skip_space : bytes0 -> bytes0

val lONG_MAX : z

val clamp : z -> z

val strtol : bytes0 -> z * bytes0

val wrap32s : z -> z

val validate : bytes0 -> (z * z) option -> z -> diag list

val num_of : value -> z option

val mk_num : kind -> z -> value

val read_value :
  optdef list -> (bytes0 * bool) list -> (bytes0 * z) list -> (bytes0 * z)
  list -> (bytes0 * z) list -> (bytes0 * value) list -> bytes0 -> kind ->
  bytes0 -> value option * diag list

val bltb : bytes0 -> bytes0 -> bool

val map_put :
  (bytes0 * bytes0) list -> bytes0 -> bytes0 -> (bytes0 * bytes0) list

val find_ci : bytes0 list -> bytes0 -> bytes0 option

val compat_find :
  ((bytes0 * bytes0 option) * z) list -> bytes0 -> z -> bytes0 option option

val set_option :
  optdef list -> (bytes0 * bool) list -> (bytes0 * z) list -> (bytes0 * z)
  list -> (bytes0 * z) list -> cstate -> bytes0 -> bytes0 -> cstate * diag
  list

val with_kws : cstate -> (bytes0 * bytes0) list -> cstate

val with_exts : cstate -> (bytes0 * bytes0) list -> cstate

val t_TYPE : bytes0

val t_MACRO_OPEN : bytes0

val t_MACRO_CLOSE : bytes0

val t_MACRO_ELSE : bytes0

val s_type : bytes0

val s_set : bytes0

val s_file_ext : bytes0

val s_macro_open : bytes0

val s_macro_close : bytes0

val s_macro_else : bytes0

val s_include : bytes0

val s_using : bytes0

val split_dot : bytes0 -> bytes0 -> bytes0 list

val stoi : bytes0 -> z

val has_number : bytes0 -> bool

val stoi_opt : bytes0 -> z option

val file_ext_loop :
  bytes0 list -> cstate -> bytes0 -> bytes0 list -> cstate * diag list

val process_line :
  optdef list -> (bytes0 * bool) list -> (bytes0 * z) list -> (bytes0 * z)
  list -> (bytes0 * z) list -> ((bytes0 * bytes0 option) * z) list -> bytes0
  list -> bytes0 list -> cstate -> bytes0 -> cstate * diag list

val load_lines :
  optdef list -> (bytes0 * bool) list -> (bytes0 * z) list -> (bytes0 * z)
  list -> (bytes0 * z) list -> ((bytes0 * bytes0 option) * z) list -> bytes0
  list -> bytes0 list -> cstate -> nat -> bytes0 list ->
  cstate * (nat * diag) list

val line_printable : bytes0 -> bool

val dec_digits : nat -> z -> bytes0 -> bytes0

val to_dec : z -> bytes0

val assoc_z : (z * bytes0) list -> z -> bytes0

val escape : bytes0 -> bytes0

val value_str :
  (z * bytes0) list -> (z * bytes0) list -> (z * bytes0) list -> value ->
  bytes0

val spaces : nat -> bytes0

val option_line :
  (z * bytes0) list -> (z * bytes0) list -> (z * bytes0) list ->
  (bytes0 * value) -> bytes0

val kw_line : (bytes0 * bytes0) -> bytes0

val ext_lines : bytes0 list -> (bytes0 * bytes0) list -> bytes0 list

val save_lines :
  (z * bytes0) list -> (z * bytes0) list -> (z * bytes0) list -> bytes0 list
  -> cstate -> bytes0 list

val non_default_count :
  optdef list -> (z * bytes0) list -> (z * bytes0) list -> (z * bytes0) list
  -> cstate -> nat

val registry : optdef list

val bool_alias : (z list * bool) list

val iarf_alias : (z list * z) list

val lineend_alias : (z list * z) list

val tokenpos_alias : (z list * z) list

val iarf_names : (z * z list) list

val lineend_names : (z * z list) list

val tokenpos_names : (z * z list) list

val compat_names : ((z list * z list option) * z) list

val lang_names : z list list

val token_names : z list list

val cfg_init : cstate

val cfg_load : cstate -> bytes0 list -> cstate * (nat * diag) list

val cfg_save : cstate -> bytes0 list

val cfg_non_default : cstate -> nat

val cfg_set_option : cstate -> bytes0 -> bytes0 -> cstate * diag list

type sym =
| NL
| Ch of z
| Raw of z
| Seg of z list

type ropts = { indent_with_tabs : z; pp_indent_with_tabs : z;
               output_tab_size : z; align_with_tabs : bool;
               align_keep_tabs : bool; sp_before_nl_cont : z;
               force_tab_after_define : bool;
               cmt_convert_tab_to_spaces : bool; in_preproc_at_output : 
               bool }

type wstate = { column : z; spaces0 : z; last_char : z; did_newline : 
                bool; trailspace : bool; tab_as_space : bool; out0 : 
                sym list }

val next_tab_column : ropts -> z -> z

val emit : wstate -> sym -> wstate

val add_spaces : wstate -> wstate

val newline_state : wstate -> sym list -> wstate

val set_last : wstate -> z -> wstate

val cr_fixup : wstate -> z -> wstate

val add_char1 : ropts -> wstate -> z -> wstate

val space_n : ropts -> wstate -> nat -> wstate

val eff_iwt : ropts -> z

val add_char : ropts -> wstate -> z -> bool -> wstate

val add_text : ropts -> wstate -> z list -> bool -> wstate

val add_raw : wstate -> z list -> wstate

val set_did_newline : wstate -> bool -> wstate

val tabs_loop : ropts -> nat -> wstate -> z -> wstate

val output_to_column : ropts -> wstate -> z -> bool -> wstate

type ckind =
| CKNewline
| CKNlCont
| CKComment
| CKIgnored
| CKOther
| CKSkipped

type chunk = { ck : ckind; text : z list; col : z; col_indent : z;
               nl_count : z; nl_col : z; orig_col : z; orig_prev_sp : 
               z; preproc : bool; was_aligned : bool; after_tab : bool;
               lvl_hack : bool; is_pp_define : bool; is_string : bool;
               is_string_multi : bool; is_pp_ignore : bool;
               is_comment_kind : bool; seg : z list; seg_column : z;
               seg_spaces : z; seg_last : z; seg_did_nl : bool }

val ppiwt : ropts -> z

val set_flags : wstate -> bool -> bool -> wstate

val after_newline : wstate -> wstate

val newline_loop : ropts -> nat -> bool -> chunk -> wstate -> wstate

val nlcont_prev : chunk list -> chunk option

val render_nlcont : ropts -> chunk list -> chunk -> wstate -> wstate

val render_other : ropts -> chunk option -> chunk -> wstate -> wstate

val render_chunk : ropts -> chunk list -> chunk -> wstate -> wstate

val render_loop : ropts -> chunk list -> chunk list -> wstate -> wstate

val init_wstate : z -> z -> wstate

val render : ropts -> z -> z -> chunk list -> sym list

val realise : z list -> sym list -> z list

type cls =
| XEmpty
| XBrk of nat
| XTxt
| XOpaque

val is_ign : chunk option -> bool

val classify : chunk option -> chunk option -> chunk -> cls

val classify_list : chunk option -> chunk list -> cls list

val runs_ok : nat -> nat -> cls list -> bool

val nlmax_ok : nat -> chunk list -> bool

val vis : z -> bool

val nobrk : z -> bool

val in_scope : chunk -> bool

type le =
| LF
| CRLF
| CR

type setting =
| SLf
| SCrlf
| SCr
| SAuto

type census = { n_lf : nat; n_crlf : nat; n_cr : nat }

val census0 : census

val bump : le -> census -> census

val census_of : z list -> census

val select_le : setting -> census -> le

val is_blank : z -> bool

val is_eol : z -> bool

val skip_blanks : z list -> z list

val parse_newline : z list -> z list option

val off_newlines : nat -> z list -> nat * z list

val take_line : z list -> z list * z list

type rchunk =
| RIgnored of z list
| RNewline of nat

val scan_off : (z list -> bool) -> nat -> z list -> rchunk list * z list

val lines : z list -> z list list

val nonblank : z list -> bool

val prefix_of : z list -> z list -> bool

val contains : z list -> z list -> bool

val pragma_sp : z list

val pragma_tab : z list

val sp_endasm : z list

val tab_endasm : z list

val hash_endasm : z list

val ends_plain : z list -> z list -> bool

type lkind =
| KWs
| KWord
| KNumber
| KPunct
| KStr
| KChar
| KCmtLine
| KCmtBlock
| KDirHash
| KDirEnd

type tok = { tk : lkind; tt : z list; tdir : bool }

type lstate = { bol : bool; in_dir : bool; dir_pos : nat; want_hdr : bool }

val st0 : lstate

val is_blank0 : z -> bool

val is_eol0 : z -> bool

val is_digit0 : z -> bool

val is_alpha : z -> bool

val is_idstart : z -> bool

val is_idchar : z -> bool

val span : (z -> bool) -> z list -> nat

val eol_len : z list -> nat

val splice_len : z list -> nat

val line_cmt_len : z list -> nat

val blk_len : z list -> nat

val quoted_len : z -> z list -> nat

val prefix_of0 : z list -> z list -> bool

val find_end : z list -> z list -> nat

val raw_delim_char : z -> bool

val raw_len : z list -> nat option

val num_len : z -> z list -> nat

val puncts : z list list

val first_punct : z list list -> z list -> nat

val w_include : z list

val w_import : z list

val w_include_next : z list

val list_eqb : z list -> z list -> bool

val str_prefix : z list -> bool

val raw_prefix : z list -> bool

val after_tok : lstate -> bool -> lstate

val scan : lstate -> z list -> (lkind * nat) * lstate

val lex_all : nat -> lstate -> z list -> tok list

val lex : z list -> tok list

type token = z list

val tok_eqb : token -> token -> bool

val toks_eqb : token list -> token list -> bool

val mem : token list -> token -> bool

val keep : token list -> token list -> token list

val diff_ok : token list -> token list -> token list -> bool

val closer : token -> token option

val is_closer : token -> bool

val balanced_from : token list -> token list -> bool

val balanced : token list -> bool

val c04_ok : token list -> token list -> token list -> bool

type st1 = { nxt : (nat -> nat); prv : (nat -> nat); hd_ : nat; tl_ : 
             nat; isnl : (nat -> bool); nlc : (nat -> nat) }

val upd0 : (nat -> 'a1) -> nat -> 'a1 -> nat -> 'a1

val set_nxt : st1 -> nat -> nat -> st1

val set_prv : st1 -> nat -> nat -> st1

val set_hd : st1 -> nat -> st1

val set_tl : st1 -> nat -> st1

val set_isnl : st1 -> nat -> bool -> st1

val set_nlc : st1 -> nat -> nat -> st1

val empty : st1

val remove : st1 -> nat -> st1

val add_after : st1 -> nat -> nat -> st1

val add_before : st1 -> nat -> nat -> st1

val add_tail : st1 -> nat -> st1

val add_head : st1 -> nat -> st1

val swap : st1 -> nat -> nat -> st1

val move_after : st1 -> nat -> nat -> st1

val first_go : nat -> st1 -> nat -> nat -> nat

val first_on_line : nat -> st1 -> nat -> nat

val sl_loop1 : nat -> st1 -> nat -> nat -> st1 * nat

val sl_loop2 : nat -> st1 -> nat -> nat -> st1 * nat

val swap_lines : nat -> st1 -> nat -> nat -> st1

type op =
| NewAfter of nat * nat * bool * nat
| NewBefore of nat * nat * bool * nat
| Delete of nat
| MoveAfter of nat * nat
| Swap of nat * nat
| SwapLines of nat * nat

val fresh : st1 -> nat -> bool -> nat -> st1

val step0 : nat -> st1 -> op -> st1

val cl_run : nat -> op list -> st1

val walk : nat -> (nat -> nat) -> nat -> nat list

val to_list : nat -> st1 -> nat list

val to_list_back : nat -> st1 -> nat list

val cl_observe : nat -> st1 -> (nat * nat) list * nat list
