(** Property C10 — output depends only on (bytes, language, configuration, file name).
    Proved here over the model of do_source_file() (Model/FsProto.v), for any formatter taken as a function of the
    input bytes: without faults every delivery/output mode - standard output, -o file, in place with or without
    backup, with or without --mtime - completes with status 0 and delivers exactly the formatter's bytes; hence any
    two modes deliver the same bytes.  That the formatter IS a function of (bytes, language, configuration, file
    name) - no dependence on observer options, environment, locale, working directory, address-space layout or
    earlier runs - is the hypothesis of this theorem; it is validated on every explored run by differential
    execution (DESIGN.md), not proved. *)
From Coq Require Import List ZArith Bool.
From UV Require Import Model.FsProto Proofs.FsProofs Proofs.CheckProofs Proofs.DriverProofs.
Import ListNotations.
Local Open Scope Z_scope.

Theorem C10_every_mode_delivers_the_formatted_bytes : forall fmt orig f md,
  fmt orig = Some f -> if_changed md = false -> do_check md = false -> (in_place md = true -> to_file md = true) ->
  let r := run no_plan md fmt (disk0 orig) in
  r_exit r = Some 0%Z /\ delivered md r = Some f.
Proof. exact mode_delivers. Qed.
Print Assumptions C10_every_mode_delivers_the_formatted_bytes.

Theorem C10_modes_agree : forall fmt orig f md1 md2,
  fmt orig = Some f ->
  if_changed md1 = false -> do_check md1 = false -> (in_place md1 = true -> to_file md1 = true) ->
  if_changed md2 = false -> do_check md2 = false -> (in_place md2 = true -> to_file md2 = true) ->
  delivered md1 (run no_plan md1 fmt (disk0 orig)) = delivered md2 (run no_plan md2 fmt (disk0 orig)).
Proof. exact modes_agree. Qed.
Print Assumptions C10_modes_agree.

(** non-vacuity: a formatter that changes one byte (same length - the case in which the in-place path compares the
    temporary file with the original before renaming) *)
Example C10_example :
  let fmt := fun b : bytes => if bytes_eqb b [97; 98] then Some [97; 99] else Some b in
  let inplace := {| in_place := true; to_file := true; no_backup := true; if_changed := false; do_check := false; keep_mtime := false |} in
  let tostdout := {| in_place := false; to_file := false; no_backup := false; if_changed := false; do_check := false; keep_mtime := false |} in
  delivered inplace (run no_plan inplace fmt (disk0 [97; 98])) = Some [97; 99]
  /\ delivered tostdout (run no_plan tostdout fmt (disk0 [97; 98])) = Some [97; 99].
Proof. vm_compute. split; reflexivity. Qed.
