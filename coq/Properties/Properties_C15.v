(** Property C15 — Configuration round-trips.  Statements only. *)
From Coq Require Import List ZArith Bool.
From UV Require Import Model.ConfigDefs Model.Config Gen.Registry Model.ConfigInst
     Proofs.ConfigProofs Proofs.ConfigRoundTrip Proofs.ConfigInstProofs.
Import ListNotations.
Local Open Scope Z_scope.

(** For EVERY well-formed option table (all 857 generated options, every enumerated value, every number in
    range, every string value whatsoever — spaces, quotes, backslashes, '#', '=' included), loading the lines
    --update-config writes for it reproduces the table exactly, from any previous values, with no diagnostic. *)
Theorem C15_load_save_options : forall (target : list (bytes * value)) (st : cstate),
  wf_vals target -> map fst (vals st) = reg_names ->
  let r := cfg_load st (map (option_line iarf_names lineend_names tokenpos_names) target) in
  vals (fst r) = target /\ snd r = [] /\ kws (fst r) = kws st /\ exts (fst r) = exts st.
Proof. exact cfg_load_save_options. Qed.
Print Assumptions C15_load_save_options.

(** idempotence: saving what was loaded from a saved table reproduces the saved lines *)
Theorem C15_save_idempotent : forall st,
  wf_vals (vals st) ->
  let opt_lines := map (option_line iarf_names lineend_names tokenpos_names) (vals st) in
  map (option_line iarf_names lineend_names tokenpos_names) (vals (fst (cfg_load cfg_init opt_lines))) = opt_lines.
Proof. exact cfg_save_load_save. Qed.
Print Assumptions C15_save_idempotent.

(** a quoted string value with the writer's escaping is read back byte for byte (any bytes) *)
Theorem C15_quoted_string_roundtrip : forall v args,
  split SSkip args (34 :: escape v ++ [34]) = SOk (rev (v :: args)).
Proof. exact split_last_quoted. Qed.
Print Assumptions C15_quoted_string_roundtrip.

(** numbers: strtol reads back what to_string printed, for every long *)
Theorem C15_number_roundtrip : forall z,
  - LONG_MAX - 1 <= z <= LONG_MAX -> strtol (to_dec z) = (z, []).
Proof. exact strtol_to_dec. Qed.
Print Assumptions C15_number_roundtrip.

(** the generated tables satisfy the side conditions (names are lower-case words, no directive or deprecated
    name collides, every enumerator's canonical spelling maps back to it) — re-proved on every run *)
Theorem C15_generated_tables_ok : inst_tables_ok = true.
Proof. exact inst_tables. Qed.
Print Assumptions C15_generated_tables_ok.

(** non-vacuity: the default configuration is a well-formed table *)
Theorem C15_defaults_wf : wf_vals (vals cfg_init).
Proof. exact defaults_wf. Qed.
