(** Property C01 — formatting preserves program meaning (compile equivalence).  Level: other.
    The formal content is a reduction: for ANY compiler whose result is a function of the stream of preprocessing
    tokens with its directive structure (the lexical specification LexC), a formatter that preserves that stream
    (property C02) preserves the compiler's result.  Both hypotheses are named; the first is a property of compilers
    (it excludes __LINE__, __FILE__ and debug information), the second is C02.  For the code-modifying options
    (the mod_ family) no theorem is available - adding or removing braces changes the token stream, and that the result is
    the same program is a fact about C semantics: those runs are judged by compiling input and output with
    gcc/g++/javac and comparing the generated code (DESIGN.md). *)
From Coq Require Import List ZArith Bool.
From UV Require Import Model.LexC Proofs.LexCProofs.
Import ListNotations.

Section CompileEquivalence.
  Variable object_code : Type.
  Variable compile : list Z -> object_code.
  Variable format : list Z -> list Z.

  (** the compiler only looks at the tokens (comments and layout are discarded in translation phase 3) *)
  Hypothesis compiler_sees_tokens : forall x y, code_tokens x = code_tokens y -> compile x = compile y.
  (** C02 *)
  Hypothesis format_preserves_tokens : forall x, code_tokens (format x) = code_tokens x.

  Theorem compile_equivalence : forall x, compile (format x) = compile x.
  Proof. intros x. apply compiler_sees_tokens. apply format_preserves_tokens. Qed.

  (** and so does every further pass (history of any length) *)
  Theorem compile_equivalence_iter : forall n x, compile (Nat.iter n format x) = compile x.
  Proof.
    induction n as [|n IH]; intros x; [reflexivity|].
    change (Nat.iter (S n) format x) with (format (Nat.iter n format x)). rewrite compile_equivalence. apply IH.
  Qed.
End CompileEquivalence.

Theorem C01_reduction_to_C02 : forall (object_code : Type) (compile : list Z -> object_code) (format : list Z -> list Z),
  (forall x y, code_tokens x = code_tokens y -> compile x = compile y) ->
  (forall x, code_tokens (format x) = code_tokens x) ->
  forall x, compile (format x) = compile x.
Proof. exact compile_equivalence. Qed.
Print Assumptions C01_reduction_to_C02.
