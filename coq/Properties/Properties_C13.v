(** Property C13 — In-place rewriting is all-or-nothing.  Statements only. *)
From Coq Require Import List ZArith Bool.
From UV Require Import Model.FsProto Proofs.FsProofs.
Import ListNotations.

(** For every fault plan (any operation may fail, any write may hit a full device, in any number) and
    every crash point (killed before any operation, or in the middle of any write), for every in-place
    mode (--replace, --no-backup, -o equal to -f; with or without --if-changed / --mtime), for every
    formatter result (including failure):
      - the path holds the complete original or the complete formatted bytes        [Safe, 1st/2nd case]
      - if it no longer holds the original and a backup was due, the backup file holds
        exactly the original bytes                                                   [Done]
      - exit status 0 implies the rewrite is complete                                [2nd conjunct]
    [r_disk] of a run killed before operation k is the file system at that instant. *)
Theorem C13_all_or_nothing :
  forall (pl : plan) (md : mode) (fmt : bytes -> option bytes) (orig : bytes) (d0 : role -> fstate),
    in_place md = true -> to_file md = true -> do_check md = false ->
    d0 RIn = Closed (Data orig) ->
    let r := run pl md fmt d0 in
    Safe md fmt orig d0 (r_disk r) /\ (r_exit r = Some 0%Z -> Done md fmt orig d0 (r_disk r)).
Proof. exact replace_all_or_nothing_stmt. Qed.
Print Assumptions C13_all_or_nothing.

(** reading of [Safe]: the path is never truncated or mixed *)
Theorem C13_path_original_or_formatted :
  forall pl md fmt orig d0,
    in_place md = true -> to_file md = true -> do_check md = false ->
    d0 RIn = Closed (Data orig) ->
    r_disk (run pl md fmt d0) RIn = Closed (Data orig) \/
    exists f, fmt orig = Some f /\ r_disk (run pl md fmt d0) RIn = Closed (Data f).
Proof.
  intros pl md fmt orig d0 H1 H2 H3 H4.
  destruct (replace_all_or_nothing_stmt pl md fmt orig d0 H1 H2 H3 H4) as [[HS|(f & Hf & Hi & _)] _].
  - left. exact HS.
  - right. exists f. auto.
Qed.
Print Assumptions C13_path_original_or_formatted.

(** reading of [Done]: whenever the path no longer holds the original, the due backup does *)
Theorem C13_backup_holds_original :
  forall pl md fmt orig d0,
    in_place md = true -> to_file md = true -> do_check md = false ->
    d0 RIn = Closed (Data orig) ->
    no_backup md = false ->
    (forall c, holds (d0 RMd5) c -> digest_match c orig = false) ->
    r_disk (run pl md fmt d0) RIn <> Closed (Data orig) ->
    r_disk (run pl md fmt d0) RBackup = Closed (Data orig).
Proof.
  intros pl md fmt orig d0 H1 H2 H3 H4 Hnb Hnm Hne.
  destruct (replace_all_or_nothing_stmt pl md fmt orig d0 H1 H2 H3 H4) as [[HS|(f & Hf & Hi & Hb)] _].
  - contradiction.
  - apply Hb; [split; assumption|]. intros ->. contradiction.
Qed.
Print Assumptions C13_backup_holds_original.

(** a formatting failure leaves the original and exits non-zero *)
Theorem C13_format_failure :
  forall pl md orig d0,
    in_place md = true -> to_file md = true -> do_check md = false ->
    d0 RIn = Closed (Data orig) ->
    let r := run pl md (fun _ => None) d0 in
    r_disk r RIn = Closed (Data orig) /\ r_exit r <> Some 0%Z.
Proof.
  intros pl md orig d0 H1 H2 H3 H4 r.
  destruct (replace_all_or_nothing_stmt pl md (fun _ => None) orig d0 H1 H2 H3 H4) as [[HS|(f & Hf & _)] Hx];
    [|discriminate].
  split; [exact HS|]. intros E. destruct (Hx E) as (f & Hf & _). discriminate.
Qed.
Print Assumptions C13_format_failure.

(** non-vacuity: a concrete no-fault run ends with the formatted text, the backup and exit 0 *)
Example C13_example :
  let md := {| in_place := true; to_file := true; no_backup := false; if_changed := false;
               do_check := false; keep_mtime := false |} in
  let r := run no_plan md (fun _ => Some [105; 59; 10]%Z) (disk0 [105; 32; 59; 10]%Z) in
  r_exit r = Some 0%Z /\ r_disk r RIn = Closed (Data [105; 59; 10]%Z)
  /\ r_disk r RBackup = Closed (Data [105; 32; 59; 10]%Z) /\ r_disk r RTmp = Absent.
Proof. vm_compute. repeat split. Qed.
