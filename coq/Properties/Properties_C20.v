(** Property C20 — Blank-line limits (output stage; the newline passes are contracts, see DESIGN.md). *)
From Coq Require Import List ZArith Bool.
From UV Require Import Model.Render Proofs.RenderProofs.
Import ListNotations.
Local Open Scope Z_scope.

(** a NEWLINE chunk is written as exactly nl_count line breaks and nothing else (no blank-line
    indentation requested): the run lengths of the output are the nl_count fields of the chunk list *)
Theorem C20_newline_chunk_writes_nl_count_breaks : forall o n first c s,
  quiet s -> spaces s = 0 -> nl_col c <= 1 ->
  let s' := newline_loop o n first c s in
  out s' = repeat NL n ++ out s /\ spaces s' = 0.
Proof. exact newline_chunk_run. Qed.
Print Assumptions C20_newline_chunk_writes_nl_count_breaks.
