(** Property C20 — Blank-line limits (output stage; the newline passes are contracts, see DESIGN.md). *)
From Coq Require Import List ZArith Bool.
From UV Require Import Model.Render Model.NlMax Proofs.RenderProofs Proofs.RenderBreaks.
Import ListNotations.
Local Open Scope Z_scope.

(** a NEWLINE chunk is written as exactly nl_count line breaks and nothing else (no blank-line
    indentation requested): the run lengths of the output are the nl_count fields of the chunk list *)
Theorem C20_newline_chunk_writes_nl_count_breaks : forall o n first c s,
  quiet s -> spaces s = 0 -> nl_col c <= 1 ->
  let s' := newline_loop o n first c s in
  out s' = repeat NL n ++ out s /\ spaces s' = 0.
Proof. exact newline_chunk_run. Qed.
Print Assumptions C20_newline_chunk_writes_nl_count_breaks.

(** the whole chunk list: the stream of events (true = line break, false = visible character, comment or
    disabled-region code point) of the written symbols is the concatenation of the chunks' contributions - only NEWLINE
    chunks (nl_count breaks each), backslash-newlines and line feeds inside texts produce a break *)
Theorem C20_event_stream : forall o last sp l,
  last <> 13 -> Forall (crfree) l ->
  flat_map bv (render o last sp l) = flat_map bcontrib l.
Proof. exact render_breaks. Qed.
Print Assumptions C20_event_stream.

(** K_nlmax (Model/NlMax.v, extracted and evaluated by the harness on every dumped final chunk list) is sound: a
    chunk list inside the scope of the property that it accepts is written without any run of more than N line breaks.
    What remains a contract is that the newline passes deliver such a list. *)
Theorem C20_checked_lists_have_bounded_runs : forall o N last sp l,
  last <> 13 -> forallb in_scope l = true -> nlmax_ok N l = true ->
  forall a b k, flat_map bv (render o last sp l) = a ++ repeat true k ++ b -> (k <= N)%nat.
Proof. exact nlmax_sound. Qed.
Print Assumptions C20_checked_lists_have_bounded_runs.

(** non-vacuity: 'a' NEWLINE(2) 'b' NEWLINE(1) is in scope and accepted for N = 2, refused for N = 1; two NEWLINE
    chunks around an empty (virtual) chunk add up *)
Definition mkc (k : ckind) (t : list Z) (n : Z) : chunk :=
  {| ck := k; text := t; col := 1; col_indent := 1; nl_count := n; nl_col := 0; orig_col := 1; orig_prev_sp := 0;
     preproc := false; was_aligned := false; after_tab := false; lvl_hack := false; is_pp_define := false;
     is_string := false; is_string_multi := false; is_pp_ignore := false; is_comment_kind := false; seg := [];
     seg_column := 1; seg_spaces := 0; seg_last := 0; seg_did_nl := false |}.
Definition ex_list := [mkc CKOther [97] 0; mkc CKNewline [] 2; mkc CKOther [98] 0; mkc CKNewline [] 1].
Example C20_checker_accepts : forallb in_scope ex_list = true /\ nlmax_ok 2 ex_list = true /\ nlmax_ok 1 ex_list = false.
Proof. vm_compute. repeat split. Qed.
Example C20_checker_adds_across_empty_chunks :
  nlmax_ok 2 [mkc CKOther [97] 0; mkc CKNewline [] 2; mkc CKOther [] 0; mkc CKNewline [] 1; mkc CKOther [98] 0] = false.
Proof. vm_compute. reflexivity. Qed.

(** file edges: the line breaks that open and close the output are the nl_count of the first and of the last NEWLINE chunk *)
Theorem C20_file_starts_with_nl_count_breaks : forall o last sp l c,
  last <> 13 -> Forall crfree (c :: l) -> ck c = CKNewline ->
  flat_map bv (render o last sp (c :: l)) = repeat true (Z.to_nat (nl_count c)) ++ flat_map bcontrib l.
Proof. exact file_start_breaks. Qed.
Print Assumptions C20_file_starts_with_nl_count_breaks.

Theorem C20_file_ends_with_nl_count_breaks : forall o last sp l c,
  last <> 13 -> Forall crfree (l ++ [c]) -> ck c = CKNewline ->
  flat_map bv (render o last sp (l ++ [c])) = flat_map bcontrib l ++ repeat true (Z.to_nat (nl_count c)).
Proof. exact file_end_breaks. Qed.
Print Assumptions C20_file_ends_with_nl_count_breaks.
