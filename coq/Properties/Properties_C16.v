(** Property C16 — Bad configuration lines are diagnosed and have no other effect.  Statements only. *)
From Coq Require Import List ZArith Bool.
From UV Require Import Model.ConfigDefs Model.Config Gen.Registry Model.ConfigInst
     Proofs.ConfigProofs Proofs.ConfigRoundTrip Proofs.ConfigInstProofs.
Import ListNotations.
Local Open Scope Z_scope.

(** a value that is not accepted (wrong type, out of range, dangling or ill-typed reference) leaves the
    WHOLE state unchanged ... *)
Theorem C16_rejected_value_no_effect : forall st name s k d,
  lookup_kind registry name = Some k ->
  read_value registry bool_alias iarf_alias lineend_alias tokenpos_alias (vals st) name k s = (None, d) ->
  cfg_set_option st name s = (st, d).
Proof. exact (rejected_value_no_effect registry bool_alias iarf_alias lineend_alias tokenpos_alias). Qed.
Print Assumptions C16_rejected_value_no_effect.

(** ... and is diagnosed *)
Theorem C16_rejected_value_diagnosed : forall vs name k s d,
  read_value registry bool_alias iarf_alias lineend_alias tokenpos_alias vs name k s = (None, d) -> d <> [].
Proof. exact (rejected_value_diagnosed registry bool_alias iarf_alias lineend_alias tokenpos_alias). Qed.
Print Assumptions C16_rejected_value_diagnosed.

(** an unknown option name changes nothing and is named in the diagnostic *)
Theorem C16_unknown_option : forall st name s,
  lookup_kind registry name = None -> cfg_set_option st name s = (st, [DUnknownOption name]).
Proof. exact (unknown_option_no_effect registry bool_alias iarf_alias lineend_alias tokenpos_alias). Qed.
Print Assumptions C16_unknown_option.

(** an accepted value changes exactly the named option *)
Theorem C16_accepted_only_that_option : forall st name s k v d,
  lookup_kind registry name = Some k ->
  read_value registry bool_alias iarf_alias lineend_alias tokenpos_alias (vals st) name k s = (Some v, d) ->
  cfg_set_option st name s =
    ({| vals := set_val (vals st) name v; kws := kws st; exts := exts st; compat := compat st;
        includes := includes st |}, d).
Proof. exact (accepted_value_only_that_option registry bool_alias iarf_alias lineend_alias tokenpos_alias). Qed.
Print Assumptions C16_accepted_only_that_option.

(** accepted numbers are within the documented range, for every bounded option *)
Theorem C16_unsigned_in_range : forall vs name lo hi s z d,
  read_value registry bool_alias iarf_alias lineend_alias tokenpos_alias vs name (KUnum (Some (lo, hi))) s
  = (Some (VUnum z), d) -> lo <= z <= hi.
Proof. exact (accepted_unsigned_in_range registry bool_alias iarf_alias lineend_alias tokenpos_alias). Qed.
Print Assumptions C16_unsigned_in_range.

Theorem C16_signed_in_range : forall vs name lo hi s z d,
  read_value registry bool_alias iarf_alias lineend_alias tokenpos_alias vs name (KNum (Some (lo, hi))) s
  = (Some (VNum z), d) -> lo <= z <= hi.
Proof. exact (accepted_signed_in_range registry bool_alias iarf_alias lineend_alias tokenpos_alias). Qed.
Print Assumptions C16_signed_in_range.

(** malformed lines (unterminated quote, text after a quoted string) change nothing *)
Theorem C16_malformed_line_no_effect : forall st line,
  (split_args line = SUnterminated \/ split_args line = SUnexpected) ->
  fst (cfg_process st line) = st.
Proof. exact (malformed_line_no_effect registry bool_alias iarf_alias lineend_alias tokenpos_alias compat_names lang_names token_names). Qed.
Print Assumptions C16_malformed_line_no_effect.

(** the nl_max consistency guard, over the generated list of the options it compares *)
Theorem C16_nl_max_guard : forall st,
  too_big st = true <->
  0 < num_val st s_nl_max /\ exists o, In o nlmax_guard /\ num_val st o > num_val st s_nl_max.
Proof. exact too_big_spec. Qed.
Print Assumptions C16_nl_max_guard.
