(** Property C04 — code-modifying options change only the tokens they name.
    Proved here: the checker that judges every explored run ([c04_ok]: the token streams of input and output agree
    once the tokens named by the enabled options are taken out, and bracket balance is not lost) accepts exactly
    the pairs related by a script that inserts and deletes named tokens and copies every other token in order; with
    no token named it demands equality.  The modifying passes themselves (braces.cpp, parens.cpp, semicolons.cpp ...)
    are NOT modelled: this property is decided on explored runs by the verified checker (DESIGN.md). *)
From Coq Require Import List ZArith Bool.
From UV Require Import Model.TokDiff Proofs.TokDiffProofs.
Import ListNotations.
Local Open Scope Z_scope.

Theorem C04_checker_is_the_edit_relation : forall allowed a b,
  diff_ok allowed a b = true <-> edits allowed a b.
Proof. exact diff_ok_iff_edits. Qed.
Print Assumptions C04_checker_is_the_edit_relation.

Theorem C04_defaults_demand_equality : forall a b, diff_ok [] a b = true <-> a = b.
Proof. exact diff_ok_none. Qed.
Print Assumptions C04_defaults_demand_equality.

(** non-vacuity: braces added around a statement are accepted, a dropped statement or a lone brace is not *)
Example C04_example :
  let i := [105;102] in let x := [120] in let sc := [59] in let ob := [123] in let cb := [125] in
  c04_ok [ob; cb] [i; x; sc] [i; ob; x; sc; cb] = true
  /\ c04_ok [ob; cb] [i; x; sc] [i; ob; sc; cb] = false
  /\ c04_ok [ob; cb] [i; ob; x; sc; cb] [i; x; sc; cb] = false.
Proof. vm_compute. repeat split. Qed.
