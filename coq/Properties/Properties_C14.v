(** Property C14 — The backup always holds the last text uncrustify did not write itself. *)
From Coq Require Import List ZArith Bool.
From UV Require Import Model.FsProto Model.Backup Proofs.FsProofs Proofs.BackupProofs.
Import ListNotations.

(** For EVERY history of user edits and completed --replace runs (any formatter per run: different
    configurations, no-op runs, runs whose formatting fails), starting from any state related to the
    specification: the backup file holds exactly [g_prist] — the content the file had before the
    earliest run since the last user edit — and the md5 file describes [g_last], the content uncrustify
    last left in the file.  [h] is the digest; its injectivity on the contents that occur is the
    Section hypothesis [h_inj] (MD5 collisions are outside the claim). *)
Theorem C14_backup_exact :
  forall (digest : Type) (h : bytes -> digest) (digest_eqb : digest -> digest -> bool),
    (forall a b, digest_eqb (h a) (h b) = bytes_eqb a b) ->
    forall hist g s,
      forallb completed_only hist = true -> R digest h g s ->
      R digest h (fold_left gstep hist g) (fold_left (step digest h digest_eqb) hist s).
Proof. exact backup_exact. Qed.
Print Assumptions C14_backup_exact.

(** running again never overwrites the backup with uncrustify's own output *)
Theorem C14_rerun_keeps_backup :
  forall (digest : Type) (h : bytes -> digest) (digest_eqb : digest -> digest -> bool),
    (forall a b, digest_eqb (h a) (h b) = bytes_eqb a b) ->
    forall g s f1 f2 out1,
      R digest h g s -> f1 (g_file g) = Some out1 ->
      b_backup (step digest h digest_eqb (step digest h digest_eqb s (Run f1 Completed)) (Run f2 Completed))
      = b_backup (step digest h digest_eqb s (Run f1 Completed)).
Proof. exact rerun_keeps_backup. Qed.
Print Assumptions C14_rerun_keeps_backup.

(** with runs killed in any phase: the text to protect stays recoverable along every admissible history *)
Theorem C14_kill_safe :
  forall (digest : Type) (h : bytes -> digest) (digest_eqb : digest -> digest -> bool),
    (forall a b, digest_eqb (h a) (h b) = bytes_eqb a b) ->
    forall hist prot s prot' s',
      inv digest h digest_eqb prot s ->
      play digest h digest_eqb prot s hist = Some (prot', s') ->
      protected digest h digest_eqb prot' s'.
Proof. exact backup_kill_safe. Qed.
Print Assumptions C14_kill_safe.

(** the side condition on K3 is necessary: the window is a genuine loss (known finding) *)
Theorem C14_kill_window_refuted :
  exists hist : list event, exists user_text : bytes,
    let s0 := {| b_file := user_text; b_backup := None; b_md5 := None |} in
    let s := fold_left (step bytes idh bytes_eqb) hist s0 in
    b_backup s <> Some (user_text, true) /\ b_file s <> user_text.
Proof. exact backup_kill_window_refuted. Qed.
Print Assumptions C14_kill_window_refuted.

(** non-vacuity: the initial state of a fresh file satisfies both invariants *)
Example C14_initial_state : forall fl : bytes,
  inv bytes idh bytes_eqb fl {| b_file := fl; b_backup := None; b_md5 := None |} /\
  R bytes idh {| g_file := fl; g_last := None; g_prist := None |} {| b_file := fl; b_backup := None; b_md5 := None |}.
Proof. intros fl. split; [reflexivity|repeat split]. Qed.
