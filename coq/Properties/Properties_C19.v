(** Property C19 — Spacing options mean what they say at the places they are reported to govern. *)
From Coq Require Import List ZArith Bool.
From UV Require Import Model.ConfigDefs Model.Config Gen.Registry Model.SpaceDefs Model.SpaceApply Gen.SpaceRules Proofs.SpaceProofs.
From UV Require Model.Render Proofs.RenderProofs Proofs.RenderNlCont.
Import ListNotations.
Local Open Scope Z_scope.

(** Every one of the generated return sites of do_space() (regenerated from src/space.cpp on every run) either
    returns a constant under a label that is not a spacing option, or returns (a listed function of) the value
    of the VERY option whose name it logs — checked against the generated option registry. *)
Theorem C19_rules_faithful : forallb site_ok space_sites = true.
Proof. exact space_rules_faithful. Qed.
Print Assumptions C19_rules_faithful.

(** what a site can return relative to the configured value: the value itself, or (for the listed lexical
    exception shapes) Add/Force instead — never Remove/Ignore in place of a requested space *)
Theorem C19_returned_value : forall sh c v r,
  0 <= v <= 3 -> In r (ret_values sh c v) ->
  match sh with
  | SOpt => r = v
  | SConst => r = c
  | SOrAdd | SMaybeOrAdd => r = v \/ r = ior v 1
  | SAddUnlessIgnore => (v = 0 /\ r = 0) \/ (v <> 0 /\ r = ior v 1)
  | SRemoveToForce => r = 3
  | SMaybeIgnore => r = v \/ r = 0
  end.
Proof. exact ret_values_spec. Qed.
Print Assumptions C19_returned_value.

(** the protection against token fusion only ever adds a space *)
Theorem C19_force_space_only_adds : forall forced av, 0 <= av <= 3 ->
  ensure_force forced av = (if forced then (if (av =? 0) || (av =? 1) then 1 else 3) else av).
Proof. exact ensure_force_spec. Qed.
Print Assumptions C19_force_space_only_adds.

(** the decision applied to columns: Remove none, Force exactly max(1,min_sp), Add at least one, Ignore keeps
    presence/absence (and width) as in the input *)
Theorem C19_gap_obeys_value : forall av min_sp noc pce,
  0 <= av <= 3 -> 0 <= pce -> 0 <= noc ->
  let g := apply_gap av min_sp noc pce in
  (av = 2 -> g = 0) /\
  (av = 3 -> g = Z.max 1 min_sp) /\
  (av = 1 -> g >= Z.max 1 min_sp /\ g >= 1) /\
  (av = 0 -> pce <> 0 -> pce <= noc -> (g > 0 <-> noc - pce > 0) /\ g = noc - pce).
Proof. exact apply_gap_spec. Qed.
Print Assumptions C19_gap_obeys_value.

(** where the WRITER decides: the column of a backslash-newline that was not aligned is recomputed in output_text();
    sp_before_nl_cont = force gives exactly one blank in front of the backslash, remove none (model B, tied to output.cpp
    by the Render correspondence and by the written-gap oracle of the check) *)
Theorem C19_nl_cont_force_writes_one_blank : forall o rp c s,
  RenderProofs.quiet s -> Render.spaces s = 0 -> Render.was_aligned c = false -> Render.sp_before_nl_cont o = 3 ->
  Render.out (Render.render_nlcont o rp c s) = Render.NL :: Render.Ch 92 :: Render.Ch 32 :: Render.out s.
Proof. exact RenderNlCont.nlcont_force_one_blank. Qed.
Print Assumptions C19_nl_cont_force_writes_one_blank.

Theorem C19_nl_cont_remove_writes_no_blank : forall o rp c s,
  RenderProofs.quiet s -> Render.spaces s = 0 -> Render.was_aligned c = false -> Render.sp_before_nl_cont o = 2 ->
  Render.out (Render.render_nlcont o rp c s) = Render.NL :: Render.Ch 92 :: Render.out s.
Proof. exact RenderNlCont.nlcont_remove_no_blank. Qed.
Print Assumptions C19_nl_cont_remove_writes_no_blank.
