(** Property C07 — Disabled regions are copied through untouched.
    Lexer side (Model/Region.v), output side (Model/Render.v) and their composition under the contract K_region on
    the passes in between (not modelled; evaluated on every explored run, see DESIGN.md). *)
From Coq Require Import List ZArith Bool.
From UV Require Import Model.Region Model.Render Proofs.RegionProofs Proofs.RenderProofs Proofs.RegionRender Proofs.RegionEnd.
Import ListNotations.
Local Open Scope Z_scope.

(** while processing is off, every non-blank line becomes exactly one IGNORED chunk with the line's text, in order,
    for ANY text; the scan stops only at the end of the text or in front of a non-empty line holding the enabling
    text, so what the rest of the tokenizer sees does not depend on what the other lines contain *)
Theorem C07_lexer_lossless_in_off_mode : forall ends l cs rest,
  scan_off ends (S (length l)) l = (cs, rest) ->
  exists consumed, l = consumed ++ rest
    /\ filter nonblank (lines consumed) = filter nonblank (ignored_texts cs)
    /\ (forall t, In (RIgnored t) cs -> t <> [] /\ no_eol t /\ ends t = false)
    /\ stopped ends rest.
Proof. exact region_scan. Qed.
Print Assumptions C07_lexer_lossless_in_off_mode.

(** the output stage writes the chunks of a region raw - no column logic, no tab or space rewriting - with exactly
    nl_count terminators after each, and leaves the writer in a state that does not depend on the texts *)
Theorem C07_region_written_raw : forall o l its, is_region l its -> forall rp s,
  quiet s -> spaces s = 0 ->
  let s' := render_loop o rp l s in
  out s' = rev (region_syms its) ++ out s /\ spaces s' = 0 /\ quiet s'.
Proof. exact region_render. Qed.
Print Assumptions C07_region_written_raw.

Theorem C07_region_bytes : forall nl ps,
  realise nl (region_syms (alternate ps)) = flat_map (fun p => fst p ++ concat (repeat nl (snd p))) ps.
Proof. exact realise_region. Qed.
Print Assumptions C07_region_bytes.

(** end to end: non-blank lines identical and in order, for every text, every configured newline, every writer
    state reached after a line break - given K_region *)
Theorem C07_region_end_to_end : forall ends o nl l cs rest lF its ps rp s,
  scan_off ends (S (length l)) l = (cs, rest) ->
  is_region lF its -> drop_empty its = alternate ps ->
  map fst ps = ignored_texts cs -> Forall (fun p => (1 <= snd p)%nat) ps ->
  nl_ok nl -> quiet s -> spaces s = 0 ->
  exists consumed written,
    l = consumed ++ rest /\ stopped ends rest
    /\ out (render_loop o rp lF s) = rev written ++ out s
    /\ filter nonblank (lines (realise nl written)) = filter nonblank (lines consumed).
Proof. exact region_end_to_end. Qed.
Print Assumptions C07_region_end_to_end.

(** non-vacuity: a concrete region with tabs, trailing blanks, a blank line, CR LF and an unbalanced bracket *)
Example C07_example :
  let ontext := [42;73;78;68;69;78;84;45;79;78;42] in     (* *INDENT-ON* *)
  let l := [9;120;32;40;32;13;10;32;32;10;121;59;32;10;47;42;32] ++ ontext ++ [32;42;47;10;122] in
  scan_off (ends_plain ontext) (S (length l)) l =
    ([RIgnored [9;120;32;40;32]; RNewline 2; RIgnored [121;59;32]; RNewline 1], [47;42;32] ++ ontext ++ [32;42;47;10;122]).
Proof. vm_compute. reflexivity. Qed.
