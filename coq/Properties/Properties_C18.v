(** Property C18 — Indentation reflects block nesting (output stage: a column is realised as exactly that
    much whitespace; the indent pass computing the columns is a contract, see DESIGN.md). *)
From Coq Require Import List ZArith Bool.
From UV Require Import Model.Render Proofs.RenderProofs.
Import ListNotations.
Local Open Scope Z_scope.

Theorem C18_leading_width_is_column_minus_one : forall o prev c s,
  indent_with_tabs o = 0 -> (pp_indent_with_tabs o = 0 \/ pp_indent_with_tabs o = -1) ->
  quiet s -> column s = 1 -> spaces s = 0 -> did_newline s = true ->
  1 <= col c -> Forall plainc (text c) -> is_string_multi c = false ->
  (is_pp_define c && force_tab_after_define o) = false -> is_comment_kind c = false ->
  let s' := render_other o prev c s in
  all_out s' = rev (map Ch (text c)) ++ repeat (Ch 32) (Z.to_nat (col c - 1)) ++ out s /\
  column s' = col c + Z.of_nat (length (text c)).
Proof. exact first_chunk_on_line. Qed.
Print Assumptions C18_leading_width_is_column_minus_one.
