(** Property C18 — Indentation reflects block nesting (output stage: a column is realised as exactly that
    much whitespace; the indent pass computing the columns is a contract, see DESIGN.md). *)
From Coq Require Import List ZArith Bool.
From UV Require Import Model.Render Proofs.RenderProofs Proofs.RenderTrail Proofs.RenderIndent.
Import ListNotations.
Local Open Scope Z_scope.

Theorem C18_leading_width_is_column_minus_one : forall o prev c s,
  indent_with_tabs o = 0 -> (pp_indent_with_tabs o = 0 \/ pp_indent_with_tabs o = -1) ->
  quiet s -> column s = 1 -> spaces s = 0 -> did_newline s = true ->
  1 <= col c -> Forall plainc (text c) -> is_string_multi c = false ->
  (is_pp_define c && force_tab_after_define o) = false -> is_comment_kind c = false ->
  let s' := render_other o prev c s in
  all_out s' = rev (map Ch (text c)) ++ repeat (Ch 32) (Z.to_nat (col c - 1)) ++ out s /\
  column s' = col c + Z.of_nat (length (text c)).
Proof. exact first_chunk_on_line. Qed.
Print Assumptions C18_leading_width_is_column_minus_one.

(** Whole list.  For EVERY chunk list under a configuration that indents with blanks only: wherever a NEWLINE chunk is
    followed by a code chunk c - after any prefix l1 that meets the hygiene contract, before any rest l2 - the written file
    has, behind the line breaks of that NEWLINE chunk, exactly [col c - 1] blanks and then the text of c.  So two statements
    the indent pass gives the same column start in the same column of the output, one given a column indent_columns larger
    starts exactly that much further right, and nothing but [col c] decides where the line starts (in particular not the
    original indentation, which the writer does not read here): what remains of the property is the contract K_indent on
    the columns, evaluated on every dumped chunk list. *)
Theorem C18_every_line_starts_in_its_column : forall o,
  indent_with_tabs o = 0 -> (pp_indent_with_tabs o = 0 \/ pp_indent_with_tabs o = -1) ->
  align_with_tabs o = false -> align_keep_tabs o = false -> force_tab_after_define o = false ->
  forall last l1 nlc c l2,
  last <> 13 -> Forall tr_ok l1 -> break_chunk nlc -> code_chunk c ->
  exists rest,
    render o last 0 (l1 ++ nlc :: c :: l2) =
    render o last 0 l1 ++ repeat NL (Z.to_nat (nl_count nlc)) ++ repeat (Ch 32) (Z.to_nat (col c - 1)) ++ map Ch (text c) ++ rest.
Proof. exact every_line_starts_in_its_column. Qed.
Print Assumptions C18_every_line_starts_in_its_column.

(** non-vacuity: "a" NEWLINE "  b" (column 3) NEWLINE - the hypotheses hold and the model writes a, line break, two blanks, b *)
Definition c18_chunk (k : ckind) (t : list Z) (cl n : Z) : chunk :=
  {| ck := k; text := t; col := cl; col_indent := cl; nl_count := n; nl_col := 0; orig_col := 9; orig_prev_sp := 0;
     preproc := false; was_aligned := false; after_tab := false; lvl_hack := false; is_pp_define := false;
     is_string := false; is_string_multi := false; is_pp_ignore := false; is_comment_kind := false; seg := [];
     seg_column := 1; seg_spaces := 0; seg_last := 0; seg_did_nl := false |}.
Definition c18_opts : ropts :=
  {| indent_with_tabs := 0; pp_indent_with_tabs := -1; output_tab_size := 8; align_with_tabs := false; align_keep_tabs := false;
     sp_before_nl_cont := 0; force_tab_after_define := false; cmt_convert_tab_to_spaces := false; in_preproc_at_output := false |}.
Example C18_hypotheses_inhabited :
  break_chunk (c18_chunk CKNewline [] 1 1) /\ code_chunk (c18_chunk CKOther [98] 3 0) /\
  render c18_opts 0 0 [c18_chunk CKOther [97] 1 0; c18_chunk CKNewline [] 1 1; c18_chunk CKOther [98] 3 0; c18_chunk CKNewline [] 1 1]
  = [Ch 97; NL; Ch 32; Ch 32; Ch 98; NL].
Proof.
  split; [|split].
  - unfold break_chunk. cbn. repeat split; discriminate.
  - unfold code_chunk, nonblank_end. cbn. repeat split; try discriminate. repeat constructor; discriminate.
  - vm_compute. reflexivity.
Qed.
