(** Property C03 — comments and literals survive intact.
    Proved here (output stage): a literal chunk (CT_STRING) is written verbatim, character by character, with no tab
    or blank rewriting, whatever the option values; the text of every chunk - comments' emitted segments included -
    is written exactly once and in order.  The comment writers (the output_comment_ functions), the tokenizer's literal and
    comment scanners and the passes in between are not modelled: the comment/literal sequences of input and
    output, obtained with the lexical specification LexC, are compared on every explored run (DESIGN.md). *)
From Coq Require Import List ZArith Bool.
From UV Require Import Model.Render Model.LexC Proofs.RenderProofs Proofs.RenderText Proofs.LexCProofs.
Import ListNotations.
Local Open Scope Z_scope.

Theorem C03_literal_written_verbatim : forall o t, Forall litc t -> forall s, quiet s ->
  let s' := add_text o s t true in
  all_out s' = rev (map Ch t) ++ all_out s /\ quiet s'.
Proof. exact literal_text_verbatim. Qed.
Print Assumptions C03_literal_written_verbatim.

Theorem C03_every_chunk_once_in_order : forall o last sp l,
  flat_map sym_chars (render o last sp l) = flat_map contrib l.
Proof. exact render_text. Qed.
Print Assumptions C03_every_chunk_once_in_order.

(** non-vacuity: a literal with a blank followed by a tab, written with indent_with_tabs = 0 (the case in which
    ordinary text would have its tab replaced) *)
Example C03_literal_example :
  let o := {| indent_with_tabs := 0; pp_indent_with_tabs := -1; output_tab_size := 8; align_with_tabs := false; align_keep_tabs := false;
              sp_before_nl_cont := 0; force_tab_after_define := false; cmt_convert_tab_to_spaces := false; in_preproc_at_output := false |} in
  let s := init_wstate 0 0 in
  rev (all_out (add_text o s [34;97;32;9;98;34] true)) = map Ch [34;97;32;9;98;34]
  /\ rev (all_out (add_text o s [34;97;32;9;98;34] false)) <> map Ch [34;97;32;9;98;34].
Proof. split; vm_compute; [reflexivity|discriminate]. Qed.
