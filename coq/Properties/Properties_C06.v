(** Property C06 — any input terminates cleanly: formatted, or refused with a diagnostic.
    PARTIAL.  Proved here:
    (a) over the inventories that gen/gen_termination.py regenerates from /repo/src on every run: every exit() call
        passes a documented status; every non-zero exit is preceded by a diagnostic apart from reviewed sites; no
        exit() lies in the output phase apart from three reviewed internal-error sites; every loop that walks the
        chunk list tests for the end of the list or only runs over chunks of named types, apart from reviewed loops;
    (b) over the hand-written models: the lexical specification and the lexer model of the 'off' state consume at
        least one character per token (no stuck state), for every text.
    NOT proved, and not expressible in these models: memory safety and absence of undefined behaviour of the C++
    code, termination of its loops.  Those are explored with a sanitizer build (DESIGN.md). *)
From Coq Require Import List ZArith Bool Arith.
From UV Require Import Model.Config Gen.Termination Proofs.TerminationInst Model.LexC Proofs.LexCProofs Model.Region Proofs.RegionProofs.
Import ListNotations.
Local Open Scope Z_scope.

Theorem C06_exit_statuses_documented :
  forallb (fun e => existsb (beqb (status_of e)) documented) exit_sites = true.
Proof. exact exit_statuses_documented. Qed.
Print Assumptions C06_exit_statuses_documented.

Theorem C06_nonzero_exits_are_diagnosed : silent_unreviewed = [].
Proof. exact nonzero_exits_are_diagnosed. Qed.
Print Assumptions C06_nonzero_exits_are_diagnosed.

Theorem C06_no_new_exit_in_output_phase : output_phase_unreviewed = [].
Proof. exact no_new_exit_in_output_phase. Qed.
Print Assumptions C06_no_new_exit_in_output_phase.

Theorem C06_chunk_walks_are_guarded : unreviewed_loops = [].
Proof. exact chunk_walks_are_guarded. Qed.
Print Assumptions C06_chunk_walks_are_guarded.

Theorem C06_for_walks_are_guarded : unreviewed_for_loops = [].
Proof. exact for_walks_are_guarded. Qed.
Print Assumptions C06_for_walks_are_guarded.

Theorem C06_tokenizer_loops_are_guarded : open_char_loops = [].
Proof. exact tokenizer_loops_are_guarded. Qed.
Print Assumptions C06_tokenizer_loops_are_guarded.

Theorem C06_lexspec_progress : forall fuel s l, Forall (fun t => tt t <> []) (lex_all fuel s l).
Proof. exact lex_all_nonempty. Qed.
Print Assumptions C06_lexspec_progress.

(** the 'off' state scanner: whatever the text, the scan ends at the end of the text or in front of the enabling line *)
Theorem C06_off_state_scan_ends : forall ends l cs rest,
  scan_off ends (S (length l)) l = (cs, rest) -> stopped ends rest.
Proof.
  intros ends l cs rest H. destruct (region_scan ends l cs rest H) as (c & _ & _ & _ & St). exact St.
Qed.
Print Assumptions C06_off_state_scan_ends.
