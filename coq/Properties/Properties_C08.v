(** Property C08 — Line endings (output side; the input side is validated by oracle, see DESIGN.md). *)
From Coq Require Import List ZArith Bool.
From UV Require Import Model.Render Proofs.RenderProofs.
Import ListNotations.
Local Open Scope Z_scope.

(** For EVERY chunk list and option set: no character that the output stage writes through its single
    writer is a bare CR or LF — every line break is the symbol [NL], which [realise] turns into exactly
    the configured newline sequence.  Other CR/LF can only sit in [Raw] (disabled-region text) and [Seg]
    (comment writers, oracle) symbols. *)
Theorem C08_every_line_break_is_the_configured_one : forall o last sp l,
  Forall clean (render o last sp l).
Proof. exact render_eol_only_nl. Qed.
Print Assumptions C08_every_line_break_is_the_configured_one.

(** output under any newline setting = output under LF with every line break replaced (the symbol stream
    does not depend on the setting) *)
Theorem C08_newline_setting_commutes : forall nl l,
  Forall clean l -> Forall lf_free l ->
  realise nl l = flat_map (fun c => if c =? 10 then nl else [c]) (realise [10] l).
Proof. exact realise_commute. Qed.
Print Assumptions C08_newline_setting_commutes.
