(** Property C08 — Line endings (output side; the input side is validated by oracle, see DESIGN.md). *)
From Coq Require Import List ZArith Bool.
From UV Require Import Model.Render Proofs.RenderProofs.
Import ListNotations.
Local Open Scope Z_scope.

(** For EVERY chunk list and option set: no character that the output stage writes through its single
    writer is a bare CR or LF — every line break is the symbol [NL], which [realise] turns into exactly
    the configured newline sequence.  Other CR/LF can only sit in [Raw] (disabled-region text) and [Seg]
    (comment writers, oracle) symbols. *)
Theorem C08_every_line_break_is_the_configured_one : forall o last sp l,
  Forall clean (render o last sp l).
Proof. exact render_eol_only_nl. Qed.
Print Assumptions C08_every_line_break_is_the_configured_one.

(** output under any newline setting = output under LF with every line break replaced (the symbol stream
    does not depend on the setting) *)
Theorem C08_newline_setting_commutes : forall nl l,
  Forall clean l -> Forall lf_free l ->
  realise nl l = flat_map (fun c => if c =? 10 then nl else [c]) (realise [10] l).
Proof. exact realise_commute. Qed.
Print Assumptions C08_newline_setting_commutes.

(** Input side: the terminator 'newlines = auto' selects (Model/NlAuto.v: the tokenizer's census and the decision at
    the end of tokenize(), both compared with the real run on every explored input). *)
From UV Require Import Model.NlAuto Proofs.NlAutoProofs.

(** whatever the census: auto selects a terminator no other one is more frequent than; a fixed setting ignores the census *)
Theorem C08_auto_selects_a_most_frequent_terminator : forall c t,
  (NlAuto.cnt c t <= NlAuto.cnt c (NlAuto.select_le SAuto c))%nat.
Proof. exact choose_auto_is_most_frequent. Qed.
Print Assumptions C08_auto_selects_a_most_frequent_terminator.

Theorem C08_fixed_setting_ignores_the_input : forall c,
  NlAuto.select_le SLf c = NlAuto.LF /\ NlAuto.select_le SCrlf c = NlAuto.CRLF /\ NlAuto.select_le SCr c = NlAuto.CR.
Proof. exact choose_fixed. Qed.
Print Assumptions C08_fixed_setting_ignores_the_input.

(** for EVERY text given as lines with their terminators (any mixture; the one ambiguous shape - a CR-terminated line
    followed by an empty LF-terminated one, which IS a CRLF - excluded): the census counts the lines per terminator,
    and a strict majority terminator is the one selected *)
Theorem C08_census_counts_lines : forall ls t,
  Forall (fun x => line_ok (fst x)) ls -> unamb ls ->
  NlAuto.cnt (NlAuto.census_of (joinm ls)) t = count_le t ls.
Proof. exact scan_joinm. Qed.
Print Assumptions C08_census_counts_lines.

Theorem C08_auto_follows_the_majority : forall ls t,
  Forall (fun x => line_ok (fst x)) ls -> unamb ls ->
  (forall u, u <> t -> (count_le u ls < count_le t ls)%nat) ->
  NlAuto.select_le SAuto (NlAuto.census_of (joinm ls)) = t.
Proof. exact auto_on_mixed_text. Qed.
Print Assumptions C08_auto_follows_the_majority.

(** converting all terminators of a non-empty text to t makes auto select t *)
Theorem C08_auto_after_conversion : forall t (ls : list (list Z * le)),
  ls <> [] -> Forall (fun x => line_ok (fst x)) ls ->
  NlAuto.select_le SAuto (NlAuto.census_of (joinm (map (fun x => (fst x, t)) ls))) = t.
Proof. exact auto_after_conversion. Qed.
Print Assumptions C08_auto_after_conversion.
