(** Property C09 — Encoding is transparent.  Statements only; proofs are in
    Proofs/Codec*.v.  Every theorem is closed by [exact] and followed by
    [Print Assumptions]. *)
From Coq Require Import List ZArith Bool.
From UV Require Import Model.Codec Proofs.CodecProofs Proofs.CodecFile Proofs.CodecCommute.
Import ListNotations.
Local Open Scope Z_scope.

(** (c) every code point below 2^31 (in particular every Unicode scalar value)
    survives UTF-8 encode/decode, for texts of any length *)
Theorem C09_utf8_roundtrip : forall cps,
  Forall cp31 cps -> dec8 repo_check_min None (flat_map encode_utf8 cps) = Some cps.
Proof. exact (dec8_encode repo_check_min). Qed.
Print Assumptions C09_utf8_roundtrip.

(** (c) every Unicode scalar value survives UTF-16 LE/BE *)
Theorem C09_utf16_roundtrip : forall be cps,
  Forall scalar cps -> dec16 be None (flat_map (write_utf16 be) cps) = Some cps.
Proof. exact dec16_write. Qed.
Print Assumptions C09_utf16_roundtrip.

(** the decoders are injective: whatever they accept is re-encoded to itself *)
Theorem C09_utf8_decoder_injective : forall bs cps,
  Forall byte bs -> dec8 repo_check_min None bs = Some cps -> flat_map encode_utf8 cps = bs.
Proof. exact dec8_inj. Qed.
Print Assumptions C09_utf8_decoder_injective.

Theorem C09_utf16_decoder_injective : forall be bs cps,
  Forall byte bs -> dec16 be None bs = Some cps ->
  flat_map (write_utf16 be) cps = bs /\ Forall scalar cps.
Proof. exact dec16_inj. Qed.
Print Assumptions C09_utf16_decoder_injective.

(** (d) for EVERY byte string: refused, or written back byte-identically, or
    BOM-less UTF-16 that gains its BOM — never silently altered *)
Theorem C09_never_silently_altered : forall bs,
  Forall byte bs ->
  outcome_ok bs (run_file repo_check_min default_enc_opts (fun x => x) bs).
Proof. exact never_silently_altered. Qed.
Print Assumptions C09_never_silently_altered.

(** the statement is false for the decoder before fix 0d0f6c8 (witness C1 81) *)
Theorem C09_never_silently_altered_refuted_before_fix :
  exists bs, Forall byte bs /\
    ~ outcome_ok bs (run_file false default_enc_opts (fun x => x) bs).
Proof. exact never_silently_altered_refuted_without_min_check. Qed.
Print Assumptions C09_never_silently_altered_refuted_before_fix.

(** (a)+(b) a valid text in any supported encoding is written back in that
    encoding, with the BOM it had, for ANY formatter F on code points; hence
    format (transcode x) = transcode (format x) *)
Theorem C09_written_back_in_same_encoding : forall F e cps,
  valid_text F cps ->
  run_file repo_check_min default_enc_opts F (file_of e cps) = Written (file_of e (F cps)).
Proof. exact run_valid_file. Qed.
Print Assumptions C09_written_back_in_same_encoding.

Theorem C09_format_commutes_with_transcoding : forall F e1 e2 cps,
  valid_text F cps ->
  run_file repo_check_min default_enc_opts F (file_of e2 cps) = Written (file_of e2 (F cps))
  /\ run_file repo_check_min default_enc_opts F (file_of e1 cps) = Written (file_of e1 (F cps)).
Proof. exact format_commutes_with_transcoding. Qed.
Print Assumptions C09_format_commutes_with_transcoding.

(** BOM and output-encoding policy for all values of utf8_bom/utf8_byte/utf8_force *)
Theorem C09_bom_policy : forall o e bom_in,
  out_bom o e bom_in = true <->
  match e with
  | E_UTF16LE | E_UTF16BE => True
  | E_UTF8 => match utf8_bom o with
              | Add | Force => True | Remove => False | Ignore => bom_in = true end
  | E_ASCII | E_BYTE => bom_in = true
  end.
Proof. exact bom_policy_spec. Qed.
Print Assumptions C09_bom_policy.

Theorem C09_out_enc_policy : forall o e,
  out_enc o e = if utf8_force o then E_UTF8
                else match e with E_BYTE => if utf8_byte o then E_UTF8 else E_BYTE | _ => e end.
Proof. exact out_enc_spec. Qed.
Print Assumptions C09_out_enc_policy.

(** hypotheses are satisfiable *)
Example C09_valid_text_inhabited : valid_text (fun x => x) [0x2F; 0x2A; 0x20AC; 0x1F600; 0x2A; 0x2F].
Proof. exact valid_text_example. Qed.
