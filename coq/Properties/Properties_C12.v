(** Property C12 — --check and --if-changed tell the truth and write nothing they should not. *)
From Coq Require Import List ZArith Bool.
From UV Require Import Model.FsProto Proofs.FsProofs Proofs.CheckProofs.
Import ListNotations.

(** --check never creates, modifies or removes any file — for EVERY fault plan and crash point *)
Theorem C12_check_writes_nothing :
  forall (pl : plan) (md : mode) (fmt : bytes -> option bytes),
    do_check md = true -> forall d0, if_changed md = false ->
    forall r, r_disk (run pl md fmt d0) r = d0 r.
Proof. exact check_writes_nothing. Qed.
Print Assumptions C12_check_writes_nothing.

(** --check exits 0 exactly when formatting reproduces the file, 1 when it differs, and with the
    formatter's failure status when formatting fails *)
Theorem C12_check_verdict :
  forall md fmt orig d0,
    do_check md = true -> if_changed md = false -> d0 RIn = Closed (Data orig) ->
    let r := run no_plan md fmt d0 in
    (r_exit r = Some 0%Z <-> fmt orig = Some orig) /\
    (forall f, fmt orig = Some f -> f <> orig -> r_exit r = Some 1%Z) /\
    (fmt orig = None -> r_exit r = Some EX_FMT).
Proof. exact check_verdict. Qed.
Print Assumptions C12_check_verdict.

(** several files in one call: status 0 iff no file failed *)
Theorem C12_check_exit_all_files :
  forall fails, check_exit fails = 0%Z <-> Forall (fun b => b = false) fails.
Proof. exact check_exit_spec. Qed.
Print Assumptions C12_check_exit_all_files.

(** --if-changed with -o: the target is written iff the formatted bytes differ, then with exactly them;
    nothing else is touched *)
Theorem C12_if_changed_output_file :
  forall fmt orig f d0 nb km,
    d0 RIn = Closed (Data orig) -> fmt orig = Some f ->
    let md := {| in_place := false; to_file := true; no_backup := nb; if_changed := true;
                 do_check := false; keep_mtime := km |} in
    let r := run no_plan md fmt d0 in
    r_exit r = Some 0%Z /\
    r_disk r ROut = (if bytes_eqb f orig then d0 ROut else Closed (Data f)) /\
    (forall x, x <> ROut -> r_disk r x = d0 x).
Proof. exact if_changed_separate_output. Qed.
Print Assumptions C12_if_changed_output_file.

Theorem C12_if_changed_stdout :
  forall fmt orig f d0,
    d0 RIn = Closed (Data orig) -> fmt orig = Some f ->
    let md := {| in_place := false; to_file := false; no_backup := false; if_changed := true;
                 do_check := false; keep_mtime := false |} in
    r_out (run no_plan md fmt d0) = Some {| stdout := if bytes_eqb f orig then [] else f; check_fail := false |}.
Proof. exact if_changed_stdout. Qed.
Print Assumptions C12_if_changed_stdout.

(** the in-place variants of --if-changed are covered by C13_all_or_nothing (any plan) *)

Theorem C12_byte_comparison_is_equality : forall a b, bytes_eqb a b = true <-> a = b.
Proof. exact bout_matches_iff. Qed.
Print Assumptions C12_byte_comparison_is_equality.
