(** Property C05 — formatting is a fixed point.  Level: other.
    The formal content is a reduction: a formatter that (H1) lays a program out as a function of its tokens and
    comments alone and (H2) preserves those (C02, C03) is idempotent, for histories of any length.  H1 is exactly
    what uncrustify does NOT promise for arbitrary configurations ('ignore' values keep the author's spacing,
    alignment looks at original columns): it is the claim made for the curated profiles, and it is validated
    directly - pass 2 against pass 1, pass 3 against pass 2 - on every explored input (DESIGN.md). *)
From Coq Require Import List ZArith Bool.
Import ListNotations.

Section FixedPoint.
  Variable content : Type.                       (* tokens and comments *)
  Variable tokens : list Z -> content.
  Variable layout : content -> list Z.
  Variable format : list Z -> list Z.

  Hypothesis layout_only : forall x, format x = layout (tokens x).          (* H1 *)
  Hypothesis content_preserved : forall x, tokens (format x) = tokens x.    (* H2: C02 + C03 *)

  Theorem idempotent : forall x, format (format x) = format x.
  Proof. intros x. rewrite (layout_only (format x)), content_preserved, <- layout_only. reflexivity. Qed.

  Theorem stable_history : forall n x, Nat.iter (S n) format x = format x.
  Proof.
    induction n as [|n IH]; intros x; [reflexivity|].
    change (Nat.iter (S (S n)) format x) with (format (Nat.iter (S n) format x)). rewrite IH. apply idempotent.
  Qed.
End FixedPoint.

Theorem C05_reduction : forall (content : Type) (tokens : list Z -> content) (layout : content -> list Z) (format : list Z -> list Z),
  (forall x, format x = layout (tokens x)) -> (forall x, tokens (format x) = tokens x) ->
  forall n x, Nat.iter (S n) format x = format x.
Proof. exact stable_history. Qed.
Print Assumptions C05_reduction.
