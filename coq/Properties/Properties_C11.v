(** Property C11 — Files in one invocation are formatted independently of each other. *)
From Coq Require Import List ZArith Bool.
From UV Require Import Model.Frame Proofs.FrameInst Gen.Globals.
Import ListNotations.

(** General frame theorem: for ANY processing function that writes only fields of W and whose result depends only
    on its input and the store, if every field of W is reset (R) or prepared per file (P), then every file of a batch —
    any number of files, any order — gets exactly the output of a separate invocation. *)
Theorem C11_batch_is_independent :
  forall (field : Type) (field_eqb : field -> field -> bool) (value input output : Type)
         (init : store field value) (W R P : list field)
         (prepare : input -> field -> value)
         (process : store field value -> input -> store field value * output),
    (forall s i f, mem field field_eqb f W = false -> fst (process s i) f = s f) ->
    (forall s1 s2 i, (forall f, s1 f = s2 f) -> snd (process s1 i) = snd (process s2 i)) ->
    (forall f, mem field field_eqb f W = true -> mem field field_eqb f R = true \/ mem field field_eqb f P = true) ->
    forall files s, clean field field_eqb value init P s ->
      batch field field_eqb value input output init R P prepare process s files
      = map (single field field_eqb value input output init R P prepare process) files.
Proof. exact batch_is_independent. Qed.
Print Assumptions C11_batch_is_independent.

(** The instance: in the generated inventory of all writes to the global state, every field written while a file is
    processed is reset to its initial value, prepared unconditionally per file, or carries a reviewed justification. *)
Theorem C11_frame_instance : unjustified = [].
Proof. exact frame_instance. Qed.
Print Assumptions C11_frame_instance.

Theorem C11_justifications_not_stale :
  forallb (fun j => existsb (fun r => Config.beqb (fst (fst (fst r))) j) cpd_fields) justified = true.
Proof. exact justified_fields_exist. Qed.
Print Assumptions C11_justifications_not_stale.

(** the second inventory: no static-storage variable outside cpd is unreviewed (a function-local static initialised from
    per-file data is how state survives uncrustify_end()) *)
Theorem C11_statics_reviewed : unreviewed_statics = [].
Proof. exact statics_reviewed. Qed.
Print Assumptions C11_statics_reviewed.
