(** Property C17 — Whitespace hygiene of the output (output stage; chunk-text invariants are contracts). *)
From Coq Require Import List ZArith Bool.
From UV Require Import Model.Render Proofs.RenderProofs Proofs.RenderBreaks Proofs.RenderTrail Model.NlMax Proofs.RenderTabs.
Import ListNotations.
Local Open Scope Z_scope.

(** indent_with_tabs = 0, pp_indent_with_tabs in {0,-1}, align_with_tabs/align_keep_tabs/force_tab_after_define
    off: for EVERY chunk list whose chunk texts contain no tab, the writer emits no tab at all — all
    indentation and alignment it produces consists of spaces. *)
Theorem C17_spaces_only : forall o,
  indent_with_tabs o = 0 -> (pp_indent_with_tabs o = 0 \/ pp_indent_with_tabs o = -1) ->
  align_with_tabs o = false -> align_keep_tabs o = false -> force_tab_after_define o = false ->
  forall last sp l, texts_tab_free l -> Forall no_tab_sym (render o last sp l).
Proof. exact no_tabs_when_disabled. Qed.
Print Assumptions C17_spaces_only.

(** a chunk that starts a line is preceded by exactly (column - 1) spaces and nothing else, and its last
    character is the last thing written: no blank can follow it on the line (spaces are only buffered) *)
Theorem C17_C18_first_chunk_on_line : forall o prev c s,
  indent_with_tabs o = 0 -> (pp_indent_with_tabs o = 0 \/ pp_indent_with_tabs o = -1) ->
  quiet s -> column s = 1 -> spaces s = 0 -> did_newline s = true ->
  1 <= col c -> Forall plainc (text c) -> is_string_multi c = false ->
  (is_pp_define c && force_tab_after_define o) = false -> is_comment_kind c = false ->
  let s' := render_other o prev c s in
  all_out s' = rev (map Ch (text c)) ++ repeat (Ch 32) (Z.to_nat (col c - 1)) ++ out s /\
  column s' = col c + Z.of_nat (length (text c)).
Proof. exact first_chunk_on_line. Qed.
Print Assumptions C17_C18_first_chunk_on_line.

(** advancing to a column without tabs writes nothing: the spaces stay buffered until a non-blank follows *)
Theorem C17_column_padding_is_buffered : forall o s c,
  quiet s -> column s <= c ->
  let s' := output_to_column o s c false in
  all_out s' = repeat (Ch 32) (Z.to_nat (c - column s)) ++ all_out s /\ column s' = c /\ quiet s' /\
  out s' = out s /\ did_newline s' = false.
Proof. exact output_to_column_spaces. Qed.
Print Assumptions C17_column_padding_is_buffered.

(** indentation with tabs (indent_with_tabs = 2): the leading white space of a line is a run of tabs followed by fewer
    than one tab stop of spaces - never a space before a tab - and ends exactly in the chunk's column *)
Theorem C17_tabs_then_spaces : forall o, 1 <= output_tab_size o -> forall prev c s,
  indent_with_tabs o = 2 -> preproc c = false ->
  quiet s -> column s = 1 -> spaces s = 0 -> did_newline s = true ->
  1 <= col c -> Forall (plainc) (text c) -> is_string_multi c = false ->
  (is_pp_define c && force_tab_after_define o) = false -> in_preproc_at_output o = false ->
  let s' := render_other o prev c s in
  exists m k : nat,
    all_out s' = rev (map Ch (text c)) ++ repeat (Ch 32) k ++ repeat (Ch 9) m ++ out s
    /\ (Z.of_nat k < output_tab_size o) /\ column s' = col c + Z.of_nat (length (text c)).
Proof. exact first_chunk_on_line_tabs. Qed.
Print Assumptions C17_tabs_then_spaces.

(** the end of the file: when the chunk list ends in a NEWLINE chunk the written output ends in exactly its nl_count
    line breaks behind whatever the other chunks contribute (events: true = line break, false = visible character);
    nl_end_of_file / nl_end_of_file_min act by setting that count (newlines_eat_start_end(), contract) *)
Theorem C17_file_ends_in_nl_count_breaks : forall o last sp l c,
  last <> 13 -> Forall crfree (l ++ [c]) -> ck c = CKNewline ->
  flat_map bv (render o last sp (l ++ [c])) = flat_map bcontrib l ++ repeat true (Z.to_nat (nl_count c)).
Proof. exact file_end_breaks. Qed.
Print Assumptions C17_file_ends_in_nl_count_breaks.

(** the whole chunk list, configurations that indent with blanks only (indent_with_tabs = 0, pp_indent_with_tabs 0 or -1,
    no alignment with tabs, no tab forced behind #define names): if no chunk text ends in a blank (contract K_textws,
    evaluated by the oracle on every run), no NEWLINE chunk asks for blank-line indentation and comments leave nothing
    pending, then nothing the writer emits directly in front of a line break is a blank or a tab *)
Theorem C17_no_trailing_blanks : forall o,
  indent_with_tabs o = 0 -> ppiwt o = 0 -> align_with_tabs o = false -> align_keep_tabs o = false ->
  force_tab_after_define o = false ->
  forall last l, last <> 13 -> Forall (tr_ok) l ->
  forall a b x, render o last 0 l = a ++ x :: NL :: b -> ~ blank_sym x.
Proof. exact no_trailing_blanks. Qed.
Print Assumptions C17_no_trailing_blanks.

(** non-vacuity: an ordinary text chunk ("a b") and a NEWLINE chunk satisfy the hypotheses *)
Definition c17_chunk (k : ckind) (t : list Z) (n : Z) : chunk :=
  {| ck := k; text := t; col := 1; col_indent := 1; nl_count := n; nl_col := 0; orig_col := 1; orig_prev_sp := 0;
     preproc := false; was_aligned := false; after_tab := false; lvl_hack := false; is_pp_define := false;
     is_string := false; is_string_multi := false; is_pp_ignore := false; is_comment_kind := false; seg := [];
     seg_column := 1; seg_spaces := 0; seg_last := 0; seg_did_nl := false |}.
Example C17_tr_ok_inhabited : Forall tr_ok [c17_chunk CKOther [97; 32; 98] 0; c17_chunk CKNewline [] 2].
Proof.
  constructor; [|constructor; [|constructor]].
  - unfold tr_ok. cbn [ck c17_chunk text is_string_multi is_comment_kind]. right.
    split; [|split; [|split; reflexivity]].
    + repeat constructor; discriminate.
    + unfold nonblank_end. cbn. discriminate.
  - unfold tr_ok. cbn. discriminate.
Qed.
