(** Property C02 — the token stream is preserved under whitespace-only configurations.
    Proved here: (1) the output stage writes the text of every chunk exactly once, in list order, and nothing else
    but white space (all chunk lists, all option values, any writer state); (2) the independent lexical
    specification LexC, with which input and output are re-lexed on every explored run, partitions a text without
    loss.  The tokenizer and the passes between tokenizer and output are contracts (K_lossless, K_tok, K_space),
    evaluated on every explored run: see DESIGN.md. *)
From Coq Require Import List ZArith Bool.
From UV Require Import Model.Render Model.LexC Proofs.RenderProofs Proofs.RenderText Proofs.LexCProofs.
Import ListNotations.
Local Open Scope Z_scope.

Theorem C02_output_writes_every_chunk_once_in_order : forall o last sp l,
  flat_map sym_chars (render o last sp l) = flat_map (contrib) l.
Proof. exact render_text. Qed.
Print Assumptions C02_output_writes_every_chunk_once_in_order.

Theorem C02_output_bytes : forall o nl last sp l, nws nl = [] ->
  nws (realise nl (render o last sp l)) = flat_map contrib l.
Proof. exact render_text_bytes. Qed.
Print Assumptions C02_output_bytes.

(** composition with the contracts: if the chunk list that is rendered carries the characters of the input
    (K_lossless for the tokenizer, K_tok for the passes), so does the output *)
Theorem C02_characters_preserved : forall o nl last sp x lF, nws nl = [] ->
  flat_map contrib lF = nws x ->
  nws (realise nl (render o last sp lF)) = nws x.
Proof. intros o nl last sp x lF Hnl K. rewrite (render_text_bytes o nl last sp lF Hnl). exact K. Qed.
Print Assumptions C02_characters_preserved.

Theorem C02_lexspec_lossless : forall l, concat (map tt (lex l)) = l.
Proof. exact lex_lossless. Qed.
Print Assumptions C02_lexspec_lossless.

Theorem C02_lexspec_progress : forall fuel s l, Forall (fun t => tt t <> []) (lex_all fuel s l).
Proof. exact lex_all_nonempty. Qed.
Print Assumptions C02_lexspec_progress.

(** non-vacuity and a look at the specification at work: a division followed by a dereference, a header name
    with a blank in it, and a raw string that holds a quote *)
Example C02_lex_example :
  map (fun t => (tk t, length (tt t), tdir t))
      (code_tokens [97;32;47;32;42;112;59;10; 35;105;110;99;108;117;100;101;32;60;97;32;98;46;104;62;10; 82;34;120;40;34;41;120;34;10])
  = [(KWord,1%nat,false);(KPunct,1%nat,false);(KPunct,1%nat,false);(KWord,1%nat,false);(KPunct,1%nat,false);
     (KDirHash,1%nat,false);(KWord,7%nat,true);(KStr,7%nat,true);(KDirEnd,1%nat,true);
     (KStr,8%nat,false)].
Proof. vm_compute. reflexivity. Qed.
