(** Property C02 — the token stream is preserved under whitespace-only configurations.
    Proved here: (1) the output stage writes the text of every chunk exactly once, in list order, and nothing else
    but white space (all chunk lists, all option values, any writer state); (2) the independent lexical
    specification LexC, with which input and output are re-lexed on every explored run, partitions a text without
    loss.  The tokenizer and the passes between tokenizer and output are contracts (K_lossless, K_tok, K_space),
    evaluated on every explored run: see DESIGN.md. *)
From Coq Require Import List ZArith Bool Permutation.
From UV Require Import Model.Render Model.LexC Proofs.RenderProofs Proofs.RenderText Proofs.LexCProofs Model.ChunkList Proofs.ChunkListProofs.
Import ListNotations.
Local Open Scope Z_scope.

Theorem C02_output_writes_every_chunk_once_in_order : forall o last sp l,
  flat_map sym_chars (render o last sp l) = flat_map (contrib) l.
Proof. exact render_text. Qed.
Print Assumptions C02_output_writes_every_chunk_once_in_order.

Theorem C02_output_bytes : forall o nl last sp l, nws nl = [] ->
  nws (realise nl (render o last sp l)) = flat_map contrib l.
Proof. exact render_text_bytes. Qed.
Print Assumptions C02_output_bytes.

(** composition with the contracts: if the chunk list that is rendered carries the characters of the input
    (K_lossless for the tokenizer, K_tok for the passes), so does the output *)
Theorem C02_characters_preserved : forall o nl last sp x lF, nws nl = [] ->
  flat_map contrib lF = nws x ->
  nws (realise nl (render o last sp lF)) = nws x.
Proof. intros o nl last sp x lF Hnl K. rewrite (render_text_bytes o nl last sp lF Hnl). exact K. Qed.
Print Assumptions C02_characters_preserved.

Theorem C02_lexspec_lossless : forall l, concat (map tt (lex l)) = l.
Proof. exact lex_lossless. Qed.
Print Assumptions C02_lexspec_lossless.

Theorem C02_lexspec_progress : forall fuel s l, Forall (fun t => tt t <> []) (lex_all fuel s l).
Proof. exact lex_all_nonempty. Qed.
Print Assumptions C02_lexspec_progress.

(** non-vacuity and a look at the specification at work: a division followed by a dereference, a header name
    with a blank in it, and a raw string that holds a quote *)
Example C02_lex_example :
  map (fun t => (tk t, length (tt t), tdir t))
      (code_tokens [97;32;47;32;42;112;59;10; 35;105;110;99;108;117;100;101;32;60;97;32;98;46;104;62;10; 82;34;120;40;34;41;120;34;10])
  = [(KWord,1%nat,false);(KPunct,1%nat,false);(KPunct,1%nat,false);(KWord,1%nat,false);(KPunct,1%nat,false);
     (KDirHash,1%nat,false);(KWord,7%nat,true);(KStr,7%nat,true);(KDirEnd,1%nat,true);
     (KStr,8%nat,false)].
Proof. vm_compute. reflexivity. Qed.

(** ---- the chunk list itself (Model/ChunkList.v <-> src/ListManager.h, src/chunk.cpp; tie: hook UNC_VERIF_LISTOPS) ----
    "no token is dropped, duplicated or reordered" needs the list surgery of the passes to keep the list a list. *)
Local Close Scope Z_scope.
Local Open Scope nat_scope.
Theorem C02_list_remove : forall s l x, repr s l -> In x l ->
  repr (remove s x) (rem x l) /\ nxt (remove s x) x = 0 /\ prv (remove s x) x = 0 /\ isnl (remove s x) = isnl s /\ nlc (remove s x) = nlc s.
Proof. exact remove_abs. Qed.
Print Assumptions C02_list_remove.

Theorem C02_list_add_after : forall s l r o, repr s l -> In r l -> o <> 0 -> ~ In o l ->
  repr (add_after s o r) (ins_after r o l) /\ isnl (add_after s o r) = isnl s /\ nlc (add_after s o r) = nlc s.
Proof. exact add_after_abs. Qed.
Print Assumptions C02_list_add_after.

Theorem C02_move_after_moves_one_chunk : forall s l x r, repr s l -> In x l -> In r l -> x <> r ->
  repr (move_after s x r) (ins_after r x (rem x l)).
Proof. exact move_after_abs. Qed.
Print Assumptions C02_move_after_moves_one_chunk.

Theorem C02_list_surgery_refines_the_abstract_list : forall fuel ops s l, repr s l -> oks l ops ->
  repr (fold_left (step fuel) ops s) (fold_left abs_op ops l).
Proof. exact run_refines. Qed.
Print Assumptions C02_list_surgery_refines_the_abstract_list.

Theorem C02_moves_keep_every_chunk : forall fuel ops s l, repr s l -> oks l ops -> all_moves ops ->
  exists l', repr (fold_left (step fuel) ops s) l' /\ Permutation l l'.
Proof. exact moves_permute. Qed.
Print Assumptions C02_moves_keep_every_chunk.

Theorem C02_walk_sees_the_list : forall s l fuel, repr s l -> length l < fuel -> to_list fuel s = l.
Proof. exact to_list_repr. Qed.
Print Assumptions C02_walk_sees_the_list.

(** Swap, general branch: proved under the two preconditions the code does not test; the statement without them is false
    of the model and of the code (C02_swap_with_first_chunk_refuted; replayed on the binary by the hook).  The neighbour
    branches (Remove + AddBefore) follow below; all branches together: C02_swap_keeps_every_chunk.  SwapLines: at the end of this file,
    under an executable hypothesis. *)
Theorem C02_swap_far_partial : forall s l a b,
  repr s l -> In a l -> In b l -> a <> b -> prv s a <> b -> prv s b <> a ->
  prv s a <> 0 -> prv (remove s a) b <> 0 ->
  let p1 := prv s a in let p2 := prv (remove s a) b in
  let l' := ins_after p1 b (ins_after p2 a (rem b (rem a l))) in
  repr (swap s a b) l' /\ Permutation l l'.
Proof. exact swap_far_abs. Qed.
Print Assumptions C02_swap_far_partial.

Theorem C02_swap_with_first_chunk_refuted :
  to_list 4 (swap three 1 3) = [2; 1] /\ ~ Permutation (to_list 4 (swap three 1 3)) [1; 2; 3].
Proof. exact swap_with_first_chunk_refuted. Qed.
Print Assumptions C02_swap_with_first_chunk_refuted.

Example C02_list_hypotheses_satisfiable :
  repr three [1; 2; 3] /\ oks [1; 2; 3] [MoveAfter 1 3; MoveAfter 2 1; NewAfter 4 2 true 1; Delete 3].
Proof. exact three_is_a_list. Qed.

Theorem C02_add_before : forall s l r o, repr s l -> In r l -> o <> 0 -> ~ In o l -> nxt s o = 0 -> prv s o = 0 ->
  repr (add_before s o r) (ins_before r o l) /\ isnl (add_before s o r) = isnl s /\ nlc (add_before s o r) = nlc s.
Proof. exact add_before_abs. Qed.
Print Assumptions C02_add_before.

Theorem C02_swap_neighbours : forall s l a b, repr s l -> In a l -> In b l -> a <> b -> prv s a = b ->
  repr (swap s a b) (ins_before b a (rem a l)) /\ Permutation l (ins_before b a (rem a l)).
Proof. exact swap_prev_abs. Qed.
Print Assumptions C02_swap_neighbours.

(** all three branches of Swap; the disjunction is the contract (neighbours, or neither chunk first when its predecessor is read) *)
Theorem C02_swap_keeps_every_chunk : forall s l a b, repr s l -> In a l -> In b l -> a <> b ->
  (prv s a = b \/ prv s b = a \/ (prv s a <> 0 /\ prv (remove s a) b <> 0)) ->
  exists l', repr (swap s a b) l' /\ Permutation l l'.
Proof. exact swap_permutes. Qed.
Print Assumptions C02_swap_keeps_every_chunk.

Theorem C02_reordering_keeps_every_chunk : forall fuel ops s l, repr s l -> safe fuel s ops ->
  exists l', repr (fold_left (step fuel) ops s) l' /\ Permutation l l'.
Proof. exact reordering_keeps_every_chunk. Qed.
Print Assumptions C02_reordering_keeps_every_chunk.

Theorem C02_add_head : forall s l o, repr s l -> o <> 0 -> ~ In o l ->
  repr (add_head s o) (o :: l) /\ isnl (add_head s o) = isnl s /\ nlc (add_head s o) = nlc s.
Proof. exact add_head_repr. Qed.
Print Assumptions C02_add_head.

Theorem C02_add_tail : forall s l o, repr s l -> o <> 0 -> ~ In o l ->
  repr (add_tail s o) (l ++ [o]) /\ isnl (add_tail s o) = isnl s /\ nlc (add_tail s o) = nlc s.
Proof. exact add_tail_repr. Qed.
Print Assumptions C02_add_tail.

(** every reachable state from the empty list (no hypothesis about an initial state left) *)
Theorem C02_list_from_empty : forall fuel ops, oks2 [] ops -> repr (cl_run fuel ops) (fold_left abs_op2 ops []).
Proof. exact list_from_empty. Qed.
Print Assumptions C02_list_from_empty.

Example C02_list_from_empty_example :
  oks2 [] [NewAfter 1 0 false 0; NewBefore 2 0 true 1; NewBefore 3 2 false 0; NewAfter 4 1 false 0; MoveAfter 1 2; Delete 4]
  /\ fold_left abs_op2 [NewAfter 1 0 false 0; NewBefore 2 0 true 1; NewBefore 3 2 false 0; NewAfter 4 1 false 0; MoveAfter 1 2; Delete 4] [] = [3; 2; 1].
Proof. exact list_from_empty_example. Qed.

(** Chunk::SwapLines.  The hypothesis is executable: swap_lines_guard evaluates, along the very states the two loops go through, what they and
    the final Swap rely on (the chunk being moved is not the anchor it is moved next to; the final Swap inside its contract).  It is true for
    two non-empty lines in either order (Example) and false in the refuted run, where a chunk is lost - on the real code too. *)
Theorem C02_swap_lines_keeps_every_chunk : forall fuel s l a b, repr s l -> In a l -> In b l -> swap_lines_guard fuel s a b = true ->
  exists l', repr (swap_lines fuel s a b) l' /\ Permutation l l'.
Proof. exact swap_lines_permutes. Qed.
Print Assumptions C02_swap_lines_keeps_every_chunk.

Example C02_swap_lines_example :
  swap_lines_guard 6 two_lines 1 3 = true /\ swap_lines_guard 6 two_lines 3 1 = true /\
  cl_observe 6 (swap_lines 6 two_lines 1 3) = ([(3, 0); (4, 1); (1, 0); (2, 3)], [2; 1; 4; 3]).
Proof. exact swap_lines_example. Qed.

Theorem C02_swap_lines_blank_line_refuted :
  swap_lines_guard 5 blank_second 1 3 = false /\ to_list 5 (swap_lines 5 blank_second 1 3) = [1; 2].
Proof. exact swap_lines_blank_line_refuted. Qed.
Print Assumptions C02_swap_lines_blank_line_refuted.
