
(** val negb : bool -> bool **)

let negb = function
| true -> false
| false -> true

type nat =
| O
| S of nat

(** val option_map : ('a1 -> 'a2) -> 'a1 option -> 'a2 option **)

let option_map f = function
| Some a -> Some (f a)
| None -> None

(** val fst : ('a1 * 'a2) -> 'a1 **)

let fst = function
| (x, _) -> x

(** val snd : ('a1 * 'a2) -> 'a2 **)

let snd = function
| (_, y) -> y

(** val length : 'a1 list -> nat **)

let rec length = function
| [] -> O
| _ :: l' -> S (length l')

(** val app : 'a1 list -> 'a1 list -> 'a1 list **)

let rec app l m0 =
  match l with
  | [] -> m0
  | a :: l1 -> a :: (app l1 m0)

type comparison =
| Eq
| Lt
| Gt

(** val compOpp : comparison -> comparison **)

let compOpp = function
| Eq -> Eq
| Lt -> Gt
| Gt -> Lt

(** val add : nat -> nat -> nat **)

let rec add n m0 =
  match n with
  | O -> m0
  | S p -> S (add p m0)

module Nat =
 struct
  (** val eqb : nat -> nat -> bool **)

  let rec eqb n m0 =
    match n with
    | O -> (match m0 with
            | O -> true
            | S _ -> false)
    | S n' -> (match m0 with
               | O -> false
               | S m' -> eqb n' m')

  (** val leb : nat -> nat -> bool **)

  let rec leb n m0 =
    match n with
    | O -> true
    | S n' -> (match m0 with
               | O -> false
               | S m' -> leb n' m')

  (** val ltb : nat -> nat -> bool **)

  let ltb n m0 =
    leb (S n) m0

  (** val even : nat -> bool **)

  let rec even = function
  | O -> true
  | S n0 -> (match n0 with
             | O -> false
             | S n' -> even n')

  (** val odd : nat -> bool **)

  let odd n =
    negb (even n)

  (** val divmod : nat -> nat -> nat -> nat -> nat * nat **)

  let rec divmod x y q u =
    match x with
    | O -> (q, u)
    | S x' ->
      (match u with
       | O -> divmod x' y (S q) y
       | S u' -> divmod x' y q u')

  (** val div : nat -> nat -> nat **)

  let div x y = match y with
  | O -> y
  | S y' -> fst (divmod x y' O y')
 end

(** val nth : nat -> 'a1 list -> 'a1 -> 'a1 **)

let rec nth n l default =
  match n with
  | O -> (match l with
          | [] -> default
          | x :: _ -> x)
  | S m0 -> (match l with
             | [] -> default
             | _ :: t -> nth m0 t default)

(** val flat_map : ('a1 -> 'a2 list) -> 'a1 list -> 'a2 list **)

let rec flat_map f = function
| [] -> []
| x :: t -> app (f x) (flat_map f t)

(** val existsb : ('a1 -> bool) -> 'a1 list -> bool **)

let rec existsb f = function
| [] -> false
| a :: l0 -> (||) (f a) (existsb f l0)

(** val firstn : nat -> 'a1 list -> 'a1 list **)

let rec firstn n l =
  match n with
  | O -> []
  | S n0 -> (match l with
             | [] -> []
             | a :: l0 -> a :: (firstn n0 l0))

(** val skipn : nat -> 'a1 list -> 'a1 list **)

let rec skipn n l =
  match n with
  | O -> l
  | S n0 -> (match l with
             | [] -> []
             | _ :: l0 -> skipn n0 l0)

type positive =
| XI of positive
| XO of positive
| XH

type z =
| Z0
| Zpos of positive
| Zneg of positive

module Pos =
 struct
  (** val succ : positive -> positive **)

  let rec succ = function
  | XI p -> XO (succ p)
  | XO p -> XI p
  | XH -> XO XH

  (** val add : positive -> positive -> positive **)

  let rec add x y =
    match x with
    | XI p ->
      (match y with
       | XI q -> XO (add_carry p q)
       | XO q -> XI (add p q)
       | XH -> XO (succ p))
    | XO p ->
      (match y with
       | XI q -> XI (add p q)
       | XO q -> XO (add p q)
       | XH -> XI p)
    | XH -> (match y with
             | XI q -> XO (succ q)
             | XO q -> XI q
             | XH -> XO XH)

  (** val add_carry : positive -> positive -> positive **)

  and add_carry x y =
    match x with
    | XI p ->
      (match y with
       | XI q -> XI (add_carry p q)
       | XO q -> XO (add_carry p q)
       | XH -> XI (succ p))
    | XO p ->
      (match y with
       | XI q -> XO (add_carry p q)
       | XO q -> XI (add p q)
       | XH -> XO (succ p))
    | XH ->
      (match y with
       | XI q -> XI (succ q)
       | XO q -> XO (succ q)
       | XH -> XI XH)

  (** val pred_double : positive -> positive **)

  let rec pred_double = function
  | XI p -> XI (XO p)
  | XO p -> XI (pred_double p)
  | XH -> XH

  (** val mul : positive -> positive -> positive **)

  let rec mul x y =
    match x with
    | XI p -> add y (XO (mul p y))
    | XO p -> XO (mul p y)
    | XH -> y

  (** val compare_cont : comparison -> positive -> positive -> comparison **)

  let rec compare_cont r x y =
    match x with
    | XI p ->
      (match y with
       | XI q -> compare_cont r p q
       | XO q -> compare_cont Gt p q
       | XH -> Gt)
    | XO p ->
      (match y with
       | XI q -> compare_cont Lt p q
       | XO q -> compare_cont r p q
       | XH -> Gt)
    | XH -> (match y with
             | XH -> r
             | _ -> Lt)

  (** val compare : positive -> positive -> comparison **)

  let compare =
    compare_cont Eq

  (** val eqb : positive -> positive -> bool **)

  let rec eqb p q =
    match p with
    | XI p0 -> (match q with
                | XI q0 -> eqb p0 q0
                | _ -> false)
    | XO p0 -> (match q with
                | XO q0 -> eqb p0 q0
                | _ -> false)
    | XH -> (match q with
             | XH -> true
             | _ -> false)
 end

module Z =
 struct
  (** val double : z -> z **)

  let double = function
  | Z0 -> Z0
  | Zpos p -> Zpos (XO p)
  | Zneg p -> Zneg (XO p)

  (** val succ_double : z -> z **)

  let succ_double = function
  | Z0 -> Zpos XH
  | Zpos p -> Zpos (XI p)
  | Zneg p -> Zneg (Pos.pred_double p)

  (** val pred_double : z -> z **)

  let pred_double = function
  | Z0 -> Zneg XH
  | Zpos p -> Zpos (Pos.pred_double p)
  | Zneg p -> Zneg (XI p)

  (** val pos_sub : positive -> positive -> z **)

  let rec pos_sub x y =
    match x with
    | XI p ->
      (match y with
       | XI q -> double (pos_sub p q)
       | XO q -> succ_double (pos_sub p q)
       | XH -> Zpos (XO p))
    | XO p ->
      (match y with
       | XI q -> pred_double (pos_sub p q)
       | XO q -> double (pos_sub p q)
       | XH -> Zpos (Pos.pred_double p))
    | XH ->
      (match y with
       | XI q -> Zneg (XO q)
       | XO q -> Zneg (Pos.pred_double q)
       | XH -> Z0)

  (** val add : z -> z -> z **)

  let add x y =
    match x with
    | Z0 -> y
    | Zpos x' ->
      (match y with
       | Z0 -> x
       | Zpos y' -> Zpos (Pos.add x' y')
       | Zneg y' -> pos_sub x' y')
    | Zneg x' ->
      (match y with
       | Z0 -> x
       | Zpos y' -> pos_sub y' x'
       | Zneg y' -> Zneg (Pos.add x' y'))

  (** val opp : z -> z **)

  let opp = function
  | Z0 -> Z0
  | Zpos x0 -> Zneg x0
  | Zneg x0 -> Zpos x0

  (** val sub : z -> z -> z **)

  let sub m0 n =
    add m0 (opp n)

  (** val mul : z -> z -> z **)

  let mul x y =
    match x with
    | Z0 -> Z0
    | Zpos x' ->
      (match y with
       | Z0 -> Z0
       | Zpos y' -> Zpos (Pos.mul x' y')
       | Zneg y' -> Zneg (Pos.mul x' y'))
    | Zneg x' ->
      (match y with
       | Z0 -> Z0
       | Zpos y' -> Zneg (Pos.mul x' y')
       | Zneg y' -> Zpos (Pos.mul x' y'))

  (** val compare : z -> z -> comparison **)

  let compare x y =
    match x with
    | Z0 -> (match y with
             | Z0 -> Eq
             | Zpos _ -> Lt
             | Zneg _ -> Gt)
    | Zpos x' -> (match y with
                  | Zpos y' -> Pos.compare x' y'
                  | _ -> Gt)
    | Zneg x' ->
      (match y with
       | Zneg y' -> compOpp (Pos.compare x' y')
       | _ -> Lt)

  (** val leb : z -> z -> bool **)

  let leb x y =
    match compare x y with
    | Gt -> false
    | _ -> true

  (** val ltb : z -> z -> bool **)

  let ltb x y =
    match compare x y with
    | Lt -> true
    | _ -> false

  (** val eqb : z -> z -> bool **)

  let eqb x y =
    match x with
    | Z0 -> (match y with
             | Z0 -> true
             | _ -> false)
    | Zpos p -> (match y with
                 | Zpos q -> Pos.eqb p q
                 | _ -> false)
    | Zneg p -> (match y with
                 | Zneg q -> Pos.eqb p q
                 | _ -> false)

  (** val pos_div_eucl : positive -> z -> z * z **)

  let rec pos_div_eucl a b =
    match a with
    | XI a' ->
      let (q, r) = pos_div_eucl a' b in
      let r' = add (mul (Zpos (XO XH)) r) (Zpos XH) in
      if ltb r' b
      then ((mul (Zpos (XO XH)) q), r')
      else ((add (mul (Zpos (XO XH)) q) (Zpos XH)), (sub r' b))
    | XO a' ->
      let (q, r) = pos_div_eucl a' b in
      let r' = mul (Zpos (XO XH)) r in
      if ltb r' b
      then ((mul (Zpos (XO XH)) q), r')
      else ((add (mul (Zpos (XO XH)) q) (Zpos XH)), (sub r' b))
    | XH -> if leb (Zpos (XO XH)) b then (Z0, (Zpos XH)) else ((Zpos XH), Z0)

  (** val div_eucl : z -> z -> z * z **)

  let div_eucl a b =
    match a with
    | Z0 -> (Z0, Z0)
    | Zpos a' ->
      (match b with
       | Z0 -> (Z0, a)
       | Zpos _ -> pos_div_eucl a' b
       | Zneg b' ->
         let (q, r) = pos_div_eucl a' (Zpos b') in
         (match r with
          | Z0 -> ((opp q), Z0)
          | _ -> ((opp (add q (Zpos XH))), (add b r))))
    | Zneg a' ->
      (match b with
       | Z0 -> (Z0, a)
       | Zpos _ ->
         let (q, r) = pos_div_eucl a' b in
         (match r with
          | Z0 -> ((opp q), Z0)
          | _ -> ((opp (add q (Zpos XH))), (sub b r)))
       | Zneg b' -> let (q, r) = pos_div_eucl a' (Zpos b') in (q, (opp r)))

  (** val div : z -> z -> z **)

  let div a b =
    let (q, _) = div_eucl a b in q

  (** val modulo : z -> z -> z **)

  let modulo a b =
    let (_, r) = div_eucl a b in r
 end

type enc =
| E_ASCII
| E_BYTE
| E_UTF8
| E_UTF16LE
| E_UTF16BE

(** val enc_eqb : enc -> enc -> bool **)

let enc_eqb a b =
  match a with
  | E_ASCII -> (match b with
                | E_ASCII -> true
                | _ -> false)
  | E_BYTE -> (match b with
               | E_BYTE -> true
               | _ -> false)
  | E_UTF8 -> (match b with
               | E_UTF8 -> true
               | _ -> false)
  | E_UTF16LE -> (match b with
                  | E_UTF16LE -> true
                  | _ -> false)
  | E_UTF16BE -> (match b with
                  | E_UTF16BE -> true
                  | _ -> false)

(** val encode_utf8 : z -> z list **)

let encode_utf8 ch =
  if Z.ltb ch Z0
  then []
  else if Z.ltb ch (Zpos (XO (XO (XO (XO (XO (XO (XO XH))))))))
       then ch :: []
       else if Z.ltb ch (Zpos (XO (XO (XO (XO (XO (XO (XO (XO (XO (XO (XO
                 XH))))))))))))
            then (Z.add (Zpos (XO (XO (XO (XO (XO (XO (XI XH))))))))
                   (Z.div ch (Zpos (XO (XO (XO (XO (XO (XO XH))))))))) :: (
                   (Z.add (Zpos (XO (XO (XO (XO (XO (XO (XO XH))))))))
                     (Z.modulo ch (Zpos (XO (XO (XO (XO (XO (XO XH))))))))) :: [])
            else if Z.ltb ch (Zpos (XO (XO (XO (XO (XO (XO (XO (XO (XO (XO
                      (XO (XO (XO (XO (XO (XO XH)))))))))))))))))
                 then (Z.add (Zpos (XO (XO (XO (XO (XO (XI (XI XH))))))))
                        (Z.div ch (Zpos (XO (XO (XO (XO (XO (XO (XO (XO (XO
                          (XO (XO (XO XH))))))))))))))) :: ((Z.add (Zpos (XO
                                                              (XO (XO (XO (XO
                                                              (XO (XO
                                                              XH))))))))
                                                              (Z.modulo
                                                                (Z.div ch
                                                                  (Zpos (XO
                                                                  (XO (XO (XO
                                                                  (XO (XO
                                                                  XH))))))))
                                                                (Zpos (XO (XO
                                                                (XO (XO (XO
                                                                (XO XH))))))))) :: (
                        (Z.add (Zpos (XO (XO (XO (XO (XO (XO (XO XH))))))))
                          (Z.modulo ch (Zpos (XO (XO (XO (XO (XO (XO
                            XH))))))))) :: []))
                 else if Z.ltb ch (Zpos (XO (XO (XO (XO (XO (XO (XO (XO (XO
                           (XO (XO (XO (XO (XO (XO (XO (XO (XO (XO (XO (XO
                           XH))))))))))))))))))))))
                      then (Z.add (Zpos (XO (XO (XO (XO (XI (XI (XI
                             XH))))))))
                             (Z.div ch (Zpos (XO (XO (XO (XO (XO (XO (XO (XO
                               (XO (XO (XO (XO (XO (XO (XO (XO (XO (XO
                               XH))))))))))))))))))))) :: ((Z.add (Zpos (XO
                                                             (XO (XO (XO (XO
                                                             (XO (XO
                                                             XH))))))))
                                                             (Z.modulo
                                                               (Z.div ch
                                                                 (Zpos (XO
                                                                 (XO (XO (XO
                                                                 (XO (XO (XO
                                                                 (XO (XO (XO
                                                                 (XO (XO
                                                                 XH))))))))))))))
                                                               (Zpos (XO (XO
                                                               (XO (XO (XO
                                                               (XO XH))))))))) :: (
                             (Z.add (Zpos (XO (XO (XO (XO (XO (XO (XO
                               XH))))))))
                               (Z.modulo
                                 (Z.div ch (Zpos (XO (XO (XO (XO (XO (XO
                                   XH)))))))) (Zpos (XO (XO (XO (XO (XO (XO
                                 XH))))))))) :: ((Z.add (Zpos (XO (XO (XO (XO
                                                   (XO (XO (XO XH))))))))
                                                   (Z.modulo ch (Zpos (XO (XO
                                                     (XO (XO (XO (XO
                                                     XH))))))))) :: [])))
                      else if Z.ltb ch (Zpos (XO (XO (XO (XO (XO (XO (XO (XO
                                (XO (XO (XO (XO (XO (XO (XO (XO (XO (XO (XO
                                (XO (XO (XO (XO (XO (XO (XO
                                XH)))))))))))))))))))))))))))
                           then (Z.add (Zpos (XO (XO (XO (XI (XI (XI (XI
                                  XH))))))))
                                  (Z.div ch (Zpos (XO (XO (XO (XO (XO (XO (XO
                                    (XO (XO (XO (XO (XO (XO (XO (XO (XO (XO
                                    (XO (XO (XO (XO (XO (XO (XO
                                    XH))))))))))))))))))))))))))) :: (
                                  (Z.add (Zpos (XO (XO (XO (XO (XO (XO (XO
                                    XH))))))))
                                    (Z.modulo
                                      (Z.div ch (Zpos (XO (XO (XO (XO (XO (XO
                                        (XO (XO (XO (XO (XO (XO (XO (XO (XO
                                        (XO (XO (XO XH))))))))))))))))))))
                                      (Zpos (XO (XO (XO (XO (XO (XO XH))))))))) :: (
                                  (Z.add (Zpos (XO (XO (XO (XO (XO (XO (XO
                                    XH))))))))
                                    (Z.modulo
                                      (Z.div ch (Zpos (XO (XO (XO (XO (XO (XO
                                        (XO (XO (XO (XO (XO (XO
                                        XH)))))))))))))) (Zpos (XO (XO (XO
                                      (XO (XO (XO XH))))))))) :: ((Z.add
                                                                    (Zpos (XO
                                                                    (XO (XO
                                                                    (XO (XO
                                                                    (XO (XO
                                                                    XH))))))))
                                                                    (Z.modulo
                                                                    (Z.div ch
                                                                    (Zpos (XO
                                                                    (XO (XO
                                                                    (XO (XO
                                                                    (XO
                                                                    XH))))))))
                                                                    (Zpos (XO
                                                                    (XO (XO
                                                                    (XO (XO
                                                                    (XO
                                                                    XH))))))))) :: (
                                  (Z.add (Zpos (XO (XO (XO (XO (XO (XO (XO
                                    XH))))))))
                                    (Z.modulo ch (Zpos (XO (XO (XO (XO (XO
                                      (XO XH))))))))) :: []))))
                           else (Z.add (Zpos (XO (XO (XI (XI (XI (XI (XI
                                  XH))))))))
                                  (Z.div ch (Zpos (XO (XO (XO (XO (XO (XO (XO
                                    (XO (XO (XO (XO (XO (XO (XO (XO (XO (XO
                                    (XO (XO (XO (XO (XO (XO (XO (XO (XO (XO
                                    (XO (XO (XO
                                    XH))))))))))))))))))))))))))))))))) :: (
                                  (Z.add (Zpos (XO (XO (XO (XO (XO (XO (XO
                                    XH))))))))
                                    (Z.modulo
                                      (Z.div ch (Zpos (XO (XO (XO (XO (XO (XO
                                        (XO (XO (XO (XO (XO (XO (XO (XO (XO
                                        (XO (XO (XO (XO (XO (XO (XO (XO (XO
                                        XH)))))))))))))))))))))))))) (Zpos
                                      (XO (XO (XO (XO (XO (XO XH))))))))) :: (
                                  (Z.add (Zpos (XO (XO (XO (XO (XO (XO (XO
                                    XH))))))))
                                    (Z.modulo
                                      (Z.div ch (Zpos (XO (XO (XO (XO (XO (XO
                                        (XO (XO (XO (XO (XO (XO (XO (XO (XO
                                        (XO (XO (XO XH))))))))))))))))))))
                                      (Zpos (XO (XO (XO (XO (XO (XO XH))))))))) :: (
                                  (Z.add (Zpos (XO (XO (XO (XO (XO (XO (XO
                                    XH))))))))
                                    (Z.modulo
                                      (Z.div ch (Zpos (XO (XO (XO (XO (XO (XO
                                        (XO (XO (XO (XO (XO (XO
                                        XH)))))))))))))) (Zpos (XO (XO (XO
                                      (XO (XO (XO XH))))))))) :: ((Z.add
                                                                    (Zpos (XO
                                                                    (XO (XO
                                                                    (XO (XO
                                                                    (XO (XO
                                                                    XH))))))))
                                                                    (Z.modulo
                                                                    (Z.div ch
                                                                    (Zpos (XO
                                                                    (XO (XO
                                                                    (XO (XO
                                                                    (XO
                                                                    XH))))))))
                                                                    (Zpos (XO
                                                                    (XO (XO
                                                                    (XO (XO
                                                                    (XO
                                                                    XH))))))))) :: (
                                  (Z.add (Zpos (XO (XO (XO (XO (XO (XO (XO
                                    XH))))))))
                                    (Z.modulo ch (Zpos (XO (XO (XO (XO (XO
                                      (XO XH))))))))) :: [])))))

(** val utf8_lead : z -> (nat * z) option **)

let utf8_lead b =
  if (&&) (Z.leb (Zpos (XO (XO (XO (XO (XO (XO (XI XH)))))))) b)
       (Z.ltb b (Zpos (XO (XO (XO (XO (XO (XI (XI XH)))))))))
  then Some ((S O), (Z.modulo b (Zpos (XO (XO (XO (XO (XO XH))))))))
  else if (&&) (Z.leb (Zpos (XO (XO (XO (XO (XO (XI (XI XH)))))))) b)
            (Z.ltb b (Zpos (XO (XO (XO (XO (XI (XI (XI XH)))))))))
       then Some ((S (S O)), (Z.modulo b (Zpos (XO (XO (XO (XO XH)))))))
       else if (&&) (Z.leb (Zpos (XO (XO (XO (XO (XI (XI (XI XH)))))))) b)
                 (Z.ltb b (Zpos (XO (XO (XO (XI (XI (XI (XI XH)))))))))
            then Some ((S (S (S O))), (Z.modulo b (Zpos (XO (XO (XO XH))))))
            else if (&&)
                      (Z.leb (Zpos (XO (XO (XO (XI (XI (XI (XI XH)))))))) b)
                      (Z.ltb b (Zpos (XO (XO (XI (XI (XI (XI (XI XH)))))))))
                 then Some ((S (S (S (S O)))),
                        (Z.modulo b (Zpos (XO (XO XH)))))
                 else if (&&)
                           (Z.leb (Zpos (XO (XO (XI (XI (XI (XI (XI
                             XH)))))))) b)
                           (Z.ltb b (Zpos (XO (XI (XI (XI (XI (XI (XI
                             XH)))))))))
                      then Some ((S (S (S (S (S O))))),
                             (Z.modulo b (Zpos (XO XH))))
                      else None

(** val is_cont : z -> bool **)

let is_cont b =
  (&&) (Z.leb (Zpos (XO (XO (XO (XO (XO (XO (XO XH)))))))) b)
    (Z.ltb b (Zpos (XO (XO (XO (XO (XO (XO (XI XH)))))))))

(** val utf8_min : nat -> z **)

let utf8_min = function
| O -> Z0
| S n ->
  (match n with
   | O -> Zpos (XO (XO (XO (XO (XO (XO (XO XH)))))))
   | S n0 ->
     (match n0 with
      | O -> Zpos (XO (XO (XO (XO (XO (XO (XO (XO (XO (XO (XO XH)))))))))))
      | S n1 ->
        (match n1 with
         | O ->
           Zpos (XO (XO (XO (XO (XO (XO (XO (XO (XO (XO (XO (XO (XO (XO (XO
             (XO XH))))))))))))))))
         | S n2 ->
           (match n2 with
            | O ->
              Zpos (XO (XO (XO (XO (XO (XO (XO (XO (XO (XO (XO (XO (XO (XO
                (XO (XO (XO (XO (XO (XO (XO XH)))))))))))))))))))))
            | S n3 ->
              (match n3 with
               | O ->
                 Zpos (XO (XO (XO (XO (XO (XO (XO (XO (XO (XO (XO (XO (XO (XO
                   (XO (XO (XO (XO (XO (XO (XO (XO (XO (XO (XO (XO
                   XH))))))))))))))))))))))))))
               | S _ -> Z0)))))

(** val dec8 : bool -> ((nat * nat) * z) option -> z list -> z list option **)

let rec dec8 check_min st0 = function
| [] -> (match st0 with
         | Some _ -> None
         | None -> Some [])
| b :: r ->
  (match st0 with
   | Some p ->
     let (p0, ch) = p in
     let (total, cnt) = p0 in
     if is_cont b
     then let ch' =
            Z.add (Z.mul ch (Zpos (XO (XO (XO (XO (XO (XO XH))))))))
              (Z.modulo b (Zpos (XO (XO (XO (XO (XO (XO XH))))))))
          in
          (match cnt with
           | O -> None
           | S c ->
             (match c with
              | O ->
                if (&&) check_min (Z.ltb ch' (utf8_min total))
                then None
                else option_map (fun x -> ch' :: x) (dec8 check_min None r)
              | S _ -> dec8 check_min (Some ((total, c), ch')) r))
     else None
   | None ->
     if Z.ltb b (Zpos (XO (XO (XO (XO (XO (XO (XO XH))))))))
     then option_map (fun x -> b :: x) (dec8 check_min None r)
     else (match utf8_lead b with
           | Some p ->
             let (cnt, ch0) = p in dec8 check_min (Some ((cnt, cnt), ch0)) r
           | None -> None))

(** val has_utf8_bom : z list -> bool **)

let has_utf8_bom = function
| [] -> false
| b0 :: l ->
  (match l with
   | [] -> false
   | b1 :: l0 ->
     (match l0 with
      | [] -> false
      | b2 :: _ ->
        (&&)
          ((&&) (Z.eqb b0 (Zpos (XI (XI (XI (XI (XO (XI (XI XH)))))))))
            (Z.eqb b1 (Zpos (XI (XI (XO (XI (XI (XI (XO XH))))))))))
          (Z.eqb b2 (Zpos (XI (XI (XI (XI (XI (XI (XO XH)))))))))))

(** val decode_utf8 : bool -> z list -> z list option **)

let decode_utf8 check_min bs =
  dec8 check_min None (if has_utf8_bom bs then skipn (S (S (S O))) bs else bs)

(** val word : bool -> z -> z -> z **)

let word be b0 b1 =
  if be
  then Z.add (Z.mul b0 (Zpos (XO (XO (XO (XO (XO (XO (XO (XO XH)))))))))) b1
  else Z.add b0 (Z.mul b1 (Zpos (XO (XO (XO (XO (XO (XO (XO (XO XH))))))))))

(** val dec16 : bool -> z option -> z list -> z list option **)

let rec dec16 be hi = function
| [] -> (match hi with
         | Some _ -> None
         | None -> Some [])
| b0 :: l ->
  (match l with
   | [] -> None
   | b1 :: r ->
     let w = word be b0 b1 in
     (match hi with
      | Some h ->
        if (&&)
             (Z.leb (Zpos (XO (XO (XO (XO (XO (XO (XO (XO (XO (XO (XI (XI (XI
               (XO (XI XH)))))))))))))))) w)
             (Z.ltb w (Zpos (XO (XO (XO (XO (XO (XO (XO (XO (XO (XO (XO (XO
               (XO (XI (XI XH)))))))))))))))))
        then option_map (fun x ->
               (Z.add
                 (Z.add
                   (Z.mul h (Zpos (XO (XO (XO (XO (XO (XO (XO (XO (XO (XO
                     XH))))))))))))
                   (Z.modulo w (Zpos (XO (XO (XO (XO (XO (XO (XO (XO (XO (XO
                     XH))))))))))))) (Zpos (XO (XO (XO (XO (XO (XO (XO (XO
                 (XO (XO (XO (XO (XO (XO (XO (XO XH)))))))))))))))))) :: x)
               (dec16 be None r)
        else None
      | None ->
        if (&&)
             (Z.leb (Zpos (XO (XO (XO (XO (XO (XO (XO (XO (XO (XO (XO (XI (XI
               (XO (XI XH)))))))))))))))) w)
             (Z.ltb w (Zpos (XO (XO (XO (XO (XO (XO (XO (XO (XO (XO (XI (XI
               (XI (XO (XI XH)))))))))))))))))
        then dec16 be (Some
               (Z.modulo w (Zpos (XO (XO (XO (XO (XO (XO (XO (XO (XO (XO
                 XH))))))))))))) r
        else if (||)
                  (Z.ltb w (Zpos (XO (XO (XO (XO (XO (XO (XO (XO (XO (XO (XO
                    (XI (XI (XO (XI XH)))))))))))))))))
                  (Z.leb (Zpos (XO (XO (XO (XO (XO (XO (XO (XO (XO (XO (XO
                    (XO (XO (XI (XI XH)))))))))))))))) w)
             then option_map (fun x -> w :: x) (dec16 be None r)
             else None))

(** val nth_byte : z list -> nat -> z **)

let nth_byte bs i =
  nth i bs (Zneg XH)

(** val bom16 : z list -> bool option **)

let bom16 = function
| [] -> None
| b0 :: l ->
  (match l with
   | [] -> None
   | b1 :: _ ->
     if (&&) (Z.eqb b0 (Zpos (XO (XI (XI (XI (XI (XI (XI XH)))))))))
          (Z.eqb b1 (Zpos (XI (XI (XI (XI (XI (XI (XI XH)))))))))
     then Some true
     else if (&&) (Z.eqb b0 (Zpos (XI (XI (XI (XI (XI (XI (XI XH)))))))))
               (Z.eqb b1 (Zpos (XO (XI (XI (XI (XI (XI (XI XH)))))))))
          then Some false
          else None)

(** val enc16 : bool -> enc **)

let enc16 = function
| true -> E_UTF16BE
| false -> E_UTF16LE

(** val decode_utf16 : z list -> (enc * z list) option **)

let decode_utf16 bs =
  let n = length bs in
  if Nat.odd n
  then None
  else if Nat.ltb n (S (S O))
       then None
       else (match bom16 bs with
             | Some be ->
               option_map (fun x -> ((enc16 be), x))
                 (dec16 be None (skipn (S (S O)) bs))
             | None ->
               if Nat.leb (S (S (S (S (S (S O)))))) n
               then if (&&)
                         ((&&) (Z.eqb (nth_byte bs O) Z0)
                           (Z.eqb (nth_byte bs (S (S O))) Z0))
                         (Z.eqb (nth_byte bs (S (S (S (S O))))) Z0)
                    then option_map (fun x -> (E_UTF16BE, x))
                           (dec16 true None bs)
                    else if (&&)
                              ((&&) (Z.eqb (nth_byte bs (S O)) Z0)
                                (Z.eqb (nth_byte bs (S (S (S O)))) Z0))
                              (Z.eqb (nth_byte bs (S (S (S (S (S O)))))) Z0)
                         then option_map (fun x -> (E_UTF16LE, x))
                                (dec16 false None bs)
                         else None
               else None)

(** val decode_bom : z list -> enc option **)

let decode_bom bs =
  match bom16 bs with
  | Some be -> Some (enc16 be)
  | None -> if has_utf8_bom bs then Some E_UTF8 else None

(** val count_if : (z -> bool) -> z list -> nat **)

let rec count_if p = function
| [] -> O
| b :: r -> if p b then S (count_if p r) else count_if p r

type decoded = { d_enc : enc; d_bom : bool; d_data : z list }

(** val decode_unicode : bool -> z list -> decoded option **)

let decode_unicode check_min bs =
  match decode_bom bs with
  | Some e ->
    (match e with
     | E_UTF8 ->
       option_map (fun d -> { d_enc = E_UTF8; d_bom = true; d_data = d })
         (decode_utf8 check_min bs)
     | _ ->
       option_map (fun ed -> { d_enc = (fst ed); d_bom = true; d_data =
         (snd ed) }) (decode_utf16 bs))
  | None ->
    let non_ascii =
      count_if (fun b ->
        Z.leb (Zpos (XO (XO (XO (XO (XO (XO (XO XH)))))))) b) bs
    in
    let zeros = count_if (fun b -> Z.eqb b Z0) bs in
    if Nat.eqb (add non_ascii zeros) O
    then Some { d_enc = E_ASCII; d_bom = false; d_data = bs }
    else let n = length bs in
         let try16 =
           if (&&) (Nat.ltb (Nat.div n (S (S (S (S O))))) zeros)
                (Nat.leb zeros (Nat.div n (S (S O))))
           then decode_utf16 bs
           else None
         in
         (match try16 with
          | Some ed ->
            Some { d_enc = (fst ed); d_bom = false; d_data = (snd ed) }
          | None ->
            (match decode_utf8 check_min bs with
             | Some d -> Some { d_enc = E_UTF8; d_bom = false; d_data = d }
             | None -> Some { d_enc = E_BYTE; d_bom = false; d_data = bs }))

(** val write_byte : z -> z list **)

let write_byte ch =
  if (&&) (Z.leb Z0 ch)
       (Z.ltb ch (Zpos (XO (XO (XO (XO (XO (XO (XO (XO XH))))))))))
  then ch :: []
  else []

(** val write_utf8 : z -> z list **)

let write_utf8 ch =
  flat_map write_byte (encode_utf8 ch)

(** val write_utf16 : bool -> z -> z list **)

let write_utf16 be ch =
  if (||)
       ((&&) (Z.leb Z0 ch)
         (Z.ltb ch (Zpos (XO (XO (XO (XO (XO (XO (XO (XO (XO (XO (XO (XI (XI
           (XO (XI XH))))))))))))))))))
       ((&&)
         (Z.leb (Zpos (XO (XO (XO (XO (XO (XO (XO (XO (XO (XO (XO (XO (XO (XI
           (XI XH)))))))))))))))) ch)
         (Z.ltb ch (Zpos (XO (XO (XO (XO (XO (XO (XO (XO (XO (XO (XO (XO (XO
           (XO (XO (XO XH)))))))))))))))))))
  then if be
       then app
              (write_byte
                (Z.div ch (Zpos (XO (XO (XO (XO (XO (XO (XO (XO XH)))))))))))
              (write_byte
                (Z.modulo ch (Zpos (XO (XO (XO (XO (XO (XO (XO (XO
                  XH)))))))))))
       else app
              (write_byte
                (Z.modulo ch (Zpos (XO (XO (XO (XO (XO (XO (XO (XO
                  XH)))))))))))
              (write_byte
                (Z.div ch (Zpos (XO (XO (XO (XO (XO (XO (XO (XO XH)))))))))))
  else if (&&)
            (Z.leb (Zpos (XO (XO (XO (XO (XO (XO (XO (XO (XO (XO (XO (XO (XO
              (XO (XO (XO XH))))))))))))))))) ch)
            (Z.ltb ch (Zpos (XO (XO (XO (XO (XO (XO (XO (XO (XO (XO (XO (XO
              (XO (XO (XO (XO (XI (XO (XO (XO XH))))))))))))))))))))))
       then let v1 =
              Z.sub ch (Zpos (XO (XO (XO (XO (XO (XO (XO (XO (XO (XO (XO (XO
                (XO (XO (XO (XO XH)))))))))))))))))
            in
            let w1 =
              Z.add (Zpos (XO (XO (XO (XO (XO (XO (XO (XO (XO (XO (XO (XI (XI
                (XO (XI XH))))))))))))))))
                (Z.div v1 (Zpos (XO (XO (XO (XO (XO (XO (XO (XO (XO (XO
                  XH))))))))))))
            in
            let w2 =
              Z.add (Zpos (XO (XO (XO (XO (XO (XO (XO (XO (XO (XO (XI (XI (XI
                (XO (XI XH))))))))))))))))
                (Z.modulo v1 (Zpos (XO (XO (XO (XO (XO (XO (XO (XO (XO (XO
                  XH))))))))))))
            in
            if be
            then app
                   (write_byte
                     (Z.div w1 (Zpos (XO (XO (XO (XO (XO (XO (XO (XO
                       XH)))))))))))
                   (app
                     (write_byte
                       (Z.modulo w1 (Zpos (XO (XO (XO (XO (XO (XO (XO (XO
                         XH)))))))))))
                     (app
                       (write_byte
                         (Z.div w2 (Zpos (XO (XO (XO (XO (XO (XO (XO (XO
                           XH)))))))))))
                       (write_byte
                         (Z.modulo w2 (Zpos (XO (XO (XO (XO (XO (XO (XO (XO
                           XH)))))))))))))
            else app
                   (write_byte
                     (Z.modulo w1 (Zpos (XO (XO (XO (XO (XO (XO (XO (XO
                       XH)))))))))))
                   (app
                     (write_byte
                       (Z.div w1 (Zpos (XO (XO (XO (XO (XO (XO (XO (XO
                         XH)))))))))))
                     (app
                       (write_byte
                         (Z.modulo w2 (Zpos (XO (XO (XO (XO (XO (XO (XO (XO
                           XH)))))))))))
                       (write_byte
                         (Z.div w2 (Zpos (XO (XO (XO (XO (XO (XO (XO (XO
                           XH)))))))))))))
       else []

(** val write_char : enc -> z -> z list **)

let write_char e ch =
  if Z.ltb ch Z0
  then []
  else (match e with
        | E_ASCII -> write_byte ch
        | E_BYTE ->
          write_byte
            (Z.modulo ch (Zpos (XO (XO (XO (XO (XO (XO (XO (XO XH))))))))))
        | E_UTF8 -> write_utf8 ch
        | E_UTF16LE -> write_utf16 false ch
        | E_UTF16BE -> write_utf16 true ch)

(** val write_bom : enc -> z list **)

let write_bom = function
| E_UTF8 ->
  (Zpos (XI (XI (XI (XI (XO (XI (XI XH)))))))) :: ((Zpos (XI (XI (XO (XI (XI
    (XI (XO XH)))))))) :: ((Zpos (XI (XI (XI (XI (XI (XI (XO
    XH)))))))) :: []))
| E_UTF16LE ->
  write_utf16 false (Zpos (XI (XI (XI (XI (XI (XI (XI (XI (XO (XI (XI (XI (XI
    (XI (XI XH))))))))))))))))
| E_UTF16BE ->
  write_utf16 true (Zpos (XI (XI (XI (XI (XI (XI (XI (XI (XO (XI (XI (XI (XI
    (XI (XI XH))))))))))))))))
| _ -> []

(** val write_string : enc -> z list -> z list **)

let write_string e cps =
  flat_map (write_char e) cps

type iarf =
| Ignore
| Add
| Remove
| Force

type enc_opts = { utf8_bom : iarf; utf8_byte : bool; utf8_force : bool }

(** val out_enc : enc_opts -> enc -> enc **)

let out_enc o e =
  if (||) o.utf8_force ((&&) (enc_eqb e E_BYTE) o.utf8_byte)
  then E_UTF8
  else e

(** val out_bom : enc_opts -> enc -> bool -> bool **)

let out_bom o e_out bom_in =
  let av =
    match e_out with
    | E_ASCII -> Ignore
    | E_BYTE -> Ignore
    | E_UTF8 -> o.utf8_bom
    | _ -> Force
  in
  (match av with
   | Ignore -> bom_in
   | Remove -> false
   | _ -> true)

(** val has_embedded_nul : z list -> bool **)

let rec has_embedded_nul = function
| [] -> false
| c :: r ->
  (match r with
   | [] -> false
   | _ :: _ -> (||) (Z.eqb c Z0) (has_embedded_nul r))

type outcome =
| Refused
| Written of z list

(** val run_file :
    bool -> enc_opts -> (z list -> z list) -> z list -> outcome **)

let run_file check_min o f bs =
  match decode_unicode check_min bs with
  | Some d ->
    if has_embedded_nul d.d_data
    then Refused
    else let e = out_enc o d.d_enc in
         let b = out_bom o e d.d_bom in
         Written
         (app (if b then write_bom e else []) (write_string e (f d.d_data)))
  | None -> Refused

(** val repo_check_min : bool **)

let repo_check_min =
  true

type bytes = z list

(** val bytes_eqb : bytes -> bytes -> bool **)

let rec bytes_eqb a b =
  match a with
  | [] -> (match b with
           | [] -> true
           | _ :: _ -> false)
  | x :: a' ->
    (match b with
     | [] -> false
     | y :: b' -> (&&) (Z.eqb x y) (bytes_eqb a' b'))

type role =
| RIn
| ROut
| RTmp
| RBackup
| RMd5

(** val role_eqb : role -> role -> bool **)

let role_eqb a b =
  match a with
  | RIn -> (match b with
            | RIn -> true
            | _ -> false)
  | ROut -> (match b with
             | ROut -> true
             | _ -> false)
  | RTmp -> (match b with
             | RTmp -> true
             | _ -> false)
  | RBackup -> (match b with
                | RBackup -> true
                | _ -> false)
  | RMd5 -> (match b with
             | RMd5 -> true
             | _ -> false)

type content =
| Data of bytes
| Digest of bytes
| DigestPrefix of bytes * nat

type fstate =
| Absent
| Closed of content
| Writing of content * bool

type opk =
| KStat
| KFopenR
| KFopenW
| KFread
| KFclose
| KWrite
| KRename
| KUnlink
| KOpen
| KRead
| KClose
| KUtime

type ev = { e_op : opk; e_role : role; e_ok : bool }

type fault =
| FFail
| FFull of nat

type plan = { faults : (nat -> fault option);
              crash : (nat * nat option) option }

type st = { disk : (role -> fstate); nop : nat; trace : ev list }

type 'a res =
| Ok of 'a * st
| Stop of z option * st

type 'a m = st -> 'a res

(** val ret : 'a1 -> 'a1 m **)

let ret a s =
  Ok (a, s)

(** val bind : 'a1 m -> ('a1 -> 'a2 m) -> 'a2 m **)

let bind m0 f s =
  match m0 s with
  | Ok (a, s') -> f a s'
  | Stop (c, s') -> Stop (c, s')

(** val exit_ : z -> 'a1 m **)

let exit_ c s =
  Stop ((Some c), s)

(** val upd : (role -> fstate) -> role -> fstate -> role -> fstate **)

let upd d r f r' =
  if role_eqb r r' then f else d r'

(** val begin_op : plan -> fault option m **)

let begin_op pl s =
  match pl.crash with
  | Some p ->
    let (k, o) = p in
    (match o with
     | Some _ ->
       Ok ((pl.faults s.nop), { disk = s.disk; nop = (S s.nop); trace =
         s.trace })
     | None ->
       if Nat.eqb k s.nop
       then Stop (None, s)
       else Ok ((pl.faults s.nop), { disk = s.disk; nop = (S s.nop); trace =
              s.trace }))
  | None ->
    Ok ((pl.faults s.nop), { disk = s.disk; nop = (S s.nop); trace =
      s.trace })

(** val crashw_here : plan -> st -> nat option **)

let crashw_here pl s =
  match pl.crash with
  | Some p ->
    let (k, o) = p in
    (match o with
     | Some j -> if Nat.eqb (S k) s.nop then Some j else None
     | None -> None)
  | None -> None

(** val log : opk -> role -> bool -> unit m **)

let log o r ok s =
  Ok ((), { disk = s.disk; nop = s.nop; trace =
    (app s.trace ({ e_op = o; e_role = r; e_ok = ok } :: [])) })

(** val get : role -> fstate m **)

let get r s =
  Ok ((s.disk r), s)

(** val put : role -> fstate -> unit m **)

let put r f s =
  Ok ((), { disk = (upd s.disk r f); nop = s.nop; trace = s.trace })

(** val exists_ : fstate -> bool **)

let exists_ = function
| Absent -> false
| _ -> true

(** val op_probe : plan -> opk -> role -> bool m **)

let op_probe pl o r =
  bind (begin_op pl) (fun f ->
    bind (get r) (fun cur ->
      let ok = match f with
               | Some _ -> false
               | None -> exists_ cur in
      bind (log o r ok) (fun _ -> ret ok)))

(** val op_read : plan -> opk -> role -> content option m **)

let op_read pl o r =
  bind (begin_op pl) (fun f ->
    bind (get r) (fun cur ->
      bind (log o r true) (fun _ ->
        ret
          (match f with
           | Some _ -> None
           | None ->
             (match cur with
              | Absent -> None
              | Closed c -> Some c
              | Writing (c, _) -> Some c)))))

(** val op_close : plan -> role -> unit m **)

let op_close pl r =
  bind (begin_op pl) (fun _ -> log KClose r true)

(** val op_simple : plan -> opk -> role -> bool m **)

let op_simple pl o r =
  bind (begin_op pl) (fun f ->
    let ok = match f with
             | Some _ -> false
             | None -> true in
    bind (log o r ok) (fun _ -> ret ok))

(** val op_fopen_w : plan -> role -> bool m **)

let op_fopen_w pl r =
  bind (begin_op pl) (fun f ->
    match f with
    | Some _ -> bind (log KFopenW r false) (fun _ -> ret false)
    | None ->
      bind (put r (Writing ((Data []), false))) (fun _ ->
        bind (log KFopenW r true) (fun _ -> ret true)))

(** val app_content : content -> content -> nat option -> content **)

let app_content c d j =
  match c with
  | Data a ->
    (match a with
     | [] ->
       (match d with
        | Data b ->
          Data (app a (match j with
                       | Some n -> firstn n b
                       | None -> b))
        | Digest b ->
          (match j with
           | Some n -> DigestPrefix (b, n)
           | None -> Digest b)
        | DigestPrefix (_, _) -> c)
     | _ :: _ ->
       (match d with
        | Data b ->
          Data (app a (match j with
                       | Some n -> firstn n b
                       | None -> b))
        | _ -> c))
  | _ -> c

(** val bites : content -> nat -> bool **)

let bites d j =
  match d with
  | Data b -> Nat.ltb j (length b)
  | _ -> true

(** val eff_fault : content -> fault option -> fault option **)

let eff_fault d f0 = match f0 with
| Some f ->
  (match f with
   | FFail -> if bites d O then f0 else None
   | FFull j -> if bites d j then f0 else None)
| None -> None

(** val eff_crash : content -> nat option -> nat option **)

let eff_crash d = function
| Some j -> if bites d j then Some j else None
| None -> None

(** val op_write : plan -> role -> content -> unit m **)

let op_write pl r d =
  bind (begin_op pl) (fun f0 ->
    bind (log KWrite r true) (fun _ ->
      bind (get r) (fun cur s ->
        match cur with
        | Writing (c, e) ->
          (match eff_crash d (crashw_here pl s) with
           | Some j ->
             Stop (None, { disk =
               (upd s.disk r (Writing ((app_content c d (Some j)), e)));
               nop = s.nop; trace = s.trace })
           | None ->
             (match eff_fault d f0 with
              | Some f ->
                (match f with
                 | FFail ->
                   Ok ((), { disk = (upd s.disk r (Writing (c, true))); nop =
                     s.nop; trace = s.trace })
                 | FFull j ->
                   if e
                   then Ok ((), s)
                   else Ok ((), { disk =
                          (upd s.disk r (Writing ((app_content c d (Some j)),
                            true))); nop = s.nop; trace = s.trace }))
              | None ->
                if e
                then Ok ((), s)
                else Ok ((), { disk =
                       (upd s.disk r (Writing ((app_content c d None), e)));
                       nop = s.nop; trace = s.trace })))
        | _ -> Ok ((), s))))

(** val op_fclose_w : plan -> role -> bool m **)

let op_fclose_w pl r =
  bind (begin_op pl) (fun f ->
    bind (get r) (fun cur ->
      match cur with
      | Writing (c, e) ->
        let ok = (&&) (negb e) (match f with
                                | Some _ -> false
                                | None -> true)
        in
        bind (put r (Closed c)) (fun _ ->
          bind (log KFclose r ok) (fun _ -> ret ok))
      | _ -> bind (log KFclose r false) (fun _ -> ret false)))

(** val op_rename : plan -> role -> role -> bool m **)

let op_rename pl a b =
  bind (begin_op pl) (fun f ->
    bind (get a) (fun cur ->
      match f with
      | Some _ -> bind (log KRename a false) (fun _ -> ret false)
      | None ->
        (match cur with
         | Closed c ->
           bind (put b (Closed c)) (fun _ ->
             bind (put a Absent) (fun _ ->
               bind (log KRename a true) (fun _ -> ret true)))
         | _ -> bind (log KRename a false) (fun _ -> ret false))))

(** val op_unlink : plan -> role -> bool m **)

let op_unlink pl r =
  bind (begin_op pl) (fun f ->
    match f with
    | Some _ -> bind (log KUnlink r false) (fun _ -> ret false)
    | None ->
      bind (put r Absent) (fun _ ->
        bind (log KUnlink r true) (fun _ -> ret true)))

type mode = { in_place : bool; to_file : bool; no_backup : bool;
              if_changed : bool; do_check : bool; keep_mtime : bool }

(** val eX_IOERR : z **)

let eX_IOERR =
  Zpos (XO (XI (XO (XI (XO (XO XH))))))

(** val eX_SOFTWARE : z **)

let eX_SOFTWARE =
  Zpos (XO (XI (XI (XO (XO (XO XH))))))

(** val eX_FMT : z **)

let eX_FMT =
  Zpos (XO (XI (XI (XO (XO (XO XH))))))

(** val content_eqb : content -> content -> bool **)

let content_eqb a b =
  match a with
  | Data x -> (match b with
               | Data y -> bytes_eqb x y
               | _ -> false)
  | Digest x -> (match b with
                 | Digest y -> bytes_eqb x y
                 | _ -> false)
  | DigestPrefix (x, i) ->
    (match b with
     | DigestPrefix (y, j) -> (&&) (bytes_eqb x y) (Nat.eqb i j)
     | _ -> false)

(** val bytes_of : content -> bytes **)

let bytes_of = function
| Data b -> b
| Digest b -> b
| DigestPrefix (b, _) -> b

(** val load : plan -> bytes m **)

let load pl =
  bind (op_probe pl KStat RIn) (fun ok ->
    if negb ok
    then exit_ eX_IOERR
    else bind (get RIn) (fun cur ->
           bind (op_probe pl KFopenR RIn) (fun ok2 ->
             if negb ok2
             then exit_ eX_IOERR
             else (match cur with
                   | Absent ->
                     bind (op_read pl KFread RIn) (fun c ->
                       match c with
                       | Some c0 ->
                         (match c0 with
                          | Data b ->
                            bind (op_simple pl KFclose RIn) (fun _ -> ret b)
                          | _ -> exit_ eX_IOERR)
                       | None -> exit_ eX_IOERR)
                   | Closed c ->
                     (match c with
                      | Data b ->
                        (match b with
                         | [] ->
                           bind (op_simple pl KFclose RIn) (fun _ -> ret [])
                         | _ :: _ ->
                           bind (op_read pl KFread RIn) (fun c0 ->
                             match c0 with
                             | Some c1 ->
                               (match c1 with
                                | Data b0 ->
                                  bind (op_simple pl KFclose RIn) (fun _ ->
                                    ret b0)
                                | _ -> exit_ eX_IOERR)
                             | None -> exit_ eX_IOERR))
                      | Digest _ ->
                        bind (op_read pl KFread RIn) (fun c0 ->
                          match c0 with
                          | Some c1 ->
                            (match c1 with
                             | Data b ->
                               bind (op_simple pl KFclose RIn) (fun _ ->
                                 ret b)
                             | _ -> exit_ eX_IOERR)
                          | None -> exit_ eX_IOERR)
                      | DigestPrefix (_, _) ->
                        bind (op_read pl KFread RIn) (fun c0 ->
                          match c0 with
                          | Some c1 ->
                            (match c1 with
                             | Data b ->
                               bind (op_simple pl KFclose RIn) (fun _ ->
                                 ret b)
                             | _ -> exit_ eX_IOERR)
                          | None -> exit_ eX_IOERR))
                   | Writing (_, _) ->
                     bind (op_read pl KFread RIn) (fun c ->
                       match c with
                       | Some c0 ->
                         (match c0 with
                          | Data b ->
                            bind (op_simple pl KFclose RIn) (fun _ -> ret b)
                          | _ -> exit_ eX_IOERR)
                       | None -> exit_ eX_IOERR)))))

(** val backup_copy : plan -> bytes -> unit m **)

let backup_copy pl orig =
  bind (op_probe pl KFopenR RMd5) (fun okm ->
    bind
      (if okm
       then bind (op_read pl KFread RMd5) (fun c ->
              bind (op_simple pl KFclose RMd5) (fun _ -> ret c))
       else ret None) (fun recorded ->
      let same =
        match recorded with
        | Some c ->
          (match c with
           | Data _ -> false
           | Digest b -> bytes_eqb b orig
           | DigestPrefix (b, j) ->
             (&&)
               (Nat.leb (S (S (S (S (S (S (S (S (S (S (S (S (S (S (S (S (S (S
                 (S (S (S (S (S (S (S (S (S (S (S (S (S (S
                 O)))))))))))))))))))))))))))))))) j) (bytes_eqb b orig))
        | None -> false
      in
      if same
      then ret ()
      else bind (op_fopen_w pl RBackup) (fun okb ->
             if negb okb
             then exit_ eX_SOFTWARE
             else bind (op_write pl RBackup (Data orig)) (fun _ ->
                    bind (op_fclose_w pl RBackup) (fun okc ->
                      if okc then ret () else exit_ eX_SOFTWARE)))))

(** val content_matches : plan -> role -> role -> bool m **)

let content_matches pl a b =
  bind (op_probe pl KStat a) (fun sa ->
    bind (get a) (fun ca ->
      if negb sa
      then ret false
      else bind (op_probe pl KStat b) (fun sb ->
             bind (get b) (fun cb ->
               if negb sb
               then ret false
               else let la =
                      match ca with
                      | Closed c -> length (bytes_of c)
                      | _ -> O
                    in
                    let lb =
                      match cb with
                      | Closed c -> length (bytes_of c)
                      | _ -> O
                    in
                    if negb (Nat.eqb la lb)
                    then ret false
                    else bind (op_probe pl KOpen a) (fun oa ->
                           if negb oa
                           then ret false
                           else bind (op_probe pl KOpen b) (fun ob ->
                                  if negb ob
                                  then bind (op_close pl a) (fun _ ->
                                         ret false)
                                  else bind (op_read pl KRead a) (fun ra ->
                                         bind (op_read pl KRead b) (fun rb ->
                                           match ra with
                                           | Some x ->
                                             (match rb with
                                              | Some y ->
                                                if Nat.eqb la O
                                                then bind (op_close pl a)
                                                       (fun _ ->
                                                       bind (op_close pl b)
                                                         (fun _ -> ret true))
                                                else if content_eqb x y
                                                     then bind
                                                            (op_read pl KRead
                                                              a) (fun ra2 ->
                                                            bind
                                                              (op_read pl
                                                                KRead b)
                                                              (fun rb2 ->
                                                              bind
                                                                (op_close pl
                                                                  a)
                                                                (fun _ ->
                                                                bind
                                                                  (op_close
                                                                    pl b)
                                                                  (fun _ ->
                                                                  ret
                                                                    (
                                                                    match ra2 with
                                                                    | Some _ ->
                                                                    (match rb2 with
                                                                    | Some _ ->
                                                                    true
                                                                    | None ->
                                                                    false)
                                                                    | None ->
                                                                    false)))))
                                                     else bind
                                                            (op_close pl a)
                                                            (fun _ ->
                                                            bind
                                                              (op_close pl b)
                                                              (fun _ ->
                                                              ret false))
                                              | None ->
                                                bind (op_close pl a)
                                                  (fun _ ->
                                                  bind (op_close pl b)
                                                    (fun _ -> ret false)))
                                           | None ->
                                             bind (op_close pl a) (fun _ ->
                                               bind (op_close pl b) (fun _ ->
                                                 ret false))))))))))

(** val create_md5 : plan -> role -> unit m **)

let create_md5 pl src =
  bind (op_probe pl KFopenR src) (fun ok ->
    if negb ok
    then exit_ eX_SOFTWARE
    else bind (op_read pl KFread src) (fun c ->
           bind (op_simple pl KFclose src) (fun _ ->
             bind (op_fopen_w pl RMd5) (fun okw ->
               if negb okw
               then ret ()
               else bind
                      (op_write pl RMd5 (Digest
                        (match c with
                         | Some x -> bytes_of x
                         | None -> []))) (fun _ ->
                      bind (op_fclose_w pl RMd5) (fun _ -> ret ()))))))

type out = { stdout : bytes; check_fail : bool }

(** val write_out :
    plan -> mode -> (bytes -> bytes option) -> bytes option -> bytes -> out m **)

let write_out pl md fmt pre orig =
  let tmp = if md.in_place then RTmp else ROut in
  let target = if md.in_place then RIn else ROut in
  bind
    (if (&&) md.in_place (negb md.no_backup)
     then backup_copy pl orig
     else ret ()) (fun _ ->
    bind (op_fopen_w pl tmp) (fun okt ->
      if negb okt
      then exit_ eX_IOERR
      else (match match pre with
                  | Some f -> Some f
                  | None -> fmt orig with
            | Some f ->
              bind
                (match f with
                 | [] -> ret ()
                 | _ :: _ -> op_write pl tmp (Data f)) (fun _ ->
                bind (op_fclose_w pl tmp) (fun okc ->
                  if negb okc
                  then bind
                         (if md.in_place then op_unlink pl tmp else ret true)
                         (fun _ -> exit_ eX_IOERR)
                  else bind
                         (if (&&) md.in_place (negb md.no_backup)
                          then create_md5 pl tmp
                          else ret ()) (fun _ ->
                         bind
                           (if md.in_place
                            then bind
                                   (if md.if_changed
                                    then ret false
                                    else content_matches pl tmp target)
                                   (fun same ->
                                   if same
                                   then bind (op_unlink pl tmp) (fun _ ->
                                          ret ())
                                   else bind (op_rename pl tmp target)
                                          (fun okr ->
                                          if okr
                                          then ret ()
                                          else exit_ eX_IOERR))
                            else ret ()) (fun _ ->
                           bind
                             (if md.keep_mtime
                              then bind (op_simple pl KUtime RIn) (fun _ ->
                                     ret ())
                              else ret ()) (fun _ ->
                             ret { stdout = []; check_fail = false })))))
            | None -> exit_ eX_FMT)))

(** val after_load :
    plan -> mode -> (bytes -> bytes option) -> bytes -> bytes option -> out m **)

let after_load pl md fmt orig pre =
  if md.do_check
  then (match fmt orig with
        | Some f ->
          ret { stdout = []; check_fail = (negb (bytes_eqb f orig)) }
        | None -> exit_ eX_FMT)
  else if negb md.to_file
       then (match match pre with
                   | Some f -> Some f
                   | None -> fmt orig with
             | Some f -> ret { stdout = f; check_fail = false }
             | None -> exit_ eX_FMT)
       else write_out pl md fmt pre orig

(** val do_source_file : plan -> mode -> (bytes -> bytes option) -> out m **)

let do_source_file pl md fmt =
  bind (load pl) (fun orig ->
    if md.if_changed
    then (match fmt orig with
          | Some f ->
            if bytes_eqb f orig
            then ret { stdout = []; check_fail = false }
            else after_load pl md fmt orig (Some f)
          | None -> exit_ eX_FMT)
    else after_load pl md fmt orig None)

type result = { r_disk : (role -> fstate); r_exit : z option;
                r_trace : ev list; r_out : out option; r_ops : nat }

(** val run :
    plan -> mode -> (bytes -> bytes option) -> (role -> fstate) -> result **)

let run pl md fmt d0 =
  match do_source_file pl md fmt { disk = d0; nop = O; trace = [] } with
  | Ok (o, s) ->
    { r_disk = s.disk; r_exit = (Some
      (if o.check_fail then Zpos XH else Z0)); r_trace = s.trace; r_out =
      (Some o); r_ops = s.nop }
  | Stop (c, s) ->
    { r_disk = s.disk; r_exit = c; r_trace = s.trace; r_out = None; r_ops =
      s.nop }

(** val no_plan : plan **)

let no_plan =
  { faults = (fun _ -> None); crash = None }

(** val disk0 : bytes -> role -> fstate **)

let disk0 orig = function
| RIn -> Closed (Data orig)
| _ -> Absent

type 'digest bst = { b_file : bytes; b_backup : (bytes * bool) option;
                     b_md5 : 'digest option }

type phase =
| K0
| K1 of nat
| K2
| K3
| Completed

type event =
| Edit of bytes
| Run of (bytes -> bytes option) * phase

(** val own : (bytes -> 'a1) -> ('a1 -> 'a1 -> bool) -> 'a1 bst -> bool **)

let own h digest_eqb s =
  match s.b_md5 with
  | Some d -> digest_eqb d (h s.b_file)
  | None -> false

(** val run_step :
    (bytes -> 'a1) -> ('a1 -> 'a1 -> bool) -> 'a1 bst -> (bytes -> bytes
    option) -> phase -> 'a1 bst **)

let run_step h digest_eqb s f ph =
  let due = negb (own h digest_eqb s) in
  let full_bk = if due then Some (s.b_file, true) else s.b_backup in
  (match ph with
   | K0 -> s
   | K1 j ->
     { b_file = s.b_file; b_backup =
       (if due then Some ((firstn j s.b_file), false) else s.b_backup);
       b_md5 = s.b_md5 }
   | K2 -> { b_file = s.b_file; b_backup = full_bk; b_md5 = s.b_md5 }
   | K3 ->
     (match f s.b_file with
      | Some out0 ->
        { b_file = s.b_file; b_backup = full_bk; b_md5 = (Some (h out0)) }
      | None -> { b_file = s.b_file; b_backup = full_bk; b_md5 = s.b_md5 })
   | Completed ->
     (match f s.b_file with
      | Some out0 ->
        { b_file = out0; b_backup = full_bk; b_md5 = (Some (h out0)) }
      | None -> { b_file = s.b_file; b_backup = full_bk; b_md5 = s.b_md5 }))

(** val step :
    (bytes -> 'a1) -> ('a1 -> 'a1 -> bool) -> 'a1 bst -> event -> 'a1 bst **)

let step h digest_eqb s = function
| Edit c -> { b_file = c; b_backup = s.b_backup; b_md5 = s.b_md5 }
| Run (f, ph) -> run_step h digest_eqb s f ph

(** val pstep :
    (bytes -> 'a1) -> ('a1 -> 'a1 -> bool) -> bytes -> 'a1 bst -> event ->
    bytes **)

let pstep h digest_eqb prot s = function
| Edit c -> c
| Run (_, ph) ->
  (match ph with
   | K0 -> prot
   | K1 _ -> prot
   | _ -> if own h digest_eqb s then prot else s.b_file)

(** val admissible :
    (bytes -> 'a1) -> ('a1 -> 'a1 -> bool) -> 'a1 bst -> event -> bool **)

let admissible h digest_eqb s = function
| Edit c ->
  negb (match s.b_md5 with
        | Some d -> digest_eqb d (h c)
        | None -> false)
| Run (_, ph) -> (match ph with
                  | K3 -> negb (own h digest_eqb s)
                  | _ -> true)

(** val idh : bytes -> bytes **)

let idh b =
  b

(** val check_exit : bool list -> z **)

let check_exit fails =
  if existsb (fun b -> b) fails then Zpos XH else Z0
