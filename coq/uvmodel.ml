
(** val negb : bool -> bool **)

let negb = function
| true -> false
| false -> true

type nat =
| O
| S of nat

(** val option_map : ('a1 -> 'a2) -> 'a1 option -> 'a2 option **)

let option_map f = function
| Some a -> Some (f a)
| None -> None

(** val fst : ('a1 * 'a2) -> 'a1 **)

let fst = function
| (x, _) -> x

(** val snd : ('a1 * 'a2) -> 'a2 **)

let snd = function
| (_, y) -> y

(** val length : 'a1 list -> nat **)

let rec length = function
| [] -> O
| _ :: l' -> S (length l')

(** val app : 'a1 list -> 'a1 list -> 'a1 list **)

let rec app l m =
  match l with
  | [] -> m
  | a :: l1 -> a :: (app l1 m)

type comparison =
| Eq
| Lt
| Gt

(** val compOpp : comparison -> comparison **)

let compOpp = function
| Eq -> Eq
| Lt -> Gt
| Gt -> Lt

(** val add : nat -> nat -> nat **)

let rec add n m =
  match n with
  | O -> m
  | S p -> S (add p m)

module Nat =
 struct
  (** val eqb : nat -> nat -> bool **)

  let rec eqb n m =
    match n with
    | O -> (match m with
            | O -> true
            | S _ -> false)
    | S n' -> (match m with
               | O -> false
               | S m' -> eqb n' m')

  (** val leb : nat -> nat -> bool **)

  let rec leb n m =
    match n with
    | O -> true
    | S n' -> (match m with
               | O -> false
               | S m' -> leb n' m')

  (** val ltb : nat -> nat -> bool **)

  let ltb n m =
    leb (S n) m

  (** val even : nat -> bool **)

  let rec even = function
  | O -> true
  | S n0 -> (match n0 with
             | O -> false
             | S n' -> even n')

  (** val odd : nat -> bool **)

  let odd n =
    negb (even n)

  (** val divmod : nat -> nat -> nat -> nat -> nat * nat **)

  let rec divmod x y q u =
    match x with
    | O -> (q, u)
    | S x' ->
      (match u with
       | O -> divmod x' y (S q) y
       | S u' -> divmod x' y q u')

  (** val div : nat -> nat -> nat **)

  let div x y = match y with
  | O -> y
  | S y' -> fst (divmod x y' O y')
 end

(** val nth : nat -> 'a1 list -> 'a1 -> 'a1 **)

let rec nth n l default =
  match n with
  | O -> (match l with
          | [] -> default
          | x :: _ -> x)
  | S m -> (match l with
            | [] -> default
            | _ :: t -> nth m t default)

(** val flat_map : ('a1 -> 'a2 list) -> 'a1 list -> 'a2 list **)

let rec flat_map f = function
| [] -> []
| x :: t -> app (f x) (flat_map f t)

(** val skipn : nat -> 'a1 list -> 'a1 list **)

let rec skipn n l =
  match n with
  | O -> l
  | S n0 -> (match l with
             | [] -> []
             | _ :: l0 -> skipn n0 l0)

type positive =
| XI of positive
| XO of positive
| XH

type z =
| Z0
| Zpos of positive
| Zneg of positive

module Pos =
 struct
  (** val succ : positive -> positive **)

  let rec succ = function
  | XI p -> XO (succ p)
  | XO p -> XI p
  | XH -> XO XH

  (** val add : positive -> positive -> positive **)

  let rec add x y =
    match x with
    | XI p ->
      (match y with
       | XI q -> XO (add_carry p q)
       | XO q -> XI (add p q)
       | XH -> XO (succ p))
    | XO p ->
      (match y with
       | XI q -> XI (add p q)
       | XO q -> XO (add p q)
       | XH -> XI p)
    | XH -> (match y with
             | XI q -> XO (succ q)
             | XO q -> XI q
             | XH -> XO XH)

  (** val add_carry : positive -> positive -> positive **)

  and add_carry x y =
    match x with
    | XI p ->
      (match y with
       | XI q -> XI (add_carry p q)
       | XO q -> XO (add_carry p q)
       | XH -> XI (succ p))
    | XO p ->
      (match y with
       | XI q -> XO (add_carry p q)
       | XO q -> XI (add p q)
       | XH -> XO (succ p))
    | XH ->
      (match y with
       | XI q -> XI (succ q)
       | XO q -> XO (succ q)
       | XH -> XI XH)

  (** val pred_double : positive -> positive **)

  let rec pred_double = function
  | XI p -> XI (XO p)
  | XO p -> XI (pred_double p)
  | XH -> XH

  (** val mul : positive -> positive -> positive **)

  let rec mul x y =
    match x with
    | XI p -> add y (XO (mul p y))
    | XO p -> XO (mul p y)
    | XH -> y

  (** val compare_cont : comparison -> positive -> positive -> comparison **)

  let rec compare_cont r x y =
    match x with
    | XI p ->
      (match y with
       | XI q -> compare_cont r p q
       | XO q -> compare_cont Gt p q
       | XH -> Gt)
    | XO p ->
      (match y with
       | XI q -> compare_cont Lt p q
       | XO q -> compare_cont r p q
       | XH -> Gt)
    | XH -> (match y with
             | XH -> r
             | _ -> Lt)

  (** val compare : positive -> positive -> comparison **)

  let compare =
    compare_cont Eq

  (** val eqb : positive -> positive -> bool **)

  let rec eqb p q =
    match p with
    | XI p0 -> (match q with
                | XI q0 -> eqb p0 q0
                | _ -> false)
    | XO p0 -> (match q with
                | XO q0 -> eqb p0 q0
                | _ -> false)
    | XH -> (match q with
             | XH -> true
             | _ -> false)
 end

module Z =
 struct
  (** val double : z -> z **)

  let double = function
  | Z0 -> Z0
  | Zpos p -> Zpos (XO p)
  | Zneg p -> Zneg (XO p)

  (** val succ_double : z -> z **)

  let succ_double = function
  | Z0 -> Zpos XH
  | Zpos p -> Zpos (XI p)
  | Zneg p -> Zneg (Pos.pred_double p)

  (** val pred_double : z -> z **)

  let pred_double = function
  | Z0 -> Zneg XH
  | Zpos p -> Zpos (Pos.pred_double p)
  | Zneg p -> Zneg (XI p)

  (** val pos_sub : positive -> positive -> z **)

  let rec pos_sub x y =
    match x with
    | XI p ->
      (match y with
       | XI q -> double (pos_sub p q)
       | XO q -> succ_double (pos_sub p q)
       | XH -> Zpos (XO p))
    | XO p ->
      (match y with
       | XI q -> pred_double (pos_sub p q)
       | XO q -> double (pos_sub p q)
       | XH -> Zpos (Pos.pred_double p))
    | XH ->
      (match y with
       | XI q -> Zneg (XO q)
       | XO q -> Zneg (Pos.pred_double q)
       | XH -> Z0)

  (** val add : z -> z -> z **)

  let add x y =
    match x with
    | Z0 -> y
    | Zpos x' ->
      (match y with
       | Z0 -> x
       | Zpos y' -> Zpos (Pos.add x' y')
       | Zneg y' -> pos_sub x' y')
    | Zneg x' ->
      (match y with
       | Z0 -> x
       | Zpos y' -> pos_sub y' x'
       | Zneg y' -> Zneg (Pos.add x' y'))

  (** val opp : z -> z **)

  let opp = function
  | Z0 -> Z0
  | Zpos x0 -> Zneg x0
  | Zneg x0 -> Zpos x0

  (** val sub : z -> z -> z **)

  let sub m n =
    add m (opp n)

  (** val mul : z -> z -> z **)

  let mul x y =
    match x with
    | Z0 -> Z0
    | Zpos x' ->
      (match y with
       | Z0 -> Z0
       | Zpos y' -> Zpos (Pos.mul x' y')
       | Zneg y' -> Zneg (Pos.mul x' y'))
    | Zneg x' ->
      (match y with
       | Z0 -> Z0
       | Zpos y' -> Zneg (Pos.mul x' y')
       | Zneg y' -> Zpos (Pos.mul x' y'))

  (** val compare : z -> z -> comparison **)

  let compare x y =
    match x with
    | Z0 -> (match y with
             | Z0 -> Eq
             | Zpos _ -> Lt
             | Zneg _ -> Gt)
    | Zpos x' -> (match y with
                  | Zpos y' -> Pos.compare x' y'
                  | _ -> Gt)
    | Zneg x' ->
      (match y with
       | Zneg y' -> compOpp (Pos.compare x' y')
       | _ -> Lt)

  (** val leb : z -> z -> bool **)

  let leb x y =
    match compare x y with
    | Gt -> false
    | _ -> true

  (** val ltb : z -> z -> bool **)

  let ltb x y =
    match compare x y with
    | Lt -> true
    | _ -> false

  (** val eqb : z -> z -> bool **)

  let eqb x y =
    match x with
    | Z0 -> (match y with
             | Z0 -> true
             | _ -> false)
    | Zpos p -> (match y with
                 | Zpos q -> Pos.eqb p q
                 | _ -> false)
    | Zneg p -> (match y with
                 | Zneg q -> Pos.eqb p q
                 | _ -> false)

  (** val pos_div_eucl : positive -> z -> z * z **)

  let rec pos_div_eucl a b =
    match a with
    | XI a' ->
      let (q, r) = pos_div_eucl a' b in
      let r' = add (mul (Zpos (XO XH)) r) (Zpos XH) in
      if ltb r' b
      then ((mul (Zpos (XO XH)) q), r')
      else ((add (mul (Zpos (XO XH)) q) (Zpos XH)), (sub r' b))
    | XO a' ->
      let (q, r) = pos_div_eucl a' b in
      let r' = mul (Zpos (XO XH)) r in
      if ltb r' b
      then ((mul (Zpos (XO XH)) q), r')
      else ((add (mul (Zpos (XO XH)) q) (Zpos XH)), (sub r' b))
    | XH -> if leb (Zpos (XO XH)) b then (Z0, (Zpos XH)) else ((Zpos XH), Z0)

  (** val div_eucl : z -> z -> z * z **)

  let div_eucl a b =
    match a with
    | Z0 -> (Z0, Z0)
    | Zpos a' ->
      (match b with
       | Z0 -> (Z0, a)
       | Zpos _ -> pos_div_eucl a' b
       | Zneg b' ->
         let (q, r) = pos_div_eucl a' (Zpos b') in
         (match r with
          | Z0 -> ((opp q), Z0)
          | _ -> ((opp (add q (Zpos XH))), (add b r))))
    | Zneg a' ->
      (match b with
       | Z0 -> (Z0, a)
       | Zpos _ ->
         let (q, r) = pos_div_eucl a' b in
         (match r with
          | Z0 -> ((opp q), Z0)
          | _ -> ((opp (add q (Zpos XH))), (sub b r)))
       | Zneg b' -> let (q, r) = pos_div_eucl a' (Zpos b') in (q, (opp r)))

  (** val div : z -> z -> z **)

  let div a b =
    let (q, _) = div_eucl a b in q

  (** val modulo : z -> z -> z **)

  let modulo a b =
    let (_, r) = div_eucl a b in r
 end

type enc =
| E_ASCII
| E_BYTE
| E_UTF8
| E_UTF16LE
| E_UTF16BE

(** val enc_eqb : enc -> enc -> bool **)

let enc_eqb a b =
  match a with
  | E_ASCII -> (match b with
                | E_ASCII -> true
                | _ -> false)
  | E_BYTE -> (match b with
               | E_BYTE -> true
               | _ -> false)
  | E_UTF8 -> (match b with
               | E_UTF8 -> true
               | _ -> false)
  | E_UTF16LE -> (match b with
                  | E_UTF16LE -> true
                  | _ -> false)
  | E_UTF16BE -> (match b with
                  | E_UTF16BE -> true
                  | _ -> false)

(** val encode_utf8 : z -> z list **)

let encode_utf8 ch =
  if Z.ltb ch Z0
  then []
  else if Z.ltb ch (Zpos (XO (XO (XO (XO (XO (XO (XO XH))))))))
       then ch :: []
       else if Z.ltb ch (Zpos (XO (XO (XO (XO (XO (XO (XO (XO (XO (XO (XO
                 XH))))))))))))
            then (Z.add (Zpos (XO (XO (XO (XO (XO (XO (XI XH))))))))
                   (Z.div ch (Zpos (XO (XO (XO (XO (XO (XO XH))))))))) :: (
                   (Z.add (Zpos (XO (XO (XO (XO (XO (XO (XO XH))))))))
                     (Z.modulo ch (Zpos (XO (XO (XO (XO (XO (XO XH))))))))) :: [])
            else if Z.ltb ch (Zpos (XO (XO (XO (XO (XO (XO (XO (XO (XO (XO
                      (XO (XO (XO (XO (XO (XO XH)))))))))))))))))
                 then (Z.add (Zpos (XO (XO (XO (XO (XO (XI (XI XH))))))))
                        (Z.div ch (Zpos (XO (XO (XO (XO (XO (XO (XO (XO (XO
                          (XO (XO (XO XH))))))))))))))) :: ((Z.add (Zpos (XO
                                                              (XO (XO (XO (XO
                                                              (XO (XO
                                                              XH))))))))
                                                              (Z.modulo
                                                                (Z.div ch
                                                                  (Zpos (XO
                                                                  (XO (XO (XO
                                                                  (XO (XO
                                                                  XH))))))))
                                                                (Zpos (XO (XO
                                                                (XO (XO (XO
                                                                (XO XH))))))))) :: (
                        (Z.add (Zpos (XO (XO (XO (XO (XO (XO (XO XH))))))))
                          (Z.modulo ch (Zpos (XO (XO (XO (XO (XO (XO
                            XH))))))))) :: []))
                 else if Z.ltb ch (Zpos (XO (XO (XO (XO (XO (XO (XO (XO (XO
                           (XO (XO (XO (XO (XO (XO (XO (XO (XO (XO (XO (XO
                           XH))))))))))))))))))))))
                      then (Z.add (Zpos (XO (XO (XO (XO (XI (XI (XI
                             XH))))))))
                             (Z.div ch (Zpos (XO (XO (XO (XO (XO (XO (XO (XO
                               (XO (XO (XO (XO (XO (XO (XO (XO (XO (XO
                               XH))))))))))))))))))))) :: ((Z.add (Zpos (XO
                                                             (XO (XO (XO (XO
                                                             (XO (XO
                                                             XH))))))))
                                                             (Z.modulo
                                                               (Z.div ch
                                                                 (Zpos (XO
                                                                 (XO (XO (XO
                                                                 (XO (XO (XO
                                                                 (XO (XO (XO
                                                                 (XO (XO
                                                                 XH))))))))))))))
                                                               (Zpos (XO (XO
                                                               (XO (XO (XO
                                                               (XO XH))))))))) :: (
                             (Z.add (Zpos (XO (XO (XO (XO (XO (XO (XO
                               XH))))))))
                               (Z.modulo
                                 (Z.div ch (Zpos (XO (XO (XO (XO (XO (XO
                                   XH)))))))) (Zpos (XO (XO (XO (XO (XO (XO
                                 XH))))))))) :: ((Z.add (Zpos (XO (XO (XO (XO
                                                   (XO (XO (XO XH))))))))
                                                   (Z.modulo ch (Zpos (XO (XO
                                                     (XO (XO (XO (XO
                                                     XH))))))))) :: [])))
                      else if Z.ltb ch (Zpos (XO (XO (XO (XO (XO (XO (XO (XO
                                (XO (XO (XO (XO (XO (XO (XO (XO (XO (XO (XO
                                (XO (XO (XO (XO (XO (XO (XO
                                XH)))))))))))))))))))))))))))
                           then (Z.add (Zpos (XO (XO (XO (XI (XI (XI (XI
                                  XH))))))))
                                  (Z.div ch (Zpos (XO (XO (XO (XO (XO (XO (XO
                                    (XO (XO (XO (XO (XO (XO (XO (XO (XO (XO
                                    (XO (XO (XO (XO (XO (XO (XO
                                    XH))))))))))))))))))))))))))) :: (
                                  (Z.add (Zpos (XO (XO (XO (XO (XO (XO (XO
                                    XH))))))))
                                    (Z.modulo
                                      (Z.div ch (Zpos (XO (XO (XO (XO (XO (XO
                                        (XO (XO (XO (XO (XO (XO (XO (XO (XO
                                        (XO (XO (XO XH))))))))))))))))))))
                                      (Zpos (XO (XO (XO (XO (XO (XO XH))))))))) :: (
                                  (Z.add (Zpos (XO (XO (XO (XO (XO (XO (XO
                                    XH))))))))
                                    (Z.modulo
                                      (Z.div ch (Zpos (XO (XO (XO (XO (XO (XO
                                        (XO (XO (XO (XO (XO (XO
                                        XH)))))))))))))) (Zpos (XO (XO (XO
                                      (XO (XO (XO XH))))))))) :: ((Z.add
                                                                    (Zpos (XO
                                                                    (XO (XO
                                                                    (XO (XO
                                                                    (XO (XO
                                                                    XH))))))))
                                                                    (Z.modulo
                                                                    (Z.div ch
                                                                    (Zpos (XO
                                                                    (XO (XO
                                                                    (XO (XO
                                                                    (XO
                                                                    XH))))))))
                                                                    (Zpos (XO
                                                                    (XO (XO
                                                                    (XO (XO
                                                                    (XO
                                                                    XH))))))))) :: (
                                  (Z.add (Zpos (XO (XO (XO (XO (XO (XO (XO
                                    XH))))))))
                                    (Z.modulo ch (Zpos (XO (XO (XO (XO (XO
                                      (XO XH))))))))) :: []))))
                           else (Z.add (Zpos (XO (XO (XI (XI (XI (XI (XI
                                  XH))))))))
                                  (Z.div ch (Zpos (XO (XO (XO (XO (XO (XO (XO
                                    (XO (XO (XO (XO (XO (XO (XO (XO (XO (XO
                                    (XO (XO (XO (XO (XO (XO (XO (XO (XO (XO
                                    (XO (XO (XO
                                    XH))))))))))))))))))))))))))))))))) :: (
                                  (Z.add (Zpos (XO (XO (XO (XO (XO (XO (XO
                                    XH))))))))
                                    (Z.modulo
                                      (Z.div ch (Zpos (XO (XO (XO (XO (XO (XO
                                        (XO (XO (XO (XO (XO (XO (XO (XO (XO
                                        (XO (XO (XO (XO (XO (XO (XO (XO (XO
                                        XH)))))))))))))))))))))))))) (Zpos
                                      (XO (XO (XO (XO (XO (XO XH))))))))) :: (
                                  (Z.add (Zpos (XO (XO (XO (XO (XO (XO (XO
                                    XH))))))))
                                    (Z.modulo
                                      (Z.div ch (Zpos (XO (XO (XO (XO (XO (XO
                                        (XO (XO (XO (XO (XO (XO (XO (XO (XO
                                        (XO (XO (XO XH))))))))))))))))))))
                                      (Zpos (XO (XO (XO (XO (XO (XO XH))))))))) :: (
                                  (Z.add (Zpos (XO (XO (XO (XO (XO (XO (XO
                                    XH))))))))
                                    (Z.modulo
                                      (Z.div ch (Zpos (XO (XO (XO (XO (XO (XO
                                        (XO (XO (XO (XO (XO (XO
                                        XH)))))))))))))) (Zpos (XO (XO (XO
                                      (XO (XO (XO XH))))))))) :: ((Z.add
                                                                    (Zpos (XO
                                                                    (XO (XO
                                                                    (XO (XO
                                                                    (XO (XO
                                                                    XH))))))))
                                                                    (Z.modulo
                                                                    (Z.div ch
                                                                    (Zpos (XO
                                                                    (XO (XO
                                                                    (XO (XO
                                                                    (XO
                                                                    XH))))))))
                                                                    (Zpos (XO
                                                                    (XO (XO
                                                                    (XO (XO
                                                                    (XO
                                                                    XH))))))))) :: (
                                  (Z.add (Zpos (XO (XO (XO (XO (XO (XO (XO
                                    XH))))))))
                                    (Z.modulo ch (Zpos (XO (XO (XO (XO (XO
                                      (XO XH))))))))) :: [])))))

(** val utf8_lead : z -> (nat * z) option **)

let utf8_lead b =
  if (&&) (Z.leb (Zpos (XO (XO (XO (XO (XO (XO (XI XH)))))))) b)
       (Z.ltb b (Zpos (XO (XO (XO (XO (XO (XI (XI XH)))))))))
  then Some ((S O), (Z.modulo b (Zpos (XO (XO (XO (XO (XO XH))))))))
  else if (&&) (Z.leb (Zpos (XO (XO (XO (XO (XO (XI (XI XH)))))))) b)
            (Z.ltb b (Zpos (XO (XO (XO (XO (XI (XI (XI XH)))))))))
       then Some ((S (S O)), (Z.modulo b (Zpos (XO (XO (XO (XO XH)))))))
       else if (&&) (Z.leb (Zpos (XO (XO (XO (XO (XI (XI (XI XH)))))))) b)
                 (Z.ltb b (Zpos (XO (XO (XO (XI (XI (XI (XI XH)))))))))
            then Some ((S (S (S O))), (Z.modulo b (Zpos (XO (XO (XO XH))))))
            else if (&&)
                      (Z.leb (Zpos (XO (XO (XO (XI (XI (XI (XI XH)))))))) b)
                      (Z.ltb b (Zpos (XO (XO (XI (XI (XI (XI (XI XH)))))))))
                 then Some ((S (S (S (S O)))),
                        (Z.modulo b (Zpos (XO (XO XH)))))
                 else if (&&)
                           (Z.leb (Zpos (XO (XO (XI (XI (XI (XI (XI
                             XH)))))))) b)
                           (Z.ltb b (Zpos (XO (XI (XI (XI (XI (XI (XI
                             XH)))))))))
                      then Some ((S (S (S (S (S O))))),
                             (Z.modulo b (Zpos (XO XH))))
                      else None

(** val is_cont : z -> bool **)

let is_cont b =
  (&&) (Z.leb (Zpos (XO (XO (XO (XO (XO (XO (XO XH)))))))) b)
    (Z.ltb b (Zpos (XO (XO (XO (XO (XO (XO (XI XH)))))))))

(** val utf8_min : nat -> z **)

let utf8_min = function
| O -> Z0
| S n ->
  (match n with
   | O -> Zpos (XO (XO (XO (XO (XO (XO (XO XH)))))))
   | S n0 ->
     (match n0 with
      | O -> Zpos (XO (XO (XO (XO (XO (XO (XO (XO (XO (XO (XO XH)))))))))))
      | S n1 ->
        (match n1 with
         | O ->
           Zpos (XO (XO (XO (XO (XO (XO (XO (XO (XO (XO (XO (XO (XO (XO (XO
             (XO XH))))))))))))))))
         | S n2 ->
           (match n2 with
            | O ->
              Zpos (XO (XO (XO (XO (XO (XO (XO (XO (XO (XO (XO (XO (XO (XO
                (XO (XO (XO (XO (XO (XO (XO XH)))))))))))))))))))))
            | S n3 ->
              (match n3 with
               | O ->
                 Zpos (XO (XO (XO (XO (XO (XO (XO (XO (XO (XO (XO (XO (XO (XO
                   (XO (XO (XO (XO (XO (XO (XO (XO (XO (XO (XO (XO
                   XH))))))))))))))))))))))))))
               | S _ -> Z0)))))

(** val dec8 : bool -> ((nat * nat) * z) option -> z list -> z list option **)

let rec dec8 check_min st = function
| [] -> (match st with
         | Some _ -> None
         | None -> Some [])
| b :: r ->
  (match st with
   | Some p ->
     let (p0, ch) = p in
     let (total, cnt) = p0 in
     if is_cont b
     then let ch' =
            Z.add (Z.mul ch (Zpos (XO (XO (XO (XO (XO (XO XH))))))))
              (Z.modulo b (Zpos (XO (XO (XO (XO (XO (XO XH))))))))
          in
          (match cnt with
           | O -> None
           | S c ->
             (match c with
              | O ->
                if (&&) check_min (Z.ltb ch' (utf8_min total))
                then None
                else option_map (fun x -> ch' :: x) (dec8 check_min None r)
              | S _ -> dec8 check_min (Some ((total, c), ch')) r))
     else None
   | None ->
     if Z.ltb b (Zpos (XO (XO (XO (XO (XO (XO (XO XH))))))))
     then option_map (fun x -> b :: x) (dec8 check_min None r)
     else (match utf8_lead b with
           | Some p ->
             let (cnt, ch0) = p in dec8 check_min (Some ((cnt, cnt), ch0)) r
           | None -> None))

(** val has_utf8_bom : z list -> bool **)

let has_utf8_bom = function
| [] -> false
| b0 :: l ->
  (match l with
   | [] -> false
   | b1 :: l0 ->
     (match l0 with
      | [] -> false
      | b2 :: _ ->
        (&&)
          ((&&) (Z.eqb b0 (Zpos (XI (XI (XI (XI (XO (XI (XI XH)))))))))
            (Z.eqb b1 (Zpos (XI (XI (XO (XI (XI (XI (XO XH))))))))))
          (Z.eqb b2 (Zpos (XI (XI (XI (XI (XI (XI (XO XH)))))))))))

(** val decode_utf8 : bool -> z list -> z list option **)

let decode_utf8 check_min bs =
  dec8 check_min None (if has_utf8_bom bs then skipn (S (S (S O))) bs else bs)

(** val word : bool -> z -> z -> z **)

let word be b0 b1 =
  if be
  then Z.add (Z.mul b0 (Zpos (XO (XO (XO (XO (XO (XO (XO (XO XH)))))))))) b1
  else Z.add b0 (Z.mul b1 (Zpos (XO (XO (XO (XO (XO (XO (XO (XO XH))))))))))

(** val dec16 : bool -> z option -> z list -> z list option **)

let rec dec16 be hi = function
| [] -> (match hi with
         | Some _ -> None
         | None -> Some [])
| b0 :: l ->
  (match l with
   | [] -> None
   | b1 :: r ->
     let w = word be b0 b1 in
     (match hi with
      | Some h ->
        if (&&)
             (Z.leb (Zpos (XO (XO (XO (XO (XO (XO (XO (XO (XO (XO (XI (XI (XI
               (XO (XI XH)))))))))))))))) w)
             (Z.ltb w (Zpos (XO (XO (XO (XO (XO (XO (XO (XO (XO (XO (XO (XO
               (XO (XI (XI XH)))))))))))))))))
        then option_map (fun x ->
               (Z.add
                 (Z.add
                   (Z.mul h (Zpos (XO (XO (XO (XO (XO (XO (XO (XO (XO (XO
                     XH))))))))))))
                   (Z.modulo w (Zpos (XO (XO (XO (XO (XO (XO (XO (XO (XO (XO
                     XH))))))))))))) (Zpos (XO (XO (XO (XO (XO (XO (XO (XO
                 (XO (XO (XO (XO (XO (XO (XO (XO XH)))))))))))))))))) :: x)
               (dec16 be None r)
        else None
      | None ->
        if (&&)
             (Z.leb (Zpos (XO (XO (XO (XO (XO (XO (XO (XO (XO (XO (XO (XI (XI
               (XO (XI XH)))))))))))))))) w)
             (Z.ltb w (Zpos (XO (XO (XO (XO (XO (XO (XO (XO (XO (XO (XI (XI
               (XI (XO (XI XH)))))))))))))))))
        then dec16 be (Some
               (Z.modulo w (Zpos (XO (XO (XO (XO (XO (XO (XO (XO (XO (XO
                 XH))))))))))))) r
        else if (||)
                  (Z.ltb w (Zpos (XO (XO (XO (XO (XO (XO (XO (XO (XO (XO (XO
                    (XI (XI (XO (XI XH)))))))))))))))))
                  (Z.leb (Zpos (XO (XO (XO (XO (XO (XO (XO (XO (XO (XO (XO
                    (XO (XO (XI (XI XH)))))))))))))))) w)
             then option_map (fun x -> w :: x) (dec16 be None r)
             else None))

(** val nth_byte : z list -> nat -> z **)

let nth_byte bs i =
  nth i bs (Zneg XH)

(** val bom16 : z list -> bool option **)

let bom16 = function
| [] -> None
| b0 :: l ->
  (match l with
   | [] -> None
   | b1 :: _ ->
     if (&&) (Z.eqb b0 (Zpos (XO (XI (XI (XI (XI (XI (XI XH)))))))))
          (Z.eqb b1 (Zpos (XI (XI (XI (XI (XI (XI (XI XH)))))))))
     then Some true
     else if (&&) (Z.eqb b0 (Zpos (XI (XI (XI (XI (XI (XI (XI XH)))))))))
               (Z.eqb b1 (Zpos (XO (XI (XI (XI (XI (XI (XI XH)))))))))
          then Some false
          else None)

(** val enc16 : bool -> enc **)

let enc16 = function
| true -> E_UTF16BE
| false -> E_UTF16LE

(** val decode_utf16 : z list -> (enc * z list) option **)

let decode_utf16 bs =
  let n = length bs in
  if Nat.odd n
  then None
  else if Nat.ltb n (S (S O))
       then None
       else (match bom16 bs with
             | Some be ->
               option_map (fun x -> ((enc16 be), x))
                 (dec16 be None (skipn (S (S O)) bs))
             | None ->
               if Nat.leb (S (S (S (S (S (S O)))))) n
               then if (&&)
                         ((&&) (Z.eqb (nth_byte bs O) Z0)
                           (Z.eqb (nth_byte bs (S (S O))) Z0))
                         (Z.eqb (nth_byte bs (S (S (S (S O))))) Z0)
                    then option_map (fun x -> (E_UTF16BE, x))
                           (dec16 true None bs)
                    else if (&&)
                              ((&&) (Z.eqb (nth_byte bs (S O)) Z0)
                                (Z.eqb (nth_byte bs (S (S (S O)))) Z0))
                              (Z.eqb (nth_byte bs (S (S (S (S (S O)))))) Z0)
                         then option_map (fun x -> (E_UTF16LE, x))
                                (dec16 false None bs)
                         else None
               else None)

(** val decode_bom : z list -> enc option **)

let decode_bom bs =
  match bom16 bs with
  | Some be -> Some (enc16 be)
  | None -> if has_utf8_bom bs then Some E_UTF8 else None

(** val count_if : (z -> bool) -> z list -> nat **)

let rec count_if p = function
| [] -> O
| b :: r -> if p b then S (count_if p r) else count_if p r

type decoded = { d_enc : enc; d_bom : bool; d_data : z list }

(** val decode_unicode : bool -> z list -> decoded option **)

let decode_unicode check_min bs =
  match decode_bom bs with
  | Some e ->
    (match e with
     | E_UTF8 ->
       option_map (fun d -> { d_enc = E_UTF8; d_bom = true; d_data = d })
         (decode_utf8 check_min bs)
     | _ ->
       option_map (fun ed -> { d_enc = (fst ed); d_bom = true; d_data =
         (snd ed) }) (decode_utf16 bs))
  | None ->
    let non_ascii =
      count_if (fun b ->
        Z.leb (Zpos (XO (XO (XO (XO (XO (XO (XO XH)))))))) b) bs
    in
    let zeros = count_if (fun b -> Z.eqb b Z0) bs in
    if Nat.eqb (add non_ascii zeros) O
    then Some { d_enc = E_ASCII; d_bom = false; d_data = bs }
    else let n = length bs in
         let try16 =
           if (&&) (Nat.ltb (Nat.div n (S (S (S (S O))))) zeros)
                (Nat.leb zeros (Nat.div n (S (S O))))
           then decode_utf16 bs
           else None
         in
         (match try16 with
          | Some ed ->
            Some { d_enc = (fst ed); d_bom = false; d_data = (snd ed) }
          | None ->
            (match decode_utf8 check_min bs with
             | Some d -> Some { d_enc = E_UTF8; d_bom = false; d_data = d }
             | None -> Some { d_enc = E_BYTE; d_bom = false; d_data = bs }))

(** val write_byte : z -> z list **)

let write_byte ch =
  if (&&) (Z.leb Z0 ch)
       (Z.ltb ch (Zpos (XO (XO (XO (XO (XO (XO (XO (XO XH))))))))))
  then ch :: []
  else []

(** val write_utf8 : z -> z list **)

let write_utf8 ch =
  flat_map write_byte (encode_utf8 ch)

(** val write_utf16 : bool -> z -> z list **)

let write_utf16 be ch =
  if (||)
       ((&&) (Z.leb Z0 ch)
         (Z.ltb ch (Zpos (XO (XO (XO (XO (XO (XO (XO (XO (XO (XO (XO (XI (XI
           (XO (XI XH))))))))))))))))))
       ((&&)
         (Z.leb (Zpos (XO (XO (XO (XO (XO (XO (XO (XO (XO (XO (XO (XO (XO (XI
           (XI XH)))))))))))))))) ch)
         (Z.ltb ch (Zpos (XO (XO (XO (XO (XO (XO (XO (XO (XO (XO (XO (XO (XO
           (XO (XO (XO XH)))))))))))))))))))
  then if be
       then app
              (write_byte
                (Z.div ch (Zpos (XO (XO (XO (XO (XO (XO (XO (XO XH)))))))))))
              (write_byte
                (Z.modulo ch (Zpos (XO (XO (XO (XO (XO (XO (XO (XO
                  XH)))))))))))
       else app
              (write_byte
                (Z.modulo ch (Zpos (XO (XO (XO (XO (XO (XO (XO (XO
                  XH)))))))))))
              (write_byte
                (Z.div ch (Zpos (XO (XO (XO (XO (XO (XO (XO (XO XH)))))))))))
  else if (&&)
            (Z.leb (Zpos (XO (XO (XO (XO (XO (XO (XO (XO (XO (XO (XO (XO (XO
              (XO (XO (XO XH))))))))))))))))) ch)
            (Z.ltb ch (Zpos (XO (XO (XO (XO (XO (XO (XO (XO (XO (XO (XO (XO
              (XO (XO (XO (XO (XI (XO (XO (XO XH))))))))))))))))))))))
       then let v1 =
              Z.sub ch (Zpos (XO (XO (XO (XO (XO (XO (XO (XO (XO (XO (XO (XO
                (XO (XO (XO (XO XH)))))))))))))))))
            in
            let w1 =
              Z.add (Zpos (XO (XO (XO (XO (XO (XO (XO (XO (XO (XO (XO (XI (XI
                (XO (XI XH))))))))))))))))
                (Z.div v1 (Zpos (XO (XO (XO (XO (XO (XO (XO (XO (XO (XO
                  XH))))))))))))
            in
            let w2 =
              Z.add (Zpos (XO (XO (XO (XO (XO (XO (XO (XO (XO (XO (XI (XI (XI
                (XO (XI XH))))))))))))))))
                (Z.modulo v1 (Zpos (XO (XO (XO (XO (XO (XO (XO (XO (XO (XO
                  XH))))))))))))
            in
            if be
            then app
                   (write_byte
                     (Z.div w1 (Zpos (XO (XO (XO (XO (XO (XO (XO (XO
                       XH)))))))))))
                   (app
                     (write_byte
                       (Z.modulo w1 (Zpos (XO (XO (XO (XO (XO (XO (XO (XO
                         XH)))))))))))
                     (app
                       (write_byte
                         (Z.div w2 (Zpos (XO (XO (XO (XO (XO (XO (XO (XO
                           XH)))))))))))
                       (write_byte
                         (Z.modulo w2 (Zpos (XO (XO (XO (XO (XO (XO (XO (XO
                           XH)))))))))))))
            else app
                   (write_byte
                     (Z.modulo w1 (Zpos (XO (XO (XO (XO (XO (XO (XO (XO
                       XH)))))))))))
                   (app
                     (write_byte
                       (Z.div w1 (Zpos (XO (XO (XO (XO (XO (XO (XO (XO
                         XH)))))))))))
                     (app
                       (write_byte
                         (Z.modulo w2 (Zpos (XO (XO (XO (XO (XO (XO (XO (XO
                           XH)))))))))))
                       (write_byte
                         (Z.div w2 (Zpos (XO (XO (XO (XO (XO (XO (XO (XO
                           XH)))))))))))))
       else []

(** val write_char : enc -> z -> z list **)

let write_char e ch =
  if Z.ltb ch Z0
  then []
  else (match e with
        | E_ASCII -> write_byte ch
        | E_BYTE ->
          write_byte
            (Z.modulo ch (Zpos (XO (XO (XO (XO (XO (XO (XO (XO XH))))))))))
        | E_UTF8 -> write_utf8 ch
        | E_UTF16LE -> write_utf16 false ch
        | E_UTF16BE -> write_utf16 true ch)

(** val write_bom : enc -> z list **)

let write_bom = function
| E_UTF8 ->
  (Zpos (XI (XI (XI (XI (XO (XI (XI XH)))))))) :: ((Zpos (XI (XI (XO (XI (XI
    (XI (XO XH)))))))) :: ((Zpos (XI (XI (XI (XI (XI (XI (XO
    XH)))))))) :: []))
| E_UTF16LE ->
  write_utf16 false (Zpos (XI (XI (XI (XI (XI (XI (XI (XI (XO (XI (XI (XI (XI
    (XI (XI XH))))))))))))))))
| E_UTF16BE ->
  write_utf16 true (Zpos (XI (XI (XI (XI (XI (XI (XI (XI (XO (XI (XI (XI (XI
    (XI (XI XH))))))))))))))))
| _ -> []

(** val write_string : enc -> z list -> z list **)

let write_string e cps =
  flat_map (write_char e) cps

type iarf =
| Ignore
| Add
| Remove
| Force

type enc_opts = { utf8_bom : iarf; utf8_byte : bool; utf8_force : bool }

(** val out_enc : enc_opts -> enc -> enc **)

let out_enc o e =
  if (||) o.utf8_force ((&&) (enc_eqb e E_BYTE) o.utf8_byte)
  then E_UTF8
  else e

(** val out_bom : enc_opts -> enc -> bool -> bool **)

let out_bom o e_out bom_in =
  let av =
    match e_out with
    | E_ASCII -> Ignore
    | E_BYTE -> Ignore
    | E_UTF8 -> o.utf8_bom
    | _ -> Force
  in
  (match av with
   | Ignore -> bom_in
   | Remove -> false
   | _ -> true)

(** val has_embedded_nul : z list -> bool **)

let rec has_embedded_nul = function
| [] -> false
| c :: r ->
  (match r with
   | [] -> false
   | _ :: _ -> (||) (Z.eqb c Z0) (has_embedded_nul r))

type outcome =
| Refused
| Written of z list

(** val run_file :
    bool -> enc_opts -> (z list -> z list) -> z list -> outcome **)

let run_file check_min o f bs =
  match decode_unicode check_min bs with
  | Some d ->
    if has_embedded_nul d.d_data
    then Refused
    else let e = out_enc o d.d_enc in
         let b = out_bom o e d.d_bom in
         Written
         (app (if b then write_bom e else []) (write_string e (f d.d_data)))
  | None -> Refused

(** val repo_check_min : bool **)

let repo_check_min =
  true
