(** * Model E: the file protocol of do_source_file() (in-place rewrite, backup, --check, --if-changed).
    Hand-written model of /repo/src/uncrustify.cpp do_source_file(), load_mem_file(),
    file_content_matches(), bout_content_matches() and /repo/src/backup.cpp, as the sequence of
    libc-level file operations they issue on an abstract file system, as a function of the mode flags,
    of the formatter result, of a fault plan (which operation fails / on which write the device becomes
    full) and of a crash point.  Definitions only; extracted and run against the binary under the
    LD_PRELOAD interposer /verif/shim/fsshim.c, which numbers logical operations the same way. *)
From Coq Require Import List ZArith Bool Arith.
Import ListNotations.

Definition bytes := list Z.

Fixpoint bytes_eqb (a b : bytes) : bool :=
  match a, b with
  | [], [] => true
  | x :: a', y :: b' => Z.eqb x y && bytes_eqb a' b'
  | _, _ => false
  end.

Inductive role := RIn | ROut | RTmp | RBackup | RMd5.

Definition role_eqb (a b : role) : bool :=
  match a, b with
  | RIn, RIn | ROut, ROut | RTmp, RTmp | RBackup, RBackup | RMd5, RMd5 => true
  | _, _ => false
  end.

(** what a file holds.  A file that is open for writing holds, on disk, SOME PREFIX of what was
    written so far (stdio buffering): [Writing]. *)
Inductive content :=
| Data (b : bytes)
| Digest (b : bytes)       (* the md5 file: the line "<md5 of b>  <name>" (md5 abstracted, see FsProofs) *)
| DigestPrefix (b : bytes) (j : nat).   (* only the first j characters of that line *)

Inductive fstate :=
| Absent
| Closed (c : content)
| Writing (c : content) (err : bool).   (* err: a write failed (device full): ferror()/fclose() report it *)

Inductive opk :=
| KStat | KFopenR | KFopenW | KFread | KFclose | KWrite | KRename | KUnlink | KOpen | KRead | KClose | KUtime.

Record ev := { e_op : opk; e_role : role; e_ok : bool }.

Inductive fault := FFail | FFull (j : nat).

Record plan := {
  faults : nat -> option fault;         (* by logical operation index *)
  crash : option (nat * option nat)     (* Some (k, None): killed before op k; Some (k, Some j): op k is a
                                           write, killed after j bytes of it reached the disk *)
}.

Record st := { disk : role -> fstate; nop : nat; trace : list ev }.

Inductive res (A : Type) :=
| Ok (a : A) (s : st)
| Stop (code : option Z) (s : st).     (* Some c = exit(c); None = killed *)
Arguments Ok {A}. Arguments Stop {A}.

Definition M (A : Type) := st -> res A.
Definition ret {A} (a : A) : M A := fun s => Ok a s.
Definition bind {A B} (m : M A) (f : A -> M B) : M B :=
  fun s => match m s with Ok a s' => f a s' | Stop c s' => Stop c s' end.
Definition exit_ {A} (c : Z) : M A := fun s => Stop (Some c) s.
Notation "x <- m ;; k" := (bind m (fun x => k)) (at level 61, m at next level, right associativity).
Notation "m ;;; k" := (bind m (fun _ => k)) (at level 61, right associativity).

Definition upd (d : role -> fstate) (r : role) (f : fstate) : role -> fstate :=
  fun r' => if role_eqb r r' then f else d r'.

Section Proto.
  Variable pl : plan.

  (** begin logical operation: crash check, fault lookup, count *)
  Definition begin_op : M (option fault) :=
    fun s =>
      match crash pl with
      | Some (k, None) => if Nat.eqb k (nop s) then Stop None s
                          else Ok (faults pl (nop s)) {| disk := disk s; nop := S (nop s); trace := trace s |}
      | _ => Ok (faults pl (nop s)) {| disk := disk s; nop := S (nop s); trace := trace s |}
      end.

  Definition crashw_here (s : st) : option nat :=     (* evaluated after begin_op: index is nop - 1 *)
    match crash pl with
    | Some (k, Some j) => if Nat.eqb (S k) (nop s) then Some j else None
    | _ => None
    end.

  Definition log (o : opk) (r : role) (ok : bool) : M unit :=
    fun s => Ok tt {| disk := disk s; nop := nop s; trace := trace s ++ [{| e_op := o; e_role := r; e_ok := ok |}] |}.

  Definition get (r : role) : M fstate := fun s => Ok (disk s r) s.
  Definition put (r : role) (f : fstate) : M unit :=
    fun s => Ok tt {| disk := upd (disk s) r f; nop := nop s; trace := trace s |}.

  Definition exists_ (f : fstate) : bool := match f with Absent => false | _ => true end.

  (** stat / fopen "rb" / open: succeed iff the file exists and no fault *)
  Definition op_probe (o : opk) (r : role) : M bool :=
    f <- begin_op ;;
    cur <- get r ;;
    let ok := match f with Some _ => false | None => exists_ cur end in
    log o r ok ;;; ret ok.

  (** read the whole (closed) file: fread / fgets / read *)
  Definition op_read (o : opk) (r : role) : M (option content) :=
    f <- begin_op ;;
    cur <- get r ;;
    log o r true ;;;
    ret (match f, cur with
         | None, Closed c => Some c
         | None, Writing c _ => Some c
         | _, _ => None
         end).

  Definition op_close (r : role) : M unit :=                (* close(fd): result ignored, never failed *)
    _ <- begin_op ;; log KClose r true.

  Definition op_simple (o : opk) (r : role) : M bool :=     (* fclose of a read stream, utime *)
    f <- begin_op ;;
    let ok := match f with Some _ => false | None => true end in
    log o r ok ;;; ret ok.

  (** fopen "wb": creates / truncates *)
  Definition op_fopen_w (r : role) : M bool :=
    f <- begin_op ;;
    match f with
    | Some _ => log KFopenW r false ;;; ret false
    | None => put r (Writing (Data []) false) ;;; log KFopenW r true ;;; ret true
    end.

  Definition app_content (c : content) (d : content) (j : option nat) : content :=
    match c, d with
    | Data a, Data b => Data (a ++ match j with Some n => firstn n b | None => b end)
    | Data [], Digest b => match j with None => Digest b | Some n => DigestPrefix b n end
    | c, _ => c
    end.

  (** one logical write of [d] to the open stream on [r] *)
  (** a limit of [j] bytes only bites when the write is longer than [j] (the interposer arms the
      failure before the (j+1)-th byte) *)
  Definition bites (d : content) (j : nat) : bool :=
    match d with Data b => Nat.ltb j (length b) | _ => true end.

  Definition eff_fault (d : content) (f0 : option fault) : option fault :=
    match f0 with
    | Some (FFull j) => if bites d j then f0 else None
    | Some FFail => if bites d 0 then f0 else None      (* nothing to write: nothing can fail *)
    | None => None
    end.
  Definition eff_crash (d : content) (c : option nat) : option nat :=
    match c with Some j => if bites d j then Some j else None | None => None end.

  Definition op_write (r : role) (d : content) : M unit :=
    f0 <- begin_op ;;
    log KWrite r true ;;;
    cur <- get r ;;
    fun s =>
      match cur with
      | Writing c e =>
        match eff_crash d (crashw_here s) with
        | Some j => Stop None {| disk := upd (disk s) r (Writing (app_content c d (Some j)) e); nop := nop s; trace := trace s |}
        | None =>
          match eff_fault d f0 with
          | None => if e then Ok tt s   (* device already full: nothing more reaches the file *)
                    else Ok tt {| disk := upd (disk s) r (Writing (app_content c d None) e); nop := nop s; trace := trace s |}
          | Some FFail => Ok tt {| disk := upd (disk s) r (Writing c true); nop := nop s; trace := trace s |}
          | Some (FFull j) =>
            if e then Ok tt s
            else Ok tt {| disk := upd (disk s) r (Writing (app_content c d (Some j)) true); nop := nop s; trace := trace s |}
          end
        end
      | _ => Ok tt s
      end.

  (** fclose of a write stream: flushes; returns false when a write failed or the close itself fails *)
  Definition op_fclose_w (r : role) : M bool :=
    f <- begin_op ;;
    cur <- get r ;;
    match cur with
    | Writing c e =>
      let ok := negb e && match f with Some _ => false | None => true end in
      put r (Closed c) ;;; log KFclose r ok ;;; ret ok
    | _ => log KFclose r false ;;; ret false
    end.

  Definition op_rename (a b : role) : M bool :=
    f <- begin_op ;;
    cur <- get a ;;
    match f, cur with
    | None, Closed c => put b (Closed c) ;;; put a Absent ;;; log KRename a true ;;; ret true
    | _, _ => log KRename a false ;;; ret false
    end.

  Definition op_unlink (r : role) : M bool :=
    f <- begin_op ;;
    match f with
    | Some _ => log KUnlink r false ;;; ret false
    | None => put r Absent ;;; log KUnlink r true ;;; ret true
    end.

  (** ** the program *)
  Record mode := {
    in_place : bool;        (* filename_out == filename_in : --replace, --no-backup, -o equal to -f *)
    to_file : bool;         (* an output file name exists (else stdout) *)
    no_backup : bool;
    if_changed : bool;
    do_check : bool;
    keep_mtime : bool
  }.

  Variable md : mode.
  Variable fmt : bytes -> option bytes.     (* the formatter: None = formatting fails (exit before output) *)

  Definition EX_IOERR : Z := 74.
  Definition EX_SOFTWARE : Z := 70.
  Definition EX_FMT : Z := 70.               (* representative: any non-zero status of a formatting failure *)

  Definition content_eqb (a b : content) : bool :=
    match a, b with
    | Data x, Data y | Digest x, Digest y => bytes_eqb x y
    | DigestPrefix x i, DigestPrefix y j => bytes_eqb x y && Nat.eqb i j
    | _, _ => false
    end.

  Definition bytes_of (c : content) : bytes := match c with Data b => b | Digest b => b | DigestPrefix b _ => b end.

  (** load_mem_file *)
  Definition load : M bytes :=
    ok <- op_probe KStat RIn ;;
    if negb ok then exit_ EX_IOERR else
    cur <- get RIn ;;
    ok2 <- op_probe KFopenR RIn ;;
    if negb ok2 then exit_ EX_IOERR else
    match cur with
    | Closed (Data []) => op_simple KFclose RIn ;;; ret []
    | _ =>
      c <- op_read KFread RIn ;;
      match c with
      | Some (Data b) => op_simple KFclose RIn ;;; ret b
      | _ => exit_ EX_IOERR
      end
    end.

  (** backup_copy_file *)
  Definition backup_copy (orig : bytes) : M unit :=
    okm <- op_probe KFopenR RMd5 ;;
    recorded <- (if okm then (c <- op_read KFread RMd5 ;; op_simple KFclose RMd5 ;;; ret c) else ret None) ;;
    let same := match recorded with
                | Some (Digest b) => bytes_eqb b orig
                | Some (DigestPrefix b j) => (32 <=? j)%nat && bytes_eqb b orig   (* the 32 hex digits are there *)
                | _ => false
                end in
    if same then ret tt else
    okb <- op_fopen_w RBackup ;;
    if negb okb then exit_ EX_SOFTWARE else
    op_write RBackup (Data orig) ;;;
    okc <- op_fclose_w RBackup ;;
    if okc then ret tt else exit_ EX_SOFTWARE.

  (** file_content_matches(tmp, out), for files below the 1024-byte read buffer *)
  Definition content_matches (a b : role) : M bool :=
    sa <- op_probe KStat a ;;
    ca <- get a ;;
    if negb sa then ret false else
    sb <- op_probe KStat b ;;
    cb <- get b ;;
    if negb sb then ret false else
    let la := match ca with Closed c => length (bytes_of c) | _ => O end in
    let lb := match cb with Closed c => length (bytes_of c) | _ => O end in
    if negb (Nat.eqb la lb) then ret false else
    oa <- op_probe KOpen a ;;
    if negb oa then ret false else
    ob <- op_probe KOpen b ;;
    if negb ob then (op_close a ;;; ret false) else
    ra <- op_read KRead a ;;
    rb <- op_read KRead b ;;
    match ra, rb with
    | Some x, Some y =>
      if Nat.eqb la O then (op_close a ;;; op_close b ;;; ret true)
      else if content_eqb x y then
        ra2 <- op_read KRead a ;; rb2 <- op_read KRead b ;;
        op_close a ;;; op_close b ;;;
        ret (match ra2, rb2 with Some _, Some _ => true | _, _ => false end)
      else (op_close a ;;; op_close b ;;; ret false)
    | _, _ => op_close a ;;; op_close b ;;; ret false
    end.

  (** backup_create_md5_file(filename, content_filename): digest of the NEW content, read from [src] *)
  Definition create_md5 (src : role) : M unit :=
    ok <- op_probe KFopenR src ;;
    if negb ok then exit_ EX_SOFTWARE else
    c <- op_read KFread src ;;
    op_simple KFclose src ;;;
    okw <- op_fopen_w RMd5 ;;
    if negb okw then ret tt else
    op_write RMd5 (Digest (match c with Some x => bytes_of x | None => [] end)) ;;;
    op_fclose_w RMd5 ;;; ret tt.

  (** result of the run besides the file system: what went to stdout, --check verdict *)
  Record out := { stdout : bytes; check_fail : bool }.

  Definition write_out (pre : option bytes) (orig : bytes) : M out :=
    let tmp := if in_place md then RTmp else ROut in
    let target := if in_place md then RIn else ROut in
    (if in_place md && negb (no_backup md) then backup_copy orig else ret tt) ;;;
    okt <- op_fopen_w tmp ;;
    if negb okt then exit_ EX_IOERR else
    match (match pre with Some f => Some f | None => fmt orig end) with
    | None => exit_ EX_FMT
    | Some f =>
      (match f with [] => ret tt | _ => op_write tmp (Data f) end) ;;;
      okc <- op_fclose_w tmp ;;
      if negb okc then
        ((if in_place md then op_unlink tmp else ret true) ;;; exit_ EX_IOERR)
      else
        (* the md5 of the new content is recorded BEFORE the rename (fix 8156994) *)
        (if in_place md && negb (no_backup md) then create_md5 tmp else ret tt) ;;;
        (if in_place md then
           same <- (if if_changed md then ret false else content_matches tmp target) ;;
           if same then (op_unlink tmp ;;; ret tt)
           else (okr <- op_rename tmp target ;; if okr then ret tt else exit_ EX_IOERR)
         else ret tt) ;;;
        (if keep_mtime md then (op_simple KUtime RIn ;;; ret tt) else ret tt) ;;;
        ret {| stdout := []; check_fail := false |}
    end.

  Definition after_load (orig : bytes) (pre : option bytes) : M out :=
    if do_check md then
      match fmt orig with
      | None => exit_ EX_FMT
      | Some f => ret {| stdout := []; check_fail := negb (bytes_eqb f orig) |}
      end
    else if negb (to_file md) then
      match (match pre with Some f => Some f | None => fmt orig end) with
      | None => exit_ EX_FMT
      | Some f => ret {| stdout := f; check_fail := false |}
      end
    else write_out pre orig.

  Definition do_source_file : M out :=
    orig <- load ;;
    if if_changed md then
      match fmt orig with
      | None => exit_ EX_FMT
      | Some f => if bytes_eqb f orig then ret {| stdout := []; check_fail := false |}
                  else after_load orig (Some f)
      end
    else after_load orig None.

  Record result := { r_disk : role -> fstate; r_exit : option Z; r_trace : list ev; r_out : option out; r_ops : nat }.

  Definition run (d0 : role -> fstate) : result :=
    match do_source_file {| disk := d0; nop := O; trace := [] |} with
    | Ok o s => {| r_disk := disk s; r_exit := Some (if check_fail o then 1 else 0)%Z; r_trace := trace s;
                   r_out := Some o; r_ops := nop s |}
    | Stop c s => {| r_disk := disk s; r_exit := c; r_trace := trace s; r_out := None; r_ops := nop s |}
    end.
End Proto.

Definition no_plan : plan := {| faults := fun _ => None; crash := None |}.

Definition disk0 (orig : bytes) : role -> fstate := fun r => match r with RIn => Closed (Data orig) | _ => Absent end.
