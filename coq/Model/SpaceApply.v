(** * Model G: what a spacing decision means.
    [ret_values]: the values a do_space() site can return for a configured value (from its shape).
    [ensure_force]: ensure_force_space().  [apply_gap]: the column arithmetic of the switch in
    space_text() (src/space.cpp) for a pair that is not a virtual brace and not a trailing comment. *)
From Coq Require Import List ZArith Bool.
From UV Require Import Model.SpaceDefs.
Import ListNotations.
Local Open Scope Z_scope.

(** IARF values: 0 ignore, 1 add, 2 remove, 3 force; [|] is bitwise *)
Definition ior (a b : Z) : Z := Z.lor a b.

Definition ret_values (sh : shape) (c v : Z) : list Z :=
  match sh with
  | SOpt => [v]
  | SConst => [c]
  | SOrAdd => [ior v 1]
  | SAddUnlessIgnore => [ior v (if v =? 0 then 0 else 1)]
  | SRemoveToForce => [3]
  | SMaybeIgnore => [v; 0]
  | SMaybeOrAdd => [v; ior v 1]
  end.

Definition ensure_force (forced : bool) (av : Z) : Z := if forced then ior av 1 else av.

(** gap (number of columns between the end of the first token and the start of the second) *)
Definition apply_gap (av min_sp0 next_orig_col pc_orig_col_end : Z) : Z :=
  let min_sp := Z.max 1 min_sp0 in
  let keep := (pc_orig_col_end <=? next_orig_col) && negb (pc_orig_col_end =? 0) in
  if av =? 3 then min_sp
  else if av =? 1 then (if keep then Z.max (next_orig_col - pc_orig_col_end) min_sp else min_sp)
  else if av =? 2 then 0
  else (if keep then next_orig_col - pc_orig_col_end else 0).
