(** Types for the generated table of do_space() sites (coq/Gen/SpaceRules.v). *)
From Coq Require Import List ZArith.
Import ListNotations.

Inductive shape :=
| SOpt               (* return(options::X())                              *)
| SConst             (* return(IARF_c)                                    *)
| SOrAdd             (* return(options::X() | IARF_ADD)                   *)
| SAddUnlessIgnore   (* arg | ((arg != IGNORE) ? ADD : IGNORE)            *)
| SRemoveToForce     (* if (options::X() == REMOVE) return(IARF_FORCE)    *)
| SMaybeIgnore       (* X, or IGNORE under a further condition            *)
| SMaybeOrAdd.       (* X, or X | ADD under a further condition           *)

Record site := mksite {
  s_line : Z;            (* source line of the log_rule call that is last before the return *)
  s_rule : list Z;       (* the rule name that is logged *)
  s_shape : shape;
  s_opt : list Z;        (* the option whose value is returned (empty for SConst) *)
  s_const : Z            (* the constant for SConst / SRemoveToForce *)
}.
