(** Model H: the chunk list manager (src/ListManager.h, class ChunkListManager) and the list surgery of
    src/chunk.cpp built on it (Chunk::CopyAndAdd, Delete, MoveAfter, Swap, GetFirstChunkOnLine, SwapLines).

    Chunks are numbered 1, 2, ...; 0 is Chunk::NullChunkPtr.  The heap is the pair of link functions
    (m_next, m_prev) plus the manager's m_head / m_tail; every assignment of the C++ is one functional update, in
    the order of the source, so aliasing between the arguments (Swap(x, x), a reference that is the moved chunk
    itself ...) behaves as in the code.  Of a chunk's payload only what SwapLines reads or writes is kept: whether
    it is a newline, and its nl_count.  Not modelled: the column update at the end of MoveAfter (no list effect). *)
From Coq Require Import List Arith Bool.
Import ListNotations.

Record st := mk { nxt : nat -> nat; prv : nat -> nat; hd_ : nat; tl_ : nat; isnl : nat -> bool; nlc : nat -> nat }.

Definition upd {A : Type} (f : nat -> A) (k : nat) (v : A) : nat -> A := fun x => if Nat.eqb x k then v else f x.

Definition set_nxt s k v := mk (upd (nxt s) k v) (prv s) (hd_ s) (tl_ s) (isnl s) (nlc s).
Definition set_prv s k v := mk (nxt s) (upd (prv s) k v) (hd_ s) (tl_ s) (isnl s) (nlc s).
Definition set_hd s v := mk (nxt s) (prv s) v (tl_ s) (isnl s) (nlc s).
Definition set_tl s v := mk (nxt s) (prv s) (hd_ s) v (isnl s) (nlc s).
Definition set_isnl s k v := mk (nxt s) (prv s) (hd_ s) (tl_ s) (upd (isnl s) k v) (nlc s).
Definition set_nlc s k v := mk (nxt s) (prv s) (hd_ s) (tl_ s) (isnl s) (upd (nlc s) k v).

Definition empty : st := mk (fun _ => 0) (fun _ => 0) 0 0 (fun _ => false) (fun _ => 0).

(** ChunkListManager::Remove *)
Definition remove (s : st) (o : nat) : st :=
  if Nat.eqb o 0 then s else
  let s1 := if Nat.eqb (hd_ s) o then set_hd s (nxt s o) else s in
  let s2 := if Nat.eqb (tl_ s1) o then set_tl s1 (prv s1 o) else s1 in
  let s3 := if Nat.eqb (nxt s2 o) 0 then s2 else set_prv s2 (nxt s2 o) (prv s2 o) in
  let s4 := if Nat.eqb (prv s3 o) 0 then s3 else set_nxt s3 (prv s3 o) (nxt s3 o) in
  set_prv (set_nxt s4 o 0) o 0.

(** ChunkListManager::AddAfter *)
Definition add_after (s : st) (o r : nat) : st :=
  if Nat.eqb o 0 || Nat.eqb r 0 then s else
  let s1 := set_nxt s o (nxt s r) in
  let s2 := set_prv s1 o r in
  let s3 := if Nat.eqb (nxt s2 r) 0 then set_tl s2 o else set_prv s2 (nxt s2 r) o in
  set_nxt s3 r o.

(** ChunkListManager::AddBefore (it removes the object first) *)
Definition add_before (s : st) (o r : nat) : st :=
  if Nat.eqb o 0 || Nat.eqb r 0 then s else
  let s0 := remove s o in
  let s1 := set_nxt s0 o r in
  let s2 := set_prv s1 o (prv s1 r) in
  let s3 := if Nat.eqb (prv s2 r) 0 then set_hd s2 o else set_nxt s2 (prv s2 r) o in
  set_prv s3 r o.

(** ChunkListManager::AddTail / AddHead (no null test in the source) *)
Definition add_tail (s : st) (o : nat) : st :=
  let s1 := set_nxt s o 0 in
  let s2 := set_prv s1 o (tl_ s1) in
  let s3 := if Nat.eqb (tl_ s2) 0 then set_hd (set_tl s2 o) o else set_nxt s2 (tl_ s2) o in
  set_tl s3 o.

Definition add_head (s : st) (o : nat) : st :=
  let s1 := set_nxt s o (hd_ s) in
  let s2 := set_prv s1 o 0 in
  let s3 := if Nat.eqb (hd_ s2) 0 then set_hd (set_tl s2 o) o else set_prv s2 (hd_ s2) o in
  set_hd s3 o.

(** ChunkListManager::Swap *)
Definition swap (s : st) (a b : nat) : st :=
  if Nat.eqb a 0 || Nat.eqb b 0 then s else
  if Nat.eqb (prv s a) b then add_before (remove s a) a b
  else if Nat.eqb (prv s b) a then add_before (remove s b) b a
  else
    let p1 := prv s a in
    let s1 := remove s a in
    let p2 := prv s1 b in
    let s2 := remove s1 b in
    add_after (add_after s2 a p2) b p1.

(** Chunk::MoveAfter *)
Definition move_after (s : st) (x r : nat) : st :=
  if Nat.eqb x r then s else add_after (remove s x) x r.

(** Chunk::GetFirstChunkOnLine: walks m_prev while the chunk is neither null nor a newline *)
Fixpoint first_go (fuel : nat) (s : st) (first pc : nat) : nat :=
  match fuel with
  | O => first
  | S f => if Nat.eqb pc 0 || isnl s pc then first else first_go f s pc (prv s pc)
  end.
Definition first_on_line (fuel : nat) (s : st) (x : nat) : nat := first_go fuel s x (prv s x).

(** first loop of Chunk::SwapLines: the line that starts at pc2 is moved in front of pc1 *)
Fixpoint sl_loop1 (fuel : nat) (s : st) (pc1 pc2 : nat) : st * nat :=
  match fuel with
  | O => (s, pc2)
  | S f => if Nat.eqb pc2 0 || isnl s pc2 then (s, pc2)
           else let tmp := nxt s pc2 in sl_loop1 f (add_before (remove s pc2) pc2 pc1) pc1 tmp
  end.

(** second loop: the line that starts at pc1 is moved behind ref2 *)
Fixpoint sl_loop2 (fuel : nat) (s : st) (pc1 ref2 : nat) : st * nat :=
  match fuel with
  | O => (s, pc1)
  | S f => if Nat.eqb pc1 0 || isnl s pc1 then (s, pc1)
           else let tmp := nxt s pc1 in
                let s1 := remove s pc1 in
                let s2 := if Nat.eqb ref2 0 then add_head s1 pc1 else add_after s1 pc1 ref2 in
                sl_loop2 f s2 tmp pc1
  end.

(** Chunk::SwapLines *)
Definition swap_lines (fuel : nat) (s : st) (a b : nat) : st :=
  let pc1 := first_on_line fuel s a in
  let pc2 := first_on_line fuel s b in
  if Nat.eqb pc1 0 || Nat.eqb pc2 0 || Nat.eqb pc1 pc2 then s else
  let ref2 := prv s pc2 in
  let '(s1, pc2') := sl_loop1 fuel s pc1 pc2 in
  let '(s2, pc1') := sl_loop2 fuel s1 pc1 ref2 in
  if Nat.eqb pc1' 0 || Nat.eqb pc2' 0 then s2 else
  let n1 := nlc s2 pc1' in
  let s3 := set_nlc (set_nlc s2 pc1' (nlc s2 pc2')) pc2' n1 in
  swap s3 pc1' pc2'.

(** operations as the harness drives them through the public interface of class Chunk *)
Inductive op :=
| NewAfter (o r : nat) (nl : bool) (cnt : nat)    (* CopyAndAdd(r, FORWARD): AddAfter, or AddHead when r is null *)
| NewBefore (o r : nat) (nl : bool) (cnt : nat)   (* CopyAndAdd(r, BACKWARD): AddBefore, or AddTail when r is null *)
| Delete (x : nat)
| MoveAfter (x r : nat)
| Swap (a b : nat)
| SwapLines (a b : nat).

Definition fresh (s : st) (o : nat) (nl : bool) (cnt : nat) : st :=
  set_prv (set_nxt (set_nlc (set_isnl s o nl) o cnt) o 0) o 0.     (* Chunk(const Chunk&): not linked *)

Definition step (fuel : nat) (s : st) (p : op) : st :=
  match p with
  | NewAfter o r nl cnt => let s1 := fresh s o nl cnt in if Nat.eqb r 0 then add_head s1 o else add_after s1 o r
  | NewBefore o r nl cnt => let s1 := fresh s o nl cnt in if Nat.eqb r 0 then add_tail s1 o else add_before s1 o r
  | Delete x => remove s x
  | MoveAfter x r => move_after s x r
  | Swap a b => swap s a b
  | SwapLines a b => swap_lines fuel s a b
  end.

Definition cl_run (fuel : nat) (ops : list op) : st := fold_left (step fuel) ops empty.

(** what an observer sees: the walk from the head along m_next, and from the tail along m_prev *)
Fixpoint walk (fuel : nat) (f : nat -> nat) (x : nat) : list nat :=
  match fuel with
  | O => []
  | S n => if Nat.eqb x 0 then [] else x :: walk n f (f x)
  end.
Definition to_list (fuel : nat) (s : st) : list nat := walk fuel (nxt s) (hd_ s).
Definition to_list_back (fuel : nat) (s : st) : list nat := walk fuel (prv s) (tl_ s).
Definition cl_observe (fuel : nat) (s : st) : list (nat * nat) * list nat :=
  (map (fun x => (x, nlc s x)) (to_list fuel s), to_list_back fuel s).
