(** Input side of C08: which terminator 'newlines = auto' selects.
    [census_of] is the census the tokenizer takes (parse_newline and the comment scanners of tokenize.cpp: a CR directly
    followed by LF is one CRLF, any other CR is a CR, any other LF is an LF); [select_le] transcribes the decision at the
    end of tokenize().  The census of the real tokenizer skips terminators it never sees as line breaks of its own
    (disabled regions, backslash-newline, line breaks inside literals): the harness compares [census_of] only on inputs
    without those, and [select_le] on the dumped census of every run. *)
From Coq Require Import List ZArith Bool Arith.
Import ListNotations.
Local Open Scope Z_scope.

Inductive le := LF | CRLF | CR.
Inductive setting := SLf | SCrlf | SCr | SAuto.

Definition le_bytes (t : le) : list Z :=
  match t with LF => [10] | CRLF => [13; 10] | CR => [13] end.

Record census := { n_lf : nat; n_crlf : nat; n_cr : nat }.
Definition census0 : census := {| n_lf := 0; n_crlf := 0; n_cr := 0 |}.
Definition cnt (c : census) (t : le) : nat :=
  match t with LF => n_lf c | CRLF => n_crlf c | CR => n_cr c end.
Definition bump (t : le) (c : census) : census :=
  match t with
  | LF => {| n_lf := S (n_lf c); n_crlf := n_crlf c; n_cr := n_cr c |}
  | CRLF => {| n_lf := n_lf c; n_crlf := S (n_crlf c); n_cr := n_cr c |}
  | CR => {| n_lf := n_lf c; n_crlf := n_crlf c; n_cr := S (n_cr c) |}
  end.

Fixpoint census_of (l : list Z) : census :=
  match l with
  | [] => census0
  | c :: rest =>
      if c =? 13 then
        match rest with
        | d :: rest' => if d =? 10 then bump CRLF (census_of rest') else bump CR (census_of rest)
        | [] => bump CR census0
        end
      else if c =? 10 then bump LF (census_of rest)
      else census_of rest
  end.

(** end of tokenize(): LF wins ties, then CRLF, then CR *)
Definition select_le (s : setting) (c : census) : le :=
  match s with
  | SLf => LF
  | SCrlf => CRLF
  | SCr => CR
  | SAuto =>
      if (n_crlf c <=? n_lf c)%nat && (n_cr c <=? n_lf c)%nat then LF
      else if (n_lf c <=? n_crlf c)%nat && (n_cr c <=? n_crlf c)%nat then CRLF
      else CR
  end.

(** a text as lines with their terminators *)
Definition line_ok (ln : list Z) : Prop := Forall (fun c => c <> 13 /\ c <> 10) ln.
Fixpoint joinm (ls : list (list Z * le)) : list Z :=
  match ls with
  | [] => []
  | (ln, t) :: r => ln ++ le_bytes t ++ joinm r
  end.
Definition count_le (t : le) (ls : list (list Z * le)) : nat :=
  length (filter (fun x => match snd x, t with LF, LF | CRLF, CRLF | CR, CR => true | _, _ => false end) ls).

(** the one ambiguity of mixed texts: a CR-terminated line directly followed by an empty LF-terminated line reads as CRLF *)
Fixpoint unamb (ls : list (list Z * le)) : Prop :=
  match ls with
  | [] => True
  | (_, t) :: r =>
      match t, r with
      | CR, ([], LF) :: _ => False
      | _, _ => True
      end /\ unamb r
  end.
