(** * Model B: the output stage.
    Hand-written model of /repo/src/output.cpp: add_spaces(), add_char(), add_text(),
    output_to_column(), the chunk loop of output_text() (CT_NEWLINE, CT_NL_CONT, ignored/junk,
    empty, ordinary chunks with the indent_with_tabs "lvlcol" hack, allow_tabs logic,
    force_tab_after_define) and next_tab_column() (src/prototypes.h).
    Comment chunks are NOT modelled: the hook records what each comment writer emitted and the
    writer state it left; the model splices that segment in ([Seg]).
    The output is an abstract symbol stream; [realise] substitutes the configured newline.
    Definitions only. *)
From Coq Require Import List ZArith Bool Arith.
Import ListNotations.
Local Open Scope Z_scope.

Inductive sym :=
| NL                      (* one line break written by add_char: realised as cpd.newline *)
| Ch (c : Z)              (* a character written through add_char *)
| Raw (c : Z)             (* a character of an ignored/junk chunk, written without any processing *)
| Seg (cps : list Z).     (* what a comment writer emitted (oracle segment) *)

Record ropts := {
  indent_with_tabs : Z;
  pp_indent_with_tabs : Z;          (* as configured, may be -1 *)
  output_tab_size : Z;
  align_with_tabs : bool;
  align_keep_tabs : bool;
  sp_before_nl_cont : Z;            (* iarf: 0 ignore, 1 add, 2 remove, 3 force *)
  force_tab_after_define : bool;
  cmt_convert_tab_to_spaces : bool;
  in_preproc_at_output : bool       (* cpd.in_preproc == CT_PREPROC while writing (tokenizer leftover) *)
}.

Record wstate := {
  column : Z;
  spaces : Z;
  last_char : Z;
  did_newline : bool;
  trailspace : bool;
  tab_as_space : bool;
  out : list sym                    (* reversed *)
}.

Definition next_tab_column (o : ropts) (col : Z) : Z :=
  let c := if col =? 0 then 1 else col in
  1 + ((c - 1) / output_tab_size o + 1) * output_tab_size o.

Definition emit (s : wstate) (x : sym) : wstate :=
  {| column := column s; spaces := spaces s; last_char := last_char s; did_newline := did_newline s;
     trailspace := trailspace s; tab_as_space := tab_as_space s; out := x :: out s |}.

Definition add_spaces (s : wstate) : wstate :=
  {| column := column s; spaces := 0; last_char := last_char s; did_newline := did_newline s;
     trailspace := trailspace s; tab_as_space := tab_as_space s;
     out := repeat (Ch 32) (Z.to_nat (spaces s)) ++ out s |}.

Definition newline_state (s : wstate) (o : list sym) : wstate :=
  {| column := 1; spaces := 0; last_char := last_char s; did_newline := true;
     trailspace := trailspace s; tab_as_space := tab_as_space s; out := o |}.

Definition set_last (s : wstate) (c : Z) : wstate :=
  {| column := column s; spaces := spaces s; last_char := c; did_newline := did_newline s;
     trailspace := trailspace s; tab_as_space := tab_as_space s; out := out s |}.

(** the "'\r' not followed by '\n'" look-behind at the top of add_char *)
Definition cr_fixup (s : wstate) (ch : Z) : wstate :=
  if (last_char s =? 13) && negb (ch =? 10) then newline_state s (NL :: out s) else s.

Section WithOpts.
  Variable o : ropts.

  (** add_char without the tab-to-spaces expansions: newline, CR, buffered space, or plain write *)
  Definition add_char1 (s0 : wstate) (ch : Z) : wstate :=
    let s := cr_fixup s0 ch in
    if ch =? 10 then
      let s1 := add_spaces s in set_last (newline_state s1 (NL :: out s1)) ch
    else if ch =? 13 then set_last (newline_state s (out s)) ch
    else if (ch =? 32) && negb (trailspace s) then
      set_last {| column := column s + 1; spaces := spaces s + 1; last_char := last_char s;
                  did_newline := did_newline s; trailspace := trailspace s; tab_as_space := tab_as_space s;
                  out := out s |} ch
    else
      let s1 := add_spaces s in
      set_last {| column := if ch =? 9 then next_tab_column o (column s1) else column s1 + 1;
                  spaces := 0; last_char := last_char s1;
                  did_newline := did_newline s1; trailspace := trailspace s1; tab_as_space := tab_as_space s1;
                  out := Ch ch :: out s1 |} ch.

  Definition space_n (s : wstate) (n : nat) : wstate :=
    fold_left (fun st _ => add_char1 st 32) (repeat tt n) s.

  Definition eff_iwt : Z :=
    if negb (in_preproc_at_output o) || (pp_indent_with_tabs o =? -1) then indent_with_tabs o else pp_indent_with_tabs o.

  Definition add_char (s : wstate) (ch : Z) (is_literal : bool) : wstate :=
    if (ch =? 10) || (ch =? 13) then add_char1 s ch
    else if (ch =? 9) && tab_as_space s then
      let s' := cr_fixup s ch in
      space_n s' (Z.to_nat (next_tab_column o (column s') - column s'))
    else if negb is_literal && (ch =? 9) && (last_char s =? 32) && (eff_iwt =? 0) then
      space_n s (Z.to_nat (next_tab_column o (column s) - column s))
    else add_char1 s ch.

  Definition add_text (s : wstate) (t : list Z) (is_literal : bool) : wstate :=
    fold_left (fun st c => add_char st c is_literal) t s.

  Definition add_raw (s : wstate) (t : list Z) : wstate :=
    fold_left (fun st c => if c <? 0 then st else emit st (Raw c)) t s.

  Definition set_did_newline (s : wstate) (b : bool) : wstate :=
    {| column := column s; spaces := spaces s; last_char := last_char s; did_newline := b;
       trailspace := trailspace s; tab_as_space := tab_as_space s; out := out s |}.

  Fixpoint tabs_loop (fuel : nat) (s : wstate) (col : Z) : wstate :=
    match fuel with
    | O => s
    | S f => if next_tab_column o (column s) <=? col then tabs_loop f (add_char s 9 false) col else s
    end.

  Definition output_to_column (s0 : wstate) (col : Z) (allow_tabs : bool) : wstate :=
    let s := set_did_newline s0 false in
    let s1 := if allow_tabs then tabs_loop (Z.to_nat col + 1) s col else s in
    space_n s1 (Z.to_nat (col - column s1)).

  (** ** chunks *)
  Inductive ckind := CKNewline | CKNlCont | CKComment | CKIgnored | CKOther | CKSkipped.

  Record chunk := {
    ck : ckind;
    text : list Z;
    col : Z;                  (* column at render time *)
    col_indent : Z;
    nl_count : Z;
    nl_col : Z;
    orig_col : Z;
    orig_prev_sp : Z;
    preproc : bool;
    was_aligned : bool;
    after_tab : bool;
    lvl_hack : bool;          (* CT_BRACE_CLOSE, CT_CASE_COLON (or preproc): lvlcol = column *)
    is_pp_define : bool;
    is_string : bool;         (* CT_STRING or CT_STRING_MULTI: written as literal *)
    is_string_multi : bool;   (* CT_STRING_MULTI: output_trailspace *)
    is_pp_ignore : bool;
    is_comment_kind : bool;   (* IsComment() of a chunk that reaches the generic branch: never in practice *)
    seg : list Z;             (* comment oracle: emitted code points *)
    seg_column : Z; seg_spaces : Z; seg_last : Z; seg_did_nl : bool
  }.

  Definition ppiwt : Z := if pp_indent_with_tabs o =? -1 then indent_with_tabs o else pp_indent_with_tabs o.

  Definition set_flags (s : wstate) (ts tas : bool) : wstate :=
    {| column := column s; spaces := spaces s; last_char := last_char s; did_newline := did_newline s;
       trailspace := ts; tab_as_space := tas; out := out s |}.

  Definition after_newline (s : wstate) : wstate :=
    {| column := 1; spaces := spaces s; last_char := last_char s; did_newline := true;
       trailspace := trailspace s; tab_as_space := tab_as_space s; out := out s |}.

  Fixpoint newline_loop (n : nat) (first : bool) (c : chunk) (s : wstate) : wstate :=
    match n with
    | O => s
    | S k =>
      let s1 := if negb first && (1 <? nl_col c)
                then output_to_column s (nl_col c) (if preproc c then 1 <=? ppiwt else 1 <=? indent_with_tabs o)
                else s in
      newline_loop k false c (add_char s1 10 false)
    end.

  (** the previous chunk that decides how a backslash-newline keeps its relative position *)
  Fixpoint nlcont_prev (rev_prefix : list chunk) : option chunk :=
    match rev_prefix with
    | [] => None
    | p :: r => if (orig_col p =? 0) && (nl_count p =? 0) then nlcont_prev r else Some p
    end.

  Definition render_nlcont (rev_prefix : list chunk) (c : chunk) (s : wstate) : wstate :=
    let colv :=
        if negb (was_aligned c) then
          if Z.land (sp_before_nl_cont o) 2 =? 2      (* & IARF_REMOVE *)
          then column s + (if sp_before_nl_cont o =? 3 then 1 else 0)
          else
            match rev_prefix with
            | p :: _ =>
              if is_pp_ignore p then orig_col c
              else match nlcont_prev rev_prefix with
                   | Some q => if nl_count q =? 0
                               then let c1 := column s + orig_prev_sp c in
                                    if negb (sp_before_nl_cont o =? 0) && (c1 <? column s + 1) then column s + 1 else c1
                               else col c
                   | None => col c
                   end
            | [] => col c
            end
        else col c in
    let allow := if negb (was_aligned c) then false
                 else if preproc c then ppiwt =? 2 else indent_with_tabs o =? 2 in
    let s1 := output_to_column s colv allow in
    after_newline (add_char (add_char s1 92 false) 10 false).

  Definition render_other (prev : option chunk) (c : chunk) (s0 : wstate) : wstate :=
    let s := set_flags s0 (is_string_multi c) false in
    let '(s1, allow) :=
        if did_newline s then
          let s' :=
              if (preproc c && (ppiwt =? 1)) || (negb (preproc c) && (indent_with_tabs o =? 1)) then
                let lvlcol := if lvl_hack c || preproc c then col c
                              else if col c <? col_indent c then col c else col_indent c in
                if 1 <? lvlcol then output_to_column s lvlcol true else s
              else s in
          (s', (preproc c && (ppiwt =? 2)) || (negb (preproc c) && (indent_with_tabs o =? 2))
               || (is_comment_kind c && negb (indent_with_tabs o =? 0)))
        else
          let a1 := align_with_tabs o && was_aligned c &&
                    match prev with
                    | Some p => negb (col p + Z.of_nat (length (text p)) + 1 =? col c)
                    | None => true
                    end in
          (s, a1 || (align_keep_tabs o && after_tab c)) in
    let s2 := output_to_column s1 (col c) allow in
    let s3 := add_text s2 (text c) (is_string c) in
    let s4 := if is_pp_define c && force_tab_after_define o then add_char s3 9 false else s3 in
    set_flags (set_did_newline s4 false) false (tab_as_space s4).

  Definition render_chunk (rev_prefix : list chunk) (c : chunk) (s0 : wstate) : wstate :=
    let s := set_flags s0 (trailspace s0) false in
    match ck c with
    | CKSkipped => s0
    | CKNewline => after_newline (newline_loop (Z.to_nat (nl_count c)) true c s)
    | CKNlCont => render_nlcont rev_prefix c s
    | CKComment =>
      {| column := seg_column c; spaces := seg_spaces c; last_char := seg_last c; did_newline := seg_did_nl c;
         trailspace := trailspace s; tab_as_space := cmt_convert_tab_to_spaces o; out := Seg (seg c) :: out s |}
    | CKIgnored => add_raw s (text c)
    | CKOther =>
      match text c with
      | [] => s
      | _ => render_other (hd_error rev_prefix) c s
      end
    end.

  Fixpoint render_loop (rev_prefix : list chunk) (l : list chunk) (s : wstate) : wstate :=
    match l with
    | [] => s
    | c :: r => render_loop (c :: rev_prefix) r (render_chunk rev_prefix c s)
    end.

  Definition init_wstate (last : Z) (sp : Z) : wstate :=
    {| column := 1; spaces := sp; last_char := last; did_newline := true; trailspace := false;
       tab_as_space := false; out := [] |}.

  (** the symbols written for a chunk list (the writer state carried over from a previous file in
      the same process is [last], [sp]: zero for the first file) *)
  Definition render (last sp : Z) (l : list chunk) : list sym := rev (out (render_loop [] l (init_wstate last sp))).
End WithOpts.

(** code points from symbols, with the configured newline *)
Definition realise (nl : list Z) (l : list sym) : list Z :=
  flat_map (fun x => match x with NL => nl | Ch c => [c] | Raw c => [c] | Seg s => s end) l.
