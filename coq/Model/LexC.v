(** * LexSpecC: an independent lexical specification of the C family (C, C++, Objective-C), used to re-lex the input
    and the output of uncrustify.  It is NOT a model of uncrustify's tokenizer: it follows the languages' own rules
    (translation phases 2-3: line splicing, comments, preprocessing tokens with maximal munch, header names after
    #include, raw strings), so that "the output lexes to the same tokens as the input" is judged by a third party.

    Shape: [scan] looks at the head of the text and returns the kind and the LENGTH of the token there; [lex_all]
    cuts the text accordingly.  The partition of the text is therefore lossless by construction (LexCProofs.v).
    Definitions only. *)
From Coq Require Import List ZArith Bool Arith.
Import ListNotations.
Local Open Scope Z_scope.

Inductive lkind :=
| KWs          (* blanks, line breaks outside directives, line splices *)
| KWord        (* identifier or keyword *)
| KNumber         (* pp-number *)
| KPunct
| KStr         (* string literal, with prefix; raw strings; header names *)
| KChar        (* character literal *)
| KCmtLine
| KCmtBlock
| KDirHash     (* the '#' that starts a directive *)
| KDirEnd.     (* the line break that ends a directive *)

Record tok := { tk : lkind; tt : list Z; tdir : bool (* inside a directive *) }.

Record lstate := { bol : bool;        (* only white space since the last line break *)
                   in_dir : bool;     (* inside a preprocessor directive *)
                   dir_pos : nat      (* tokens seen in this directive: 0 = expecting its name; 1 = name seen *) ;
                   want_hdr : bool }. (* the directive is #include/#import: '<' starts a header name *)

Definition st0 : lstate := {| bol := true; in_dir := false; dir_pos := 0; want_hdr := false |}.

Definition is_blank (c : Z) : bool := (c =? 32) || (c =? 9) || (c =? 12) || (c =? 11).
Definition is_eol (c : Z) : bool := (c =? 10) || (c =? 13).
Definition is_digit (c : Z) : bool := (48 <=? c) && (c <=? 57).
Definition is_alpha (c : Z) : bool := ((65 <=? c) && (c <=? 90)) || ((97 <=? c) && (c <=? 122)).
Definition is_idstart (c : Z) : bool := is_alpha c || (c =? 95) || (c =? 36) || (128 <=? c).
Definition is_idchar (c : Z) : bool := is_idstart c || is_digit c.

Fixpoint span (p : Z -> bool) (l : list Z) : nat :=
  match l with
  | c :: r => if p c then S (span p r) else O
  | [] => O
  end.

(** length of a line break at the head (0 if none) *)
Definition eol_len (l : list Z) : nat :=
  match l with
  | c :: r => if c =? 10 then 1%nat
              else if c =? 13 then match r with d :: _ => if d =? 10 then 2%nat else 1%nat | [] => 1%nat end
              else O
  | [] => O
  end.

(** backslash, optional blanks, line break: a line splice (length, 0 if none) *)
Definition splice_len (l : list Z) : nat :=
  match l with
  | c :: r => if c =? 92 then
                let b := span is_blank r in
                match eol_len (skipn b r) with
                | O => O
                | n => S (b + n)
                end
              else O
  | [] => O
  end.

(** a // comment: to the end of the line; a backslash directly before the line break continues it *)
Fixpoint line_cmt_len (l : list Z) : nat :=
  match l with
  | [] => O
  | c :: r =>
    if c =? 92 then
      match r with
      | d :: r' =>
        if d =? 10 then S (S (line_cmt_len r'))
        else if d =? 13 then
          match r' with
          | e :: r'' => if e =? 10 then S (S (S (line_cmt_len r''))) else S (S (line_cmt_len r'))
          | [] => 2%nat
          end
        else S (line_cmt_len r)
      | [] => 1%nat
      end
    else if is_eol c then O
    else S (line_cmt_len r)
  end.

(** a block comment body: up to and including the closing star-slash (the whole rest if it never closes) *)
Fixpoint blk_len (l : list Z) : nat :=
  match l with
  | [] => O
  | c :: r =>
    if c =? 42 then match r with d :: _ => if d =? 47 then 2%nat else S (blk_len r) | [] => 1%nat end
    else S (blk_len r)
  end.

(** the rest of a quoted literal after its opening quote [q]: escapes skip a character; an unterminated literal
    ends in front of the line break *)
Fixpoint quoted_len (q : Z) (l : list Z) : nat :=
  match l with
  | [] => O
  | c :: r =>
    if c =? q then 1%nat
    else if c =? 92 then
      match r with
      | d :: r' =>
        if d =? 13 then                                     (* a splice inside a literal: backslash CR LF *)
          match r' with
          | e :: r'' => if e =? 10 then S (S (S (quoted_len q r''))) else S (S (quoted_len q r'))
          | [] => 2%nat
          end
        else S (S (quoted_len q r'))                        (* an escaped character, or backslash LF *)
      | [] => 1%nat
      end
    else if is_eol c then O
    else S (quoted_len q r)
  end.

Fixpoint prefix_of (p l : list Z) : bool :=
  match p, l with
  | [], _ => true
  | a :: p', b :: l' => (a =? b) && prefix_of p' l'
  | _ :: _, [] => false
  end.

(** position just behind the first occurrence of [pat] (the whole length if there is none) *)
Fixpoint find_end (pat : list Z) (l : list Z) : nat :=
  if prefix_of pat l then length pat
  else match l with
       | [] => O
       | _ :: r => S (find_end pat r)
       end.

(** a raw string after R": delimiter, '(', body, ')', delimiter, '"' *)
Definition raw_delim_char (c : Z) : bool :=
  negb (is_blank c || is_eol c || (c =? 40) || (c =? 41) || (c =? 92) || (c =? 34)).
Definition raw_len (l : list Z) : option nat :=
  let d := span raw_delim_char l in
  match skipn d l with
  | c :: r => if (c =? 40) && (Nat.leb d 16)
              then let pat := (41 :: firstn d l) ++ [34] in Some (d + 1 + find_end pat r)%nat
              else None
  | [] => None
  end.

(** pp-number: digit or .digit, then digits, letters, '_', '.', exponent signs, digit separators *)
Fixpoint num_len (prev : Z) (l : list Z) : nat :=
  match l with
  | [] => O
  | c :: r =>
    if is_idchar c || (c =? 46) then S (num_len c r)
    else if ((c =? 43) || (c =? 45)) && ((prev =? 101) || (prev =? 69) || (prev =? 112) || (prev =? 80)) then S (num_len c r)
    else if (c =? 39) then match r with d :: _ => if is_idchar d then S (num_len c r) else O | [] => O end
    else O
  end.

(** punctuators of more than one character, longest first *)
Definition puncts : list (list Z) :=
  [ [37;58;37;58];                                   (* %:%: *)
    [60;60;61]; [62;62;61]; [46;46;46]; [45;62;42]; [60;61;62];
    [45;62]; [43;43]; [45;45]; [60;60]; [62;62]; [60;61]; [62;61]; [61;61]; [33;61]; [38;38]; [124;124];
    [43;61]; [45;61]; [42;61]; [47;61]; [37;61]; [38;61]; [124;61]; [94;61]; [58;58]; [35;35]; [46;42];
    [60;58]; [58;62]; [60;37]; [37;62]; [37;58] ].

Fixpoint first_punct (ps : list (list Z)) (l : list Z) : nat :=
  match ps with
  | [] => 1%nat
  | p :: r => if prefix_of p l then length p else first_punct r l
  end.

(** the words that announce a header name *)
Definition w_include : list Z := [105;110;99;108;117;100;101].
Definition w_import : list Z := [105;109;112;111;114;116].
Definition w_include_next : list Z := [105;110;99;108;117;100;101;95;110;101;120;116].
Fixpoint list_eqb (a b : list Z) : bool :=
  match a, b with
  | [], [] => true
  | x :: a', y :: b' => (x =? y) && list_eqb a' b'
  | _, _ => false
  end.

(** string/char prefixes: the identifier directly in front of a quote *)
Definition str_prefix (w : list Z) : bool :=       (* L u U u8 *)
  list_eqb w [76] || list_eqb w [117] || list_eqb w [85] || list_eqb w [117;56].
Definition raw_prefix (w : list Z) : bool :=       (* R LR uR UR u8R *)
  list_eqb w [82] || list_eqb w [76;82] || list_eqb w [117;82] || list_eqb w [85;82] || list_eqb w [117;56;82].

Definition after_tok (s : lstate) (hdr : bool) : lstate :=
  {| bol := false; in_dir := in_dir s; dir_pos := if in_dir s then S (dir_pos s) else O;
     want_hdr := if in_dir s then (if Nat.eqb (dir_pos s) 0 then hdr else false) else false |}.

(** kind, length and next state of the token at the head of a non-empty text *)
Definition scan (s : lstate) (l : list Z) : lkind * nat * lstate :=
  match l with
  | [] => (KWs, O, s)
  | c :: r =>
    if is_blank c then (KWs, span is_blank l, s)
    else if is_eol c then
      if in_dir s then (KDirEnd, eol_len l, st0) else (KWs, eol_len l, {| bol := true; in_dir := false; dir_pos := 0; want_hdr := false |})
    else if (c =? 92) && negb (Nat.eqb (splice_len l) 0) then (KWs, splice_len l, s)
    else if (c =? 47) && prefix_of [47;47] l then (KCmtLine, (2 + line_cmt_len (skipn 2 l))%nat, s)
    else if (c =? 47) && prefix_of [47;42] l then (KCmtBlock, (2 + blk_len (skipn 2 l))%nat, s)
    else if (c =? 35) && bol s && negb (in_dir s) then
      (KDirHash, 1%nat, {| bol := false; in_dir := true; dir_pos := 0; want_hdr := false |})
    else if (c =? 60) && want_hdr s then          (* <header> *)
      (let n := span (fun x => negb ((x =? 62) || is_eol x)) r in
       (KStr, S (match skipn n r with c2 :: _ => if c2 =? 62 then S n else n | [] => n end), after_tok s false))
    else if c =? 34 then (KStr, S (quoted_len 34 r), after_tok s false)
    else if c =? 39 then (KChar, S (quoted_len 39 r), after_tok s false)
    else if is_idstart c then
      let n := span is_idchar l in
      let w := firstn n l in
      match skipn n l with
      | q :: r' =>
        if (q =? 34) && raw_prefix w then
          match raw_len r' with
          | Some m => (KStr, (n + 1 + m)%nat, after_tok s false)
          | None => (KWord, n, after_tok s false)
          end
        else if (q =? 34) && str_prefix w then (KStr, (n + 1 + quoted_len 34 r')%nat, after_tok s false)
        else if (q =? 39) && str_prefix w then (KChar, (n + 1 + quoted_len 39 r')%nat, after_tok s false)
        else (KWord, n, after_tok s (list_eqb w w_include || list_eqb w w_import || list_eqb w w_include_next))
      | [] => (KWord, n, after_tok s false)
      end
    else if is_digit c || ((c =? 46) && match r with d :: _ => is_digit d | [] => false end) then
      (KNumber, S (num_len c r), after_tok s false)
    else if prefix_of [60;58;58] l && match skipn 3 l with d :: _ => negb ((d =? 58) || (d =? 62)) | [] => true end then
      (KPunct, 1%nat, after_tok s false)          (* C++11: '<::' not followed by ':' or '>' is '<' '::' *)
    else (KPunct, first_punct puncts l, after_tok s false)
  end.

Fixpoint lex_all (fuel : nat) (s : lstate) (l : list Z) : list tok :=
  match fuel with
  | O => []
  | S f =>
    match l with
    | [] => []
    | _ :: _ =>
      let '(k, n, s') := scan s l in
      let n' := Nat.max 1 n in
      {| tk := k; tt := firstn n' l; tdir := in_dir s |} :: lex_all f s' (skipn n' l)
    end
  end.

Definition lex (l : list Z) : list tok := lex_all (length l) st0 l.

(** the streams the properties compare *)
Definition is_code (t : tok) : bool :=
  match tk t with KWs | KCmtLine | KCmtBlock => false | _ => true end.
Definition code_tokens (l : list Z) : list tok := filter is_code (lex l).
Definition is_comment (t : tok) : bool := match tk t with KCmtLine | KCmtBlock => true | _ => false end.
Definition is_literal (t : tok) : bool := match tk t with KStr | KChar => true | _ => false end.
