(** * Model D: the configuration reader and writer.
    Hand-written model of /repo/src/option.cpp (split_args, process_option_line, read_enum,
    read_number, Option<bool>::read, Option<string>::read, BoundedOption::validate,
    save_option_file), keywords.cpp (add_keyword, print_custom_keywords) and language_names.cpp
    (extension_add, print_extensions), parameterised by the generated registry.
    Text is [list Z] (bytes).  Definitions only. *)
From Coq Require Import List ZArith Bool Arith.
From UV Require Import Model.ConfigDefs.
Import ListNotations.
Local Open Scope Z_scope.

Definition bytes := list Z.

Fixpoint beqb (a b : bytes) : bool :=
  match a, b with
  | [], [] => true
  | x :: a', y :: b' => (x =? y) && beqb a' b'
  | _, _ => false
  end.

Definition tolower (c : Z) : Z := if (65 <=? c) && (c <=? 90) then c + 32 else c.
Definition to_lower (s : bytes) : bytes := map tolower s.
Definition beqb_ci (a b : bytes) : bool := beqb (to_lower a) (to_lower b).   (* strcasecmp == 0 *)

Definition is_space (c : Z) : bool := (c =? 32) || ((9 <=? c) && (c <=? 13)).
Definition is_arg_sep (c : Z) : bool := is_space c || (c =? 44) || (c =? 61).
Definition is_quote (c : Z) : bool := (c =? 39) || (c =? 34) || (c =? 96).

(** ** split_args: one pass, as a state machine over the characters (see the comments in DESIGN.md
    for the correspondence with the in-place erase of backslashes in the C++) *)
Inductive sstate :=
| SSkip | SQuote (q : Z) (acc : bytes) | SQuoteEsc (q : Z) (acc : bytes)
| SAfterQ | SWord (acc : bytes) | SWordEsc (acc : bytes).

Inductive split_res := SOk (args : list bytes) | SUnterminated | SUnexpected.

Fixpoint split (st : sstate) (args : list bytes) (r : bytes) : split_res :=
  match r with
  | [] =>
    match st with
    | SSkip | SAfterQ => SOk (rev args)
    | SWord acc => SOk (rev (rev acc :: args))
    | _ => SUnterminated
    end
  | c :: r' =>
    match st with
    | SSkip =>
      if is_arg_sep c then split SSkip args r'
      else if c =? 35 then SOk (rev args)
      else if is_quote c then split (SQuote c []) args r'
      else if c =? 92 then split (SWordEsc []) args r'
      else split (SWord [c]) args r'
    | SQuote q acc =>
      if c =? q then split SAfterQ (rev acc :: args) r'
      else if c =? 92 then split (SQuoteEsc q acc) args r'
      else split (SQuote q (c :: acc)) args r'
    | SQuoteEsc q acc => split (SQuote q (c :: acc)) args r'
    | SAfterQ => if is_arg_sep c then split SSkip args r' else SUnexpected
    | SWord acc =>
      if is_arg_sep c then split SSkip (rev acc :: args) r'
      else if c =? 92 then split (SWordEsc acc) args r'
      else split (SWord (c :: acc)) args r'
    | SWordEsc acc => split (SWord (c :: acc)) args r'
    end
  end.

Definition split_args (line : bytes) : split_res := split SSkip [] line.

(** ** diagnostics (kinds; the harness maps stderr lines to these) *)
Inductive diag :=
| DUnterminated | DUnexpectedText | DFewArgs (cmd : bytes)
| DUnknownOption (name : bytes) | DUnknownType (name : bytes) | DUnknownLang (name : bytes)
| DBadValue (opt : bytes) | DBadRef (opt ref : bytes)
| DLess (opt : bytes) | DGreater (opt : bytes)
| DDeprecated (name : bytes) | DBadVersion | DEmptyInclude.

(** ** state *)
Record cstate := {
  vals : list (bytes * value);       (* in registry order *)
  kws : list (bytes * bytes);        (* custom keywords: word -> token name ("TYPE", "MACRO_OPEN", ...), sorted by word *)
  exts : list (bytes * bytes);       (* file extensions: ext -> language name, sorted by ext *)
  compat : Z;
  includes : list bytes              (* include requests, in order (resolved by the harness/oracle) *)
}.

Section WithRegistry.
  Variable registry : list optdef.
  Variable bool_alias : list (bytes * bool).
  Variable iarf_alias lineend_alias tokenpos_alias : list (bytes * Z).
  Variable iarf_names lineend_names tokenpos_names : list (Z * bytes).
  Variable compat_names : list (bytes * option bytes * Z).
  Variable lang_names : list bytes.
  Variable token_names : list bytes.

  Definition init_state : cstate :=
    {| vals := map (fun o => (o_name o, o_def o)) registry; kws := []; exts := []; compat := 0; includes := [] |}.

  Fixpoint lookup_kind (rg : list optdef) (name : bytes) : option kind :=
    match rg with
    | [] => None
    | o :: r => if beqb (o_name o) name then Some (o_kind o) else lookup_kind r name
    end.

  Fixpoint lookup_val (vs : list (bytes * value)) (name : bytes) : option value :=
    match vs with
    | [] => None
    | (n, v) :: r => if beqb n name then Some v else lookup_val r name
    end.

  Fixpoint set_val (vs : list (bytes * value)) (name : bytes) (v : value) : list (bytes * value) :=
    match vs with
    | [] => []
    | (n, x) :: r => if beqb n name then (n, v) :: r else (n, x) :: set_val r name v
    end.

  Fixpoint alias_find {A} (tbl : list (bytes * A)) (s : bytes) : option A :=
    match tbl with
    | [] => None
    | (a, v) :: r => if beqb_ci s a then Some v else alias_find r s
    end.

  (** strtol(in, &c, 10): returns (value saturated to long, rest) *)
  Definition is_digit (c : Z) : bool := (48 <=? c) && (c <=? 57).
  Fixpoint digits (acc : Z) (s : bytes) : Z * bytes :=
    match s with
    | c :: r => if is_digit c then digits (acc * 10 + (c - 48)) r else (acc, s)
    | [] => (acc, [])
    end.
  Fixpoint skip_space (s : bytes) : bytes :=
    match s with c :: r => if is_space c then skip_space r else s | [] => [] end.
  Definition LONG_MAX : Z := 9223372036854775807.
  Definition clamp (z : Z) : Z := if z >? LONG_MAX then LONG_MAX else if z <? - LONG_MAX - 1 then - LONG_MAX - 1 else z.
  Definition strtol (s : bytes) : Z * bytes :=
    let s1 := skip_space s in
    let '(neg, s2) := match s1 with
                      | c :: r => if c =? 45 then (true, r) else if c =? 43 then (false, r) else (false, s1)
                      | [] => (false, s1)
                      end in
    match s2 with
    | c :: _ => if is_digit c then
                  let '(v, rest) := digits 0 s2 in (clamp (if neg then - v else v), rest)
                else (0, s)
    | [] => (0, s)
    end.

  Definition wrap32s (z : Z) : Z := let m := z mod 4294967296 in if m >=? 2147483648 then m - 4294967296 else m.

  (** BoundedOption::validate *)
  Definition validate (name : bytes) (b : option (Z * Z)) (v : Z) : list diag :=
    match b with
    | None => []
    | Some (lo, hi) => if v <? lo then [DLess name] else if v >? hi then [DGreater name] else []
    end.

  Definition num_of (v : value) : option Z := match v with VNum z | VUnum z => Some z | _ => None end.

  Definition mk_num (k : kind) (z : Z) : value :=
    match k with KNum None => VNum (wrap32s z) | KNum _ => VNum z | _ => VUnum z end.

  (** Option<T>::read for every kind: new value or diagnostics *)
  Definition read_value (vs : list (bytes * value)) (name : bytes) (k : kind) (s : bytes) : (option value) * list diag :=
    match k with
    | KBool =>
      match alias_find bool_alias s with
      | Some b => (Some (VBool b), [])
      | None =>
        let '(inv, ref) := match s with
                           | c :: r => if (c =? 126) || (c =? 33) || (c =? 45) then (true, r) else (false, s)
                           | [] => (true, [])     (* strchr("~!-", 0) is non-null: reads past the end; see DESIGN *)
                           end in
        match lookup_kind registry (to_lower ref), lookup_val vs (to_lower ref) with
        | Some KBool, Some (VBool b) => (Some (VBool (if inv then negb b else b)), [])
        | Some _, _ => (None, [DBadRef name (to_lower ref)])
        | None, _ => (None, [DBadValue name])
        end
      end
    | KIarf | KLineEnd | KTokenPos =>
      let tbl := match k with KIarf => iarf_alias | KLineEnd => lineend_alias | _ => tokenpos_alias end in
      let mk := match k with KIarf => VIarf | KLineEnd => VLineEnd | _ => VTokenPos end in
      match alias_find tbl s with
      | Some n => (Some (mk n), [])
      | None =>
        match lookup_kind registry (to_lower s), lookup_val vs (to_lower s) with
        | Some k', Some v =>
          match k, k', v with
          | KIarf, KIarf, VIarf _ | KLineEnd, KLineEnd, VLineEnd _ | KTokenPos, KTokenPos, VTokenPos _ => (Some v, [])
          | _, _, _ => (None, [DBadRef name (to_lower s)])
          end
        | _, _ => (None, [DBadValue name])
        end
      end
    | KNum b | KUnum b =>
      let '(v, rest) := strtol s in
      let d1 := match rest with [] => validate name b v | _ => [] end in
      match rest, d1 with
      | [], [] => (Some (mk_num k v), [])
      | _, _ =>
        let '(inv, ref) := match s with
                           | c :: r => if c =? 45 then (true, r) else (false, s)
                           | [] => (true, [])
                           end in
        match lookup_kind registry (to_lower ref), lookup_val vs (to_lower ref) with
        | Some (KNum _), Some rv | Some (KUnum _), Some rv =>
          match num_of rv with
          | Some t =>
            let rval := if inv then - t else t in
            match validate name b rval with
            | [] => (Some (mk_num k rval), d1)
            | d2 => (None, d1 ++ d2)
            end
          | None => (None, d1 ++ [DBadValue name])
          end
        | Some _, _ => (None, d1 ++ [DBadRef name (to_lower ref)])
        | None, _ => (None, d1 ++ [DBadValue name])
        end
      end
    | KString => (Some (VStr s), [])
    end.

  (** sorted insertion into a std::map<std::string, ...> *)
  Fixpoint bltb (a b : bytes) : bool :=      (* std::string operator< : unsigned byte order *)
    match a, b with
    | [], [] => false
    | [], _ :: _ => true
    | _ :: _, [] => false
    | x :: a', y :: b' => if x <? y then true else if y <? x then false else bltb a' b'
    end.

  Fixpoint map_put (m : list (bytes * bytes)) (k v : bytes) : list (bytes * bytes) :=
    match m with
    | [] => [(k, v)]
    | (k0, v0) :: r => if beqb k0 k then (k0, v) :: r
                       else if bltb k k0 then (k, v) :: (k0, v0) :: r
                       else (k0, v0) :: map_put r k v
    end.

  Fixpoint find_ci (tbl : list bytes) (s : bytes) : option bytes :=
    match tbl with
    | [] => None
    | a :: r => if beqb_ci s a then Some a else find_ci r s
    end.

  Fixpoint compat_find (tbl : list (bytes * option bytes * Z)) (cmd : bytes) (lvl : Z) : option (option bytes) :=
    match tbl with
    | [] => None
    | (old, tgt, thr) :: r => if (lvl <? thr) && beqb old cmd then Some tgt else compat_find r cmd lvl
    end.

  Definition set_option (st : cstate) (name : bytes) (s : bytes) : cstate * list diag :=
    match lookup_kind registry name with
    | None => (st, [DUnknownOption name])
    | Some k =>
      match read_value (vals st) name k s with
      | (Some v, d) => ({| vals := set_val (vals st) name v; kws := kws st; exts := exts st; compat := compat st; includes := includes st |}, d)
      | (None, d) => (st, d)
      end
    end.

  Definition with_kws (st : cstate) (k : list (bytes * bytes)) : cstate :=
    {| vals := vals st; kws := k; exts := exts st; compat := compat st; includes := includes st |}.
  Definition with_exts (st : cstate) (e : list (bytes * bytes)) : cstate :=
    {| vals := vals st; kws := kws st; exts := e; compat := compat st; includes := includes st |}.

  Definition T_TYPE : bytes := [84; 89; 80; 69].
  Definition T_MACRO_OPEN : bytes := [77;65;67;82;79;95;79;80;69;78].
  Definition T_MACRO_CLOSE : bytes := [77;65;67;82;79;95;67;76;79;83;69].
  Definition T_MACRO_ELSE : bytes := [77;65;67;82;79;95;69;76;83;69].
  Definition s_type : bytes := [116;121;112;101].
  Definition s_set : bytes := [115;101;116].
  Definition s_file_ext : bytes := [102;105;108;101;95;101;120;116].
  Definition s_macro_open : bytes := [109;97;99;114;111;45;111;112;101;110].
  Definition s_macro_close : bytes := [109;97;99;114;111;45;99;108;111;115;101].
  Definition s_macro_else : bytes := [109;97;99;114;111;45;101;108;115;101].
  Definition s_include : bytes := [105;110;99;108;117;100;101].
  Definition s_using : bytes := [117;115;105;110;103].

  (** version "MAJOR.MINOR[.PATCH]" -> option_level *)
  Fixpoint split_dot (acc : bytes) (s : bytes) : list bytes :=
    match s with
    | [] => [rev acc]
    | c :: r => if c =? 46 then rev acc :: split_dot [] r else split_dot (c :: acc) r
    end.
  Definition stoi (s : bytes) : Z := fst (strtol s).
  (** std::stoi as the 'using' branch uses it since the repair: no digits -> std::invalid_argument, outside int -> std::out_of_range,
      both caught and turned into the diagnostic *)
  Definition has_number (s : bytes) : bool :=
    match (match skip_space s with c :: r => if (c =? 45) || (c =? 43) then r else skip_space s | [] => [] end) with
    | c :: _ => is_digit c
    | [] => false
    end.
  Definition stoi_opt (s : bytes) : option Z :=
    if has_number s then let v := stoi s in if (v <? -2147483648) || (v >? 2147483647) then None else Some v else None.

  Fixpoint file_ext_loop (st : cstate) (lang : bytes) (es : list bytes) : cstate * list diag :=
    match es with
    | [] => (st, [])
    | e :: r =>
      match find_ci lang_names lang with
      | Some ln => file_ext_loop (with_exts st (map_put (exts st) e ln)) lang r
      | None => (st, [DUnknownLang lang])
      end
    end.

  Definition process_line (st : cstate) (line : bytes) : cstate * list diag :=
    match split_args line with
    | SUnterminated => (st, [DUnterminated])
    | SUnexpected => (st, [DUnexpectedText])
    | SOk [] => (st, [])
    | SOk (a0 :: rest) =>
      let cmd := to_lower a0 in
      let need3 := beqb cmd s_set || beqb cmd s_file_ext in
      if (if need3 then (length rest <? 2)%nat else (length rest <? 1)%nat) then (st, [DFewArgs cmd]) else
      match rest with
      | [] => (st, [DFewArgs cmd])
      | a1 :: rest2 =>
        if beqb cmd s_type then
          (with_kws st (fold_left (fun m w => map_put m w T_TYPE) rest (kws st)), [])
        else if beqb cmd s_macro_open then (with_kws st (map_put (kws st) a1 T_MACRO_OPEN), [])
        else if beqb cmd s_macro_close then (with_kws st (map_put (kws st) a1 T_MACRO_CLOSE), [])
        else if beqb cmd s_macro_else then (with_kws st (map_put (kws st) a1 T_MACRO_ELSE), [])
        else if beqb cmd s_set then
          match find_ci (tl token_names) a1 with      (* find_token_name: index 0 (NONE) is skipped *)
          | Some tn => (with_kws st (fold_left (fun m w => map_put m w tn) rest2 (kws st)), [])
          | None => (st, [DUnknownType a1])
          end
        else if beqb cmd s_include then
          match a1 with
          | [] => (st, [DEmptyInclude])
          | _ => ({| vals := vals st; kws := kws st; exts := exts st; compat := compat st; includes := includes st ++ [a1] |}, [])
          end
        else if beqb cmd s_file_ext then file_ext_loop st a1 rest2
        else if beqb cmd s_using then
          match map stoi_opt (split_dot [] a1) with
          | [Some ma; Some mi] => ({| vals := vals st; kws := kws st; exts := exts st;
                                      compat := ma * 1048576 + mi * 1024; includes := includes st |}, [])
          | [Some ma; Some mi; Some pa] => ({| vals := vals st; kws := kws st; exts := exts st;
                                               compat := ma * 1048576 + mi * 1024 + pa; includes := includes st |}, [])
          | _ => (st, [DBadVersion])
          end
        else
          match compat_find compat_names cmd (compat st) with
          | Some (Some tgt) => let '(st', d) := set_option st tgt a1 in (st', DDeprecated cmd :: d)
          | Some None => (st, [DDeprecated cmd])
          | None => set_option st cmd a1
          end
      end
    end.

  (** load: all lines, threading the line number into the diagnostics *)
  Fixpoint load_lines (st : cstate) (ln : nat) (lines : list bytes) : cstate * list (nat * diag) :=
    match lines with
    | [] => (st, [])
    | l :: r =>
      let '(st1, d) := process_line st l in
      let '(st2, ds) := load_lines st1 (S ln) r in
      (st2, map (pair ln) d ++ ds)
    end.

  (** "not printable": a byte outside 0..127 before any '#' makes load_option_file exit *)
  Fixpoint line_printable (l : bytes) : bool :=
    match l with
    | [] => true
    | c :: r => if c =? 35 then true else if (c <? 0) || (c >? 127) then false else line_printable r
    end.

  (** ** writer *)
  Fixpoint dec_digits (fuel : nat) (n : Z) (acc : bytes) : bytes :=
    match fuel with
    | O => acc
    | S f => if n <? 10 then (48 + n) :: acc else dec_digits f (n / 10) ((48 + n mod 10) :: acc)
    end.
  Definition to_dec (z : Z) : bytes :=
    if z <? 0 then 45 :: dec_digits 20 (- z) [] else dec_digits 20 z [].

  Fixpoint assoc_z (tbl : list (Z * bytes)) (n : Z) : bytes :=
    match tbl with [] => [] | (k, v) :: r => if k =? n then v else assoc_z r n end.

  Fixpoint escape (s : bytes) : bytes :=
    match s with
    | [] => []
    | c :: r => if (c =? 92) || (c =? 34) then 92 :: c :: escape r else c :: escape r
    end.

  Definition value_str (v : value) : bytes :=
    match v with
    | VBool true => [116;114;117;101]
    | VBool false => [102;97;108;115;101]
    | VIarf n => assoc_z iarf_names n
    | VLineEnd n => assoc_z lineend_names n
    | VTokenPos n => assoc_z tokenpos_names n
    | VNum z | VUnum z => to_dec z
    | VStr s => 34 :: escape s ++ [34]
    end.

  Definition spaces (n : nat) : bytes := repeat 32 n.

  Definition option_line (nv : bytes * value) : bytes :=
    let name := fst nv in
    let pad := if (length name <? 32)%nat then (32 - length name)%nat else 1%nat in
    name ++ spaces pad ++ [61; 32] ++ value_str (snd nv).

  Definition kw_line (kw : bytes * bytes) : bytes :=
    let '(w, t) := kw in
    if beqb t T_TYPE then s_type ++ spaces 28 ++ w
    else if beqb t T_MACRO_OPEN then s_macro_open ++ spaces 22 ++ w
    else if beqb t T_MACRO_CLOSE then s_macro_close ++ spaces 21 ++ w
    else if beqb t T_MACRO_ELSE then s_macro_else ++ spaces 22 ++ w
    else s_set ++ [32] ++ t ++ [32] ++ spaces (32 - (4 + length t)) ++ w.

  Definition ext_lines (es : list (bytes * bytes)) : list bytes :=
    flat_map (fun ln =>
                match filter (fun e => beqb (snd e) ln) es with
                | [] => []
                | l => [s_file_ext ++ [32] ++ ln ++ flat_map (fun e => 32 :: fst e) l]
                end) lang_names.

  (** the lines written by save_option_file (without the version header and the count trailer) *)
  Definition save_lines (st : cstate) : list bytes :=
    map option_line (vals st) ++ map kw_line (kws st) ++ ext_lines (exts st).

  Definition non_default_count (st : cstate) : nat :=
    length (filter (fun p => match lookup_val (map (fun o => (o_name o, o_def o)) registry) (fst p) with
                             | Some d => negb (beqb (value_str d) (value_str (snd p)))
                             | None => true end) (vals st)).
End WithRegistry.
