(** * Checker for C04: "the difference between two token streams consists solely of allowed tokens, all other tokens
    keep their order, and bracket pairs stay balanced".  Tokens are their texts (code point lists).  Definitions only. *)
From Coq Require Import List ZArith Bool Arith.
Import ListNotations.
Local Open Scope Z_scope.

Definition token := list Z.

Fixpoint tok_eqb (a b : token) : bool :=
  match a, b with
  | [], [] => true
  | x :: a', y :: b' => (x =? y) && tok_eqb a' b'
  | _, _ => false
  end.

Fixpoint toks_eqb (a b : list token) : bool :=
  match a, b with
  | [], [] => true
  | x :: a', y :: b' => tok_eqb x y && toks_eqb a' b'
  | _, _ => false
  end.

Definition mem (allowed : list token) (t : token) : bool := existsb (tok_eqb t) allowed.

(** the tokens the enabled options do not name *)
Definition keep (allowed : list token) (l : list token) : list token := filter (fun t => negb (mem allowed t)) l.

Definition diff_ok (allowed : list token) (a b : list token) : bool := toks_eqb (keep allowed a) (keep allowed b).

(** bracket balance: a stack of expected closers *)
Definition closer (t : token) : option token :=
  if tok_eqb t [40] then Some [41] else if tok_eqb t [123] then Some [125] else if tok_eqb t [91] then Some [93] else None.
Definition is_closer (t : token) : bool := tok_eqb t [41] || tok_eqb t [125] || tok_eqb t [93].

Fixpoint balanced_from (stack : list token) (l : list token) : bool :=
  match l with
  | [] => match stack with [] => true | _ => false end
  | t :: r =>
    match closer t with
    | Some c => balanced_from (c :: stack) r
    | None =>
      if is_closer t then
        match stack with
        | c :: s' => tok_eqb c t && balanced_from s' r
        | [] => false
        end
      else balanced_from stack r
    end
  end.
Definition balanced (l : list token) : bool := balanced_from [] l.

(** the verdict: the streams differ by allowed tokens only, and balance is not lost *)
Definition c04_ok (allowed : list token) (a b : list token) : bool :=
  diff_ok allowed a b && (negb (balanced a) || balanced b).
