(** * Model A: Unicode codec and BOM policy.
    Hand-written model of /repo/src/unicode.cpp and the head of
    uncrustify_file() in /repo/src/uncrustify.cpp.
    Bytes and code points are [Z] (the C++ uses [int]; every value that can
    occur is below 2^31, see Proofs/CodecProofs.v [dec8_range]).
    Bit operations of the C++ are written arithmetically:
      x >> k        as  x / 2^k
      x & (2^k - 1) as  x mod 2^k
      (x & 0xE0) == 0xC0  as  0xC0 <= x < 0xE0       (x a byte)
      (a << 6) | (b & 0x3f) as a * 64 + b mod 64
    This file contains definitions only (it must keep running when a proof
    breaks); it is extracted to OCaml and run against the binary. *)
From Coq Require Import List ZArith Bool.
Import ListNotations.
Local Open Scope Z_scope.

Inductive enc := E_ASCII | E_BYTE | E_UTF8 | E_UTF16LE | E_UTF16BE.

Definition enc_eqb (a b : enc) : bool :=
  match a, b with
  | E_ASCII, E_ASCII | E_BYTE, E_BYTE | E_UTF8, E_UTF8
  | E_UTF16LE, E_UTF16LE | E_UTF16BE, E_UTF16BE => true
  | _, _ => false
  end.

(** ** encode_utf8 *)
Definition encode_utf8 (ch : Z) : list Z :=
  if ch <? 0 then []
  else if ch <? 0x80 then [ch]
  else if ch <? 0x800 then [0xC0 + ch / 64; 0x80 + ch mod 64]
  else if ch <? 0x10000 then
    [0xE0 + ch / 4096; 0x80 + (ch / 64) mod 64; 0x80 + ch mod 64]
  else if ch <? 0x200000 then
    [0xF0 + ch / 262144; 0x80 + (ch / 4096) mod 64;
     0x80 + (ch / 64) mod 64; 0x80 + ch mod 64]
  else if ch <? 0x4000000 then
    [0xF8 + ch / 16777216; 0x80 + (ch / 262144) mod 64;
     0x80 + (ch / 4096) mod 64; 0x80 + (ch / 64) mod 64; 0x80 + ch mod 64]
  else
    [0xFC + ch / 1073741824; 0x80 + (ch / 16777216) mod 64;
     0x80 + (ch / 262144) mod 64; 0x80 + (ch / 4096) mod 64;
     0x80 + (ch / 64) mod 64; 0x80 + ch mod 64].

(** ** decode_utf8
    The two nested C++ loops are one state machine over the byte list:
    [None] = between characters, [Some (cnt, ch)] = [cnt] continuation bytes
    still to read into accumulator [ch]. *)
Definition utf8_lead (b : Z) : option (nat * Z) :=
  if (0xC0 <=? b) && (b <? 0xE0) then Some (1%nat, b mod 32)
  else if (0xE0 <=? b) && (b <? 0xF0) then Some (2%nat, b mod 16)
  else if (0xF0 <=? b) && (b <? 0xF8) then Some (3%nat, b mod 8)
  else if (0xF8 <=? b) && (b <? 0xFC) then Some (4%nat, b mod 4)
  else if (0xFC <=? b) && (b <? 0xFE) then Some (5%nat, b mod 2)
  else None.

Definition is_cont (b : Z) : bool := (0x80 <=? b) && (b <? 0xC0).

(** minimal value for a sequence with [cnt] continuation bytes.  The
    unrepaired decoder does not check it ([check_min = false]). *)
Definition utf8_min (cnt : nat) : Z :=
  match cnt with
  | 1%nat => 0x80 | 2%nat => 0x800 | 3%nat => 0x10000
  | 4%nat => 0x200000 | 5%nat => 0x4000000 | _ => 0
  end.

Fixpoint dec8 (check_min : bool) (st : option (nat * nat * Z)) (bs : list Z)
  : option (list Z) :=
  match bs with
  | [] => match st with None => Some [] | Some _ => None end
  | b :: r =>
    match st with
    | None =>
      if b <? 0x80 then option_map (cons b) (dec8 check_min None r)
      else match utf8_lead b with
           | None => None
           | Some (cnt, ch0) => dec8 check_min (Some (cnt, cnt, ch0)) r
           end
    | Some (total, cnt, ch) =>
      if is_cont b then
        let ch' := ch * 64 + b mod 64 in
        match cnt with
        | O => None
        | S O =>
          if check_min && (ch' <? utf8_min total) then None
          else option_map (cons ch') (dec8 check_min None r)
        | S c => dec8 check_min (Some (total, c, ch')) r
        end
      else None
    end
  end.

Definition has_utf8_bom (bs : list Z) : bool :=
  match bs with
  | b0 :: b1 :: b2 :: _ => (b0 =? 0xEF) && (b1 =? 0xBB) && (b2 =? 0xBF)
  | _ => false
  end.

Definition decode_utf8 (check_min : bool) (bs : list Z) : option (list Z) :=
  dec8 check_min None (if has_utf8_bom bs then skipn 3 bs else bs).

(** ** UTF-16 *)
Definition word (be : bool) (b0 b1 : Z) : Z :=
  if be then b0 * 256 + b1 else b0 + b1 * 256.

(** [hi] = pending high surrogate payload (already [& 0x3ff]). An odd tail
    cannot occur (decode_utf16 rejects odd lengths first); a pending high
    surrogate at the end makes get_word return -1, which is rejected. *)
Fixpoint dec16 (be : bool) (hi : option Z) (bs : list Z) : option (list Z) :=
  match bs with
  | [] => match hi with None => Some [] | Some _ => None end
  | [_] => None
  | b0 :: b1 :: r =>
    let w := word be b0 b1 in
    match hi with
    | Some h =>
      if (0xDC00 <=? w) && (w <? 0xE000)
      then option_map (cons (h * 1024 + w mod 1024 + 0x10000)) (dec16 be None r)
      else None
    | None =>
      if (0xD800 <=? w) && (w <? 0xDC00) then dec16 be (Some (w mod 1024)) r
      else if (w <? 0xD800) || (0xE000 <=? w)
           then option_map (cons w) (dec16 be None r)
           else None
    end
  end.

Definition nth_byte (bs : list Z) (i : nat) : Z := nth i bs (-1).

(** returns the encoding found and the code points *)
Definition bom16 (bs : list Z) : option bool :=   (* Some be *)
  match bs with
  | b0 :: b1 :: _ =>
    if (b0 =? 0xFE) && (b1 =? 0xFF) then Some true
    else if (b0 =? 0xFF) && (b1 =? 0xFE) then Some false
    else None
  | _ => None
  end.

Definition enc16 (be : bool) : enc := if be then E_UTF16BE else E_UTF16LE.

Definition decode_utf16 (bs : list Z) : option (enc * list Z) :=
  let n := length bs in
  if Nat.odd n then None
  else if (n <? 2)%nat then None
  else
    match bom16 bs with
    | Some be => option_map (pair (enc16 be)) (dec16 be None (skipn 2 bs))
    | None =>
      if (6 <=? n)%nat then
        if (nth_byte bs 0 =? 0) && (nth_byte bs 2 =? 0) && (nth_byte bs 4 =? 0)
        then option_map (pair E_UTF16BE) (dec16 true None bs)
        else if (nth_byte bs 1 =? 0) && (nth_byte bs 3 =? 0) && (nth_byte bs 5 =? 0)
        then option_map (pair E_UTF16LE) (dec16 false None bs)
        else None
      else None
    end.

Definition decode_bom (bs : list Z) : option enc :=
  match bom16 bs with
  | Some be => Some (enc16 be)
  | None => if has_utf8_bom bs then Some E_UTF8 else None
  end.

Fixpoint count_if (p : Z -> bool) (bs : list Z) : nat :=
  match bs with
  | [] => O
  | b :: r => if p b then S (count_if p r) else count_if p r
  end.

Record decoded := { d_enc : enc; d_bom : bool; d_data : list Z }.

(** [None] = decode_unicode returned false (the callers exit with EX_IOERR). *)
Definition decode_unicode (check_min : bool) (bs : list Z) : option decoded :=
  match decode_bom bs with
  | Some E_UTF8 =>
    option_map (fun d => {| d_enc := E_UTF8; d_bom := true; d_data := d |})
               (decode_utf8 check_min bs)
  | Some _ =>
    option_map (fun ed => {| d_enc := fst ed; d_bom := true; d_data := snd ed |})
               (decode_utf16 bs)
  | None =>
    let non_ascii := count_if (fun b => 0x80 <=? b) bs in
    let zeros := count_if (fun b => b =? 0) bs in
    if (non_ascii + zeros =? 0)%nat
    then Some {| d_enc := E_ASCII; d_bom := false; d_data := bs |}
    else
      let n := length bs in
      let try16 :=
          if ((n / 4 <? zeros) && (zeros <=? n / 2))%nat then decode_utf16 bs else None in
      match try16 with
      | Some ed => Some {| d_enc := fst ed; d_bom := false; d_data := snd ed |}
      | None =>
        match decode_utf8 check_min bs with
        | Some d => Some {| d_enc := E_UTF8; d_bom := false; d_data := d |}
        | None => Some {| d_enc := E_BYTE; d_bom := false; d_data := bs |}
        end
      end
  end.

(** ** writers *)
Definition write_byte (ch : Z) : list Z :=
  if (0 <=? ch) && (ch <? 256) then [ch] else [].

Definition write_utf8 (ch : Z) : list Z := flat_map write_byte (encode_utf8 ch).

Definition write_utf16 (be : bool) (ch : Z) : list Z :=
  if ((0 <=? ch) && (ch <? 0xD800)) || ((0xE000 <=? ch) && (ch <? 0x10000)) then
    if be then write_byte (ch / 256) ++ write_byte (ch mod 256)
    else write_byte (ch mod 256) ++ write_byte (ch / 256)
  else if (0x10000 <=? ch) && (ch <? 0x110000) then
    let v1 := ch - 0x10000 in
    let w1 := 0xD800 + v1 / 1024 in
    let w2 := 0xDC00 + v1 mod 1024 in
    if be then write_byte (w1 / 256) ++ write_byte (w1 mod 256)
               ++ write_byte (w2 / 256) ++ write_byte (w2 mod 256)
    else write_byte (w1 mod 256) ++ write_byte (w1 / 256)
         ++ write_byte (w2 mod 256) ++ write_byte (w2 / 256)
  else [].

Definition write_char (e : enc) (ch : Z) : list Z :=
  if ch <? 0 then []
  else match e with
       | E_BYTE => write_byte (ch mod 256)
       | E_ASCII => write_byte ch
       | E_UTF8 => write_utf8 ch
       | E_UTF16LE => write_utf16 false ch
       | E_UTF16BE => write_utf16 true ch
       end.

Definition write_bom (e : enc) : list Z :=
  match e with
  | E_UTF8 => [0xEF; 0xBB; 0xBF]
  | E_UTF16LE => write_utf16 false 0xFEFF
  | E_UTF16BE => write_utf16 true 0xFEFF
  | _ => []
  end.

Definition write_string (e : enc) (cps : list Z) : list Z := flat_map (write_char e) cps.

(** ** BOM / encoding policy: head of uncrustify_file() *)
Inductive iarf := Ignore | Add | Remove | Force.

Record enc_opts := { utf8_bom : iarf; utf8_byte : bool; utf8_force : bool }.

Definition default_enc_opts := {| utf8_bom := Ignore; utf8_byte := false; utf8_force := false |}.

Definition out_enc (o : enc_opts) (e : enc) : enc :=
  if utf8_force o || (enc_eqb e E_BYTE && utf8_byte o) then E_UTF8 else e.

Definition out_bom (o : enc_opts) (e_out : enc) (bom_in : bool) : bool :=
  let av := match e_out with
            | E_UTF8 => utf8_bom o
            | E_UTF16LE | E_UTF16BE => Force
            | _ => Ignore
            end in
  match av with
  | Remove => false
  | Ignore => bom_in
  | _ => true
  end.

(** embedded-NUL scan: every element but the last *)
Fixpoint has_embedded_nul (d : list Z) : bool :=
  match d with
  | [] => false
  | [_] => false
  | c :: r => (c =? 0) || has_embedded_nul r
  end.

Inductive outcome :=
| Refused                 (* decode failure or embedded NUL: exit EX_IOERR, nothing written *)
| Written (bytes : list Z).

(** A whole run with formatter [F] on code points (the identity formatter is
    what the hook UNC_VERIF_CODEC executes on the real binary). *)
Definition run_file (check_min : bool) (o : enc_opts) (F : list Z -> list Z) (bs : list Z) : outcome :=
  match decode_unicode check_min bs with
  | None => Refused
  | Some d =>
    if has_embedded_nul (d_data d) then Refused
    else
      let e := out_enc o (d_enc d) in
      let b := out_bom o e (d_bom d) in
      Written ((if b then write_bom e else []) ++ write_string e (F (d_data d)))
  end.

(** The decoder of the current tree rejects overlong forms (fix 0d0f6c8). *)
Definition repo_check_min := true.
