(** Contract K_nlmax as an executable checker over the final chunk list (C20).
    The passes that compute nl_count are not modelled; what they must deliver is this predicate, evaluated by the
    harness (extracted) on every dumped chunk list.  Proofs/RenderBreaks.v shows what it buys: the writer then
    produces no run of more than N line breaks. *)
From Coq Require Import List ZArith Bool Arith.
From UV Require Import Model.Render.
Import ListNotations.

(** every run of [true] (line breaks) in a stream of events is at most N long; r = length of the run that is open *)
Fixpoint run_ok (N r : nat) (w : list bool) : bool :=
  match w with
  | [] => true
  | true :: w' => (S r <=? N)%nat && run_ok N (S r) w'
  | false :: w' => run_ok N 0 w'
  end.

(** how a chunk takes part in runs of line breaks *)
Inductive cls := XEmpty | XBrk (k : nat) | XTxt | XOpaque.

Definition is_ign (c : option chunk) : bool :=
  match c with
  | Some c => match ck c with CKIgnored => true | _ => false end
  | None => false
  end.

(** out of the property's scope (and therefore opaque): line breaks of preprocessor lines, backslash-newlines,
    disabled regions and the line breaks next to them *)
Definition classify (prev nxt : option chunk) (c : chunk) : cls :=
  match ck c with
  | CKSkipped => XEmpty
  | CKNewline => if preproc c || is_ign prev || is_ign nxt then XOpaque else XBrk (Z.to_nat (nl_count c))
  | CKNlCont => XOpaque
  | CKIgnored => XOpaque
  | CKComment => XTxt
  | CKOther => match text c with [] => XEmpty | _ => XTxt end
  end.

Fixpoint classify_list (prev : option chunk) (l : list chunk) : list cls :=
  match l with
  | [] => []
  | c :: r => classify prev (hd_error r) c :: classify_list (Some c) r
  end.

Fixpoint runs_ok (N r : nat) (l : list cls) : bool :=
  match l with
  | [] => true
  | XEmpty :: t => runs_ok N r t
  | XBrk k :: t => ((k =? 0)%nat || (r + k <=? N)%nat) && runs_ok N (r + k) t
  | XTxt :: t => runs_ok N 0 t
  | XOpaque :: t => runs_ok N 0 t
  end.

(** K_nlmax *)
Definition nlmax_ok (N : nat) (l : list chunk) : bool := runs_ok N 0 (classify_list None l).

(** chunk lists wholly inside the scope of the property: no preprocessor line breaks, no backslash-newline, no
    disabled region; texts without CR/LF (no multi-line literal) and, when not empty, with a visible character *)
Definition vis (x : Z) : bool := negb ((x =? 32)%Z || (x =? 9)%Z).
Definition nobrk (x : Z) : bool := negb ((x =? 10)%Z || (x =? 13)%Z).

Definition in_scope (c : chunk) : bool :=
  match ck c with
  | CKSkipped => true
  | CKNewline => negb (preproc c)
  | CKNlCont => false
  | CKIgnored => false
  | CKComment => negb (seg_last c =? 13)%Z
  | CKOther => match text c with
               | [] => true
               | t => forallb nobrk t && existsb vis t
               end
  end.
