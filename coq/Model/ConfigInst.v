(** The configuration model instantiated with the generated registry and tables. *)
From Coq Require Import List ZArith Bool.
From UV Require Import Model.ConfigDefs Model.Config Gen.Registry.
Import ListNotations.

Definition cfg_init : cstate := init_state registry.
Definition cfg_process (st : cstate) (line : bytes) : cstate * list diag :=
  process_line registry bool_alias iarf_alias lineend_alias tokenpos_alias compat_names lang_names token_names st line.
Definition cfg_load (st : cstate) (lines : list bytes) : cstate * list (nat * diag) :=
  load_lines registry bool_alias iarf_alias lineend_alias tokenpos_alias compat_names lang_names token_names st 1 lines.
Definition cfg_save (st : cstate) : list bytes :=
  save_lines iarf_names lineend_names tokenpos_names lang_names st.
Definition cfg_non_default (st : cstate) : nat :=
  non_default_count registry iarf_names lineend_names tokenpos_names st.
Definition cfg_set_option (st : cstate) (name s : bytes) : cstate * list diag :=
  set_option registry bool_alias iarf_alias lineend_alias tokenpos_alias st name s.
