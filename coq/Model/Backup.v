(** * Model E': the backup protocol at the level of file contents (for histories, property C14).
    A content-level summary of what a --replace run (coq/Model/FsProto.v, src/backup.cpp,
    do_source_file()) does to the triple (file, backup, md5 file), including the states a killed run
    can leave behind, grouped into phases.  It is tied to the code twice on every run of the check:
    against the binary (histories are executed with the real uncrustify) and against the
    operation-level model FsProto.run (same scenarios, extracted code). *)
From Coq Require Import List ZArith Bool Arith.
From UV Require Import Model.FsProto.
Import ListNotations.

Section Backup.
  Variable digest : Type.
  Variable h : bytes -> digest.                      (* MD5 *)
  Variable digest_eqb : digest -> digest -> bool.

  Record bst := {
    b_file : bytes;
    b_backup : option (bytes * bool);    (* content, complete? (false: a killed run left a prefix) *)
    b_md5 : option digest
  }.

  (** how far a run got before it was killed *)
  Inductive phase :=
  | K0                (* before the backup file was opened: nothing changed *)
  | K1 (j : nat)      (* while the backup was being written: a prefix is on disk *)
  | K2                (* backup complete; output not yet complete / md5 not yet written *)
  | K3                (* md5 of the new content written, rename not yet done *)
  | Completed.

  Inductive event :=
  | Edit (c : bytes)
  | Run (f : bytes -> option bytes) (ph : phase).    (* formatter of the configuration used *)

  Definition own (s : bst) : bool :=
    match b_md5 s with Some d => digest_eqb d (h (b_file s)) | None => false end.

  Definition run_step (s : bst) (f : bytes -> option bytes) (ph : phase) : bst :=
    let due := negb (own s) in
    let full_bk := if due then Some (b_file s, true) else b_backup s in
    match ph with
    | K0 => s
    | K1 j => {| b_file := b_file s;
                 b_backup := if due then Some (firstn j (b_file s), false) else b_backup s;
                 b_md5 := b_md5 s |}
    | K2 => {| b_file := b_file s; b_backup := full_bk; b_md5 := b_md5 s |}
    | K3 => match f (b_file s) with
            | None => {| b_file := b_file s; b_backup := full_bk; b_md5 := b_md5 s |}
            | Some out => {| b_file := b_file s; b_backup := full_bk; b_md5 := Some (h out) |}
            end
    | Completed =>
      match f (b_file s) with
      | None => {| b_file := b_file s; b_backup := full_bk; b_md5 := b_md5 s |}   (* exits before output *)
      | Some out => {| b_file := out; b_backup := full_bk; b_md5 := Some (h out) |}
      end
    end.

  Definition step (s : bst) (e : event) : bst :=
    match e with
    | Edit c => {| b_file := c; b_backup := b_backup s; b_md5 := b_md5 s |}
    | Run f ph => run_step s f ph
    end.

  (** ** the specification (ghost state): what the property says, without digests *)
  Record ghost := {
    g_file : bytes;
    g_last : option bytes;      (* the content uncrustify last left in the file *)
    g_prist : option bytes      (* the content the file had before the earliest run since the last user edit *)
  }.

  Definition opt_bytes_eqb (a : option bytes) (b : bytes) : bool :=
    match a with Some x => bytes_eqb x b | None => false end.

  Definition gstep (g : ghost) (e : event) : ghost :=
    match e with
    | Edit c => {| g_file := c; g_last := g_last g; g_prist := g_prist g |}
    | Run f Completed =>
      let user_text := negb (opt_bytes_eqb (g_last g) (g_file g)) in
      let p := if user_text then Some (g_file g) else g_prist g in
      match f (g_file g) with
      | None => {| g_file := g_file g; g_last := g_last g; g_prist := p |}
      | Some out => {| g_file := out; g_last := Some out; g_prist := p |}
      end
    | Run _ _ => g        (* killed runs are outside the exact specification: see [protected] *)
    end.

  Definition completed_only (e : event) : bool :=
    match e with Run _ Completed => true | Edit _ => true | _ => false end.

  (** refinement relation for histories of edits and completed runs *)
  Definition R (g : ghost) (s : bst) : Prop :=
    b_file s = g_file g /\
    b_backup s = option_map (fun b => (b, true)) (g_prist g) /\
    b_md5 s = option_map h (g_last g).

  (** ** kill safety: the text to protect is always recoverable.
      [prot]: the user's text that uncrustify must not lose. *)
  Definition protected (prot : bytes) (s : bst) : Prop :=
    b_backup s = Some (prot, true) \/ (b_file s = prot /\ own s = false).

  Definition pstep (prot : bytes) (s : bst) (e : event) : bytes :=
    match e with
    | Edit c => c
    | Run f ph =>
      match ph with
      | K0 | K1 _ => prot
      | _ => if own s then prot else b_file s
      end
    end.

  (** side conditions of the kill-safety theorem, checked along the history *)
  Definition admissible (s : bst) (e : event) : bool :=
    match e with
    | Edit c => negb (match b_md5 s with Some d => digest_eqb d (h c) | None => false end)
                (* an edit that retypes exactly uncrustify's recorded output is indistinguishable from no edit *)
    | Run f K3 => negb (own s)      (* the one-operation window between md5 write and rename of a run
                                       that started on uncrustify's own output: known finding *)
    | _ => true
    end.
End Backup.
Arguments b_file {digest}. Arguments b_backup {digest}. Arguments b_md5 {digest}.
