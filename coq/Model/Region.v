(** * Model C-off: the tokenizer while processing is disabled.
    Hand-written model of /repo/src/tokenizer/tokenize.cpp: parse_newline(), parse_off_newlines() and the part of
    parse_ignored() that is reached while cpd.unc_off is set: blank lines are folded into one NEWLINE chunk with a
    count, every other line that does not hold the enabling text becomes ONE chunk of type CT_IGNORED whose text is
    the whole line (leading and trailing blanks included).  The first line that holds the enabling text (or the
    '#pragma endasm' / '#endasm' pattern) ends the scan: from there the ordinary tokenizer (not modelled) takes over.
    [ends] is that test on a line, a parameter: plain substring search or a regular expression in the real code.
    Definitions only. *)
From Coq Require Import List ZArith Bool Arith.
Import ListNotations.
Local Open Scope Z_scope.

Definition is_blank (c : Z) : bool := (c =? 32) || (c =? 9).
Definition is_eol (c : Z) : bool := (c =? 10) || (c =? 13).

Fixpoint skip_blanks (l : list Z) : list Z :=
  match l with
  | c :: r => if is_blank c then skip_blanks r else l
  | [] => []
  end.

(** parse_newline(): blanks, then LF, CR LF or CR *)
Definition parse_newline (l : list Z) : option (list Z) :=
  match skip_blanks l with
  | c :: r =>
    if c =? 10 then Some r
    else if c =? 13 then
      match r with
      | d :: r' => if d =? 10 then Some r' else Some r
      | [] => Some r
      end
    else None
  | [] => None
  end.

(** parse_off_newlines(): as many as there are *)
Fixpoint off_newlines (fuel : nat) (l : list Z) : nat * list Z :=
  match fuel with
  | O => (O, l)
  | S f =>
    match parse_newline l with
    | Some r => let (n, r') := off_newlines f r in (S n, r')
    | None => (O, l)
    end
  end.

(** the characters up to (not including) the next CR or LF *)
Fixpoint take_line (l : list Z) : list Z * list Z :=
  match l with
  | [] => ([], [])
  | c :: r => if is_eol c then ([], l) else let (a, b) := take_line r in (c :: a, b)
  end.

Inductive rchunk :=
| RIgnored (t : list Z)
| RNewline (n : nat).

Section Scan.
  Variable ends : list Z -> bool.

  Fixpoint scan_off (fuel : nat) (l : list Z) : list rchunk * list Z :=
    match fuel with
    | O => ([], l)
    | S f =>
      match off_newlines (length l) l with
      | (S n, rest) => let (cs, r) := scan_off f rest in (RNewline (S n) :: cs, r)
      | (O, _) =>
        let (line, rest) := take_line l in
        match line with
        | [] => ([], l)                            (* end of file *)
        | _ => if ends line then ([], l)           (* the line with the enabling text: back to the tokenizer *)
               else let (cs, r) := scan_off f rest in (RIgnored line :: cs, r)
        end
      end
    end.
End Scan.

(** ** reference notions used by the statements (independent of the scanner) *)

(** the lines of a text: LF, CR LF and CR all end a line; the text after the last terminator is the last line *)
Fixpoint lines (l : list Z) : list (list Z) :=
  match l with
  | [] => [[]]
  | c :: r =>
    if c =? 10 then [] :: lines r
    else if c =? 13 then
      match r with
      | d :: r' => if d =? 10 then [] :: lines r' else [] :: lines r
      | [] => [] :: lines r
      end
    else match lines r with
         | h :: t => (c :: h) :: t
         | [] => [[c]]
         end
  end.

Definition nonblank (ln : list Z) : bool := existsb (fun c => negb (is_blank c)) ln.

Definition ignored_texts (cs : list rchunk) : list (list Z) :=
  flat_map (fun c => match c with RIgnored t => [t] | RNewline _ => [] end) cs.

(** plain substring search: UncText::find() *)
Fixpoint prefix_of (p l : list Z) : bool :=
  match p, l with
  | [], _ => true
  | a :: p', b :: l' => (a =? b) && prefix_of p' l'
  | _ :: _, [] => false
  end.
Fixpoint contains (p l : list Z) : bool :=
  prefix_of p l || match l with [] => false | _ :: r => contains p r end.

(** the end-of-region test of parse_ignored() for a plain (non-regex) enabling text:
    "#pragma" blank ... blank "endasm", "#endasm", or the enabling text *)
Definition pragma_sp : list Z := [35;112;114;97;103;109;97;32].
Definition pragma_tab : list Z := [35;112;114;97;103;109;97;9].
Definition sp_endasm : list Z := [32;101;110;100;97;115;109].
Definition tab_endasm : list Z := [9;101;110;100;97;115;109].
Definition hash_endasm : list Z := [35;101;110;100;97;115;109].
Definition ends_plain (ontext : list Z) (line : list Z) : bool :=
  ((contains pragma_sp line || contains pragma_tab line) && (contains sp_endasm line || contains tab_endasm line))
  || contains hash_endasm line
  || contains ontext line.
