(** Types shared by the generated registry (coq/Gen/Registry.v) and the configuration model. *)
From Coq Require Import List ZArith Bool.
Import ListNotations.
Local Open Scope Z_scope.

Inductive kind :=
| KBool | KIarf | KLineEnd | KTokenPos
| KNum (bounds : option (Z * Z))        (* Option<signed> / BoundedOption<signed,min,max> *)
| KUnum (bounds : option (Z * Z))       (* BoundedOption<unsigned,min,max> *)
| KString.

Inductive value :=
| VBool (b : bool) | VIarf (n : Z) | VLineEnd (n : Z) | VTokenPos (n : Z)
| VNum (z : Z) | VUnum (z : Z) | VStr (s : list Z).

Record optdef := mkopt { o_name : list Z; o_kind : kind; o_def : value }.
