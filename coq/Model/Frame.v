(** * Model F (part): independence of the files of one invocation.
    An abstract multi-file semantics over a store of global fields.  [process] is ARBITRARY (it stands for
    tokenizer + all passes + output) except for two frame assumptions: it only writes fields of [W], and what
    it computes depends only on the input and on the fields it may read.  [prepare] assigns the fields of [P]
    from the file itself; [reset] (uncrustify_end) puts the fields of [R] back to their initial values. *)
From Coq Require Import List Bool Arith.
Import ListNotations.

Section Frame.
  Variable field : Type.
  Variable field_eqb : field -> field -> bool.
  Hypothesis field_eqb_eq : forall a b, field_eqb a b = true <-> a = b.
  Variable value input output : Type.

  Definition store := field -> value.
  Variable init : store.

  Definition mem (f : field) (l : list field) : bool := existsb (field_eqb f) l.

  Variable W R P : list field.
  Variable prepare : input -> field -> value.            (* values of the P fields for this file *)
  Variable process : store -> input -> store * output.

  (** frame assumptions on the unmodelled processing *)
  Hypothesis process_writes_only_W : forall s i f, mem f W = false -> fst (process s i) f = s f.
  Hypothesis process_reads : forall s1 s2 i, (forall f, s1 f = s2 f) -> snd (process s1 i) = snd (process s2 i).

  Definition do_prepare (s : store) (i : input) : store := fun f => if mem f P then prepare i f else s f.
  Definition do_reset (s : store) : store := fun f => if mem f R then init f else s f.

  Definition one_file (s : store) (i : input) : store * output :=
    let '(s1, o) := process (do_prepare s i) i in (do_reset s1, o).

  Fixpoint batch (s : store) (files : list input) : list output :=
    match files with
    | [] => []
    | i :: r => let '(s', o) := one_file s i in o :: batch s' r
    end.

  Definition single (i : input) : output := snd (one_file init i).

  (** the condition that the generated inventory must satisfy *)
  Hypothesis covered : forall f, mem f W = true -> mem f R = true \/ mem f P = true.

  (** invariant between files: outside P the store equals the initial store *)
  Definition clean (s : store) : Prop := forall f, mem f P = false -> s f = init f.

  Lemma clean_init : clean init.
  Proof. intros f _. reflexivity. Qed.

  Lemma prepare_clean s i : clean s -> forall f, do_prepare s i f = do_prepare init i f.
  Proof. intros Hc f. unfold do_prepare. destruct (mem f P) eqn:E; [reflexivity|apply Hc; exact E]. Qed.

  Lemma one_file_clean s i : clean s -> clean (fst (one_file s i)) /\ snd (one_file s i) = single i.
  Proof.
    intros Hc. unfold single, one_file.
    pose proof (process_reads (do_prepare s i) (do_prepare init i) i (prepare_clean s i Hc)) as Ho.
    destruct (process (do_prepare s i) i) as [s1 o] eqn:E1.
    destruct (process (do_prepare init i) i) as [s2 o2] eqn:E2.
    cbn [fst snd] in *. split; [|exact Ho].
    intros f HP. unfold do_reset. destruct (mem f R) eqn:ER; [reflexivity|].
    destruct (mem f W) eqn:EW.
    - destruct (covered f EW) as [X|X]; congruence.
    - pose proof (process_writes_only_W (do_prepare s i) i f EW) as Hw. rewrite E1 in Hw. cbn [fst] in Hw.
      rewrite Hw. unfold do_prepare. rewrite HP. apply Hc. exact HP.
  Qed.

  (** every file of a batch is formatted exactly as by a separate invocation: any number of files, any order *)
  Theorem batch_is_independent : forall files s, clean s -> batch s files = map single files.
  Proof.
    induction files as [|i r IH]; intros s Hc; [reflexivity|].
    cbn [batch map]. destruct (one_file_clean s i Hc) as [H1 H2].
    destruct (one_file s i) as [s' o]. cbn [fst snd] in *. rewrite H2. f_equal. apply IH. exact H1.
  Qed.
End Frame.
