(** Extraction of the executable models to OCaml.  Directives used (complete
    list, part of the trusted base): ExtrOcamlBasic only (bool, option, list,
    prod, unit, sumbool -> OCaml natives).  No Extract Constant.  Z, N,
    positive, nat stay the extracted inductives.  The .ml/.mli files land in
    the directory coqc is started from (/verif/_work/ocaml). *)
From Coq Require Import Extraction ExtrOcamlBasic.
From UV Require Import Model.Codec Model.FsProto Model.Backup Proofs.BackupProofs Proofs.CheckProofs Model.ConfigDefs Model.Config Model.ConfigInst Model.Render Model.NlMax Model.NlAuto Model.Region Model.LexC Model.TokDiff Model.ChunkList Proofs.ChunkListProofs.
Extraction Language OCaml.
Extraction "uvmodel.ml" Codec.run_file Codec.decode_unicode Codec.repo_check_min
  Codec.write_string Codec.write_bom
  FsProto.run FsProto.no_plan FsProto.disk0
  Backup.step Backup.admissible Backup.pstep Backup.own BackupProofs.idh CheckProofs.check_exit
  ConfigInst.cfg_init ConfigInst.cfg_load ConfigInst.cfg_save ConfigInst.cfg_non_default ConfigInst.cfg_set_option Config.line_printable
  Render.render Render.realise
  NlMax.nlmax_ok NlMax.in_scope
  NlAuto.census_of NlAuto.select_le
  Region.scan_off Region.ends_plain Region.lines Region.nonblank
  LexC.lex
  TokDiff.c04_ok TokDiff.diff_ok TokDiff.balanced
  ChunkList.cl_run ChunkList.cl_observe ChunkListProofs.swap_lines_guard.
