(** The C04 checker is sound and complete for the relation it is meant to decide: [b] is obtained from [a] by a
    script that inserts and deletes allowed tokens only and copies every other token in order. *)
From Coq Require Import List ZArith Bool Arith Lia.
From UV Require Import Model.TokDiff.
Import ListNotations.
Local Open Scope Z_scope.

Lemma tok_eqb_eq a : forall b, tok_eqb a b = true <-> a = b.
Proof.
  induction a as [|x a IH]; intros [|y b]; cbn [tok_eqb]; split; intros H; try reflexivity; try discriminate.
  - apply andb_prop in H. destruct H as [H1 H2]. apply Z.eqb_eq in H1. apply IH in H2. subst. reflexivity.
  - injection H as <- <-. rewrite Z.eqb_refl. cbn. apply IH. reflexivity.
Qed.

Lemma toks_eqb_eq a : forall b, toks_eqb a b = true <-> a = b.
Proof.
  induction a as [|x a IH]; intros [|y b]; cbn [toks_eqb]; split; intros H; try reflexivity; try discriminate.
  - apply andb_prop in H. destruct H as [H1 H2]. apply tok_eqb_eq in H1. apply IH in H2. subst. reflexivity.
  - injection H as <- <-. rewrite (proj2 (tok_eqb_eq x x) eq_refl). cbn. apply IH. reflexivity.
Qed.

(** edit scripts over allowed tokens *)
Inductive edits (allowed : list token) : list token -> list token -> Prop :=
| ed_nil : edits allowed [] []
| ed_copy t a b : edits allowed a b -> edits allowed (t :: a) (t :: b)
| ed_del t a b : mem allowed t = true -> edits allowed a b -> edits allowed (t :: a) b
| ed_ins t a b : mem allowed t = true -> edits allowed a b -> edits allowed a (t :: b).

Lemma edits_keep allowed a b : edits allowed a b -> keep allowed a = keep allowed b.
Proof.
  induction 1 as [|t a b _ IH|t a b Hm _ IH|t a b Hm _ IH]; unfold keep in *; cbn [filter].
  - reflexivity.
  - destruct (negb (mem allowed t)); [f_equal|]; exact IH.
  - rewrite Hm. cbn. exact IH.
  - rewrite Hm. cbn. exact IH.
Qed.

Lemma edits_delete_all allowed a : edits allowed a (keep allowed a).
Proof.
  induction a as [|t a IH]; unfold keep in *; cbn [filter]; [constructor|].
  destruct (mem allowed t) eqn:E; cbn [negb].
  - apply ed_del; assumption.
  - apply ed_copy. exact IH.
Qed.

Lemma edits_insert_all allowed b : edits allowed (keep allowed b) b.
Proof.
  induction b as [|t b IH]; unfold keep in *; cbn [filter]; [constructor|].
  destruct (mem allowed t) eqn:E; cbn [negb].
  - apply ed_ins; assumption.
  - apply ed_copy. exact IH.
Qed.

Lemma edits_trans allowed a b c : edits allowed a b -> edits allowed b c -> edits allowed a c.
Proof.
  intros H. revert c. induction H as [|t a b _ IH|t a b Hm _ IH|t a b Hm _ IH]; intros c Hc.
  - exact Hc.
  - remember (t :: b) as tb eqn:E. revert a IH E. induction Hc as [|t' x y Hxy IHc|t' x y Hm' Hxy IHc|t' x y Hm' Hxy IHc]; intros a0 IH0 E.
    + discriminate.
    + injection E as -> ->. apply ed_copy. apply IH0. exact Hxy.
    + injection E as -> ->. apply ed_del; [exact Hm'|]. apply IH0. exact Hxy.
    + apply ed_ins; [exact Hm'|]. apply (IHc a0 IH0 E).
  - apply ed_del; [exact Hm|]. apply IH. exact Hc.
  - remember (t :: b) as tb eqn:E. revert a IH E Hm. induction Hc as [|t' x y Hxy IHc|t' x y Hm' Hxy IHc|t' x y Hm' Hxy IHc]; intros a0 IH0 E Hm0.
    + discriminate.
    + injection E as -> ->. apply ed_ins; [exact Hm0|]. apply IH0. exact Hxy.
    + injection E as -> ->. apply IH0. exact Hxy.
    + apply ed_ins; [exact Hm'|]. apply (IHc a0 IH0 E Hm0).
Qed.

(** Theorem: the checker accepts exactly the pairs related by an edit script over the allowed tokens *)
Theorem diff_ok_iff_edits allowed a b : diff_ok allowed a b = true <-> edits allowed a b.
Proof.
  unfold diff_ok. rewrite toks_eqb_eq. split.
  - intros E. apply (edits_trans allowed a (keep allowed a) b); [apply edits_delete_all|].
    rewrite E. apply edits_insert_all.
  - apply edits_keep.
Qed.

(** with nothing allowed, the streams are equal *)
Theorem diff_ok_none a b : diff_ok [] a b = true <-> a = b.
Proof.
  unfold diff_ok, keep. cbn [mem existsb negb].
  assert (F : forall l : list token, filter (fun _ => true) l = l) by (induction l as [|x l IH]; cbn; [reflexivity|f_equal; exact IH]).
  rewrite !F. apply toks_eqb_eq.
Qed.
