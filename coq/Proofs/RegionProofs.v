(** Proofs about Model/Region.v: while processing is off, the scanner is lossless on non-blank lines
    (each becomes exactly one IGNORED chunk, text identical, order kept) and stops exactly in front of the first
    non-blank line holding the enabling text, whatever the other lines contain. *)
From Coq Require Import List ZArith Bool Arith Lia.
From UV Require Import Model.Region.
Import ListNotations.
Local Open Scope Z_scope.

Definition no_eol (a : list Z) : Prop := forallb (fun c => negb (is_eol c)) a = true.
Definition all_blank (a : list Z) : Prop := forallb is_blank a = true.

Lemma lines_nonempty l : lines l <> [].
Proof.
  destruct l as [|c r]; cbn [lines]; [discriminate|].
  destruct (c =? 10); [discriminate|].
  destruct (c =? 13).
  - destruct r as [|d r']; [discriminate|]. destruct (d =? 10); discriminate.
  - destruct (lines r); discriminate.
Qed.

Lemma lines_cons_plain c r : is_eol c = false ->
  lines (c :: r) = match lines r with h :: t => (c :: h) :: t | [] => [[c]] end.
Proof.
  unfold is_eol. intros H. apply orb_false_elim in H. destruct H as [H1 H2].
  cbn [lines]. rewrite H1, H2. reflexivity.
Qed.

Lemma lines_app_noeol a : no_eol a -> forall y,
  lines (a ++ y) = match lines y with h :: t => (a ++ h) :: t | [] => [a] end.
Proof.
  unfold no_eol. induction a as [|c a IH]; intros H y; cbn [app].
  - destruct (lines y) eqn:E; [destruct (lines_nonempty _ E)|reflexivity].
  - cbn [forallb] in H. apply andb_prop in H. destruct H as [Hc Ha].
    apply negb_true_iff in Hc. rewrite lines_cons_plain by exact Hc.
    rewrite (IH Ha y). destruct (lines y) eqn:E; [destruct (lines_nonempty _ E)|reflexivity].
Qed.

Lemma blank_no_eol a : all_blank a -> no_eol a.
Proof.
  unfold all_blank, no_eol. induction a as [|c a IH]; cbn [forallb]; intros H; [reflexivity|].
  apply andb_prop in H. destruct H as [Hc Ha]. rewrite (IH Ha), andb_true_r.
  unfold is_blank in Hc. unfold is_eol. apply orb_prop in Hc.
  destruct Hc as [Hc|Hc]; apply Z.eqb_eq in Hc; subst c; reflexivity.
Qed.

Lemma blank_not_nonblank a : all_blank a -> nonblank a = false.
Proof.
  unfold all_blank, nonblank. induction a as [|c a IH]; cbn [forallb existsb]; intros H; [reflexivity|].
  apply andb_prop in H. destruct H as [Hc Ha]. rewrite Hc, (IH Ha). reflexivity.
Qed.

(** the three terminators, as parse_newline() consumes them; a bare CR is one only when no LF follows *)
Inductive eol_seq (x : list Z) : list Z -> Prop :=
| e_lf : eol_seq x [10]
| e_crlf : eol_seq x [13; 10]
| e_cr : hd 0 x <> 10 -> eol_seq x [13].

Lemma lines_eol e x : eol_seq x e -> lines (e ++ x) = [] :: lines x.
Proof.
  intros [| |H]; cbn [app lines Z.eqb]; try reflexivity.
  cbn. destruct x as [|d x']; [reflexivity|].
  cbn [hd] in H. destruct (d =? 10) eqn:E; [apply Z.eqb_eq in E; contradiction|reflexivity].
Qed.

Lemma blank_line_filter b e x : all_blank b -> eol_seq x e ->
  filter nonblank (lines (b ++ e ++ x)) = filter nonblank (lines x).
Proof.
  intros Hb He. rewrite (lines_app_noeol b (blank_no_eol b Hb)), (lines_eol e x He), app_nil_r.
  cbn [filter]. rewrite (blank_not_nonblank b Hb). reflexivity.
Qed.

Lemma skip_blanks_spec l : exists b, l = b ++ skip_blanks l /\ all_blank b.
Proof.
  induction l as [|c r [b [E Hb]]]; [exists []; split; reflexivity|].
  cbn [skip_blanks]. destruct (is_blank c) eqn:Hc.
  - exists (c :: b). split; [cbn [app]; rewrite <- E; reflexivity|].
    unfold all_blank. cbn [forallb]. rewrite Hc. exact Hb.
  - exists []. split; reflexivity.
Qed.

Lemma parse_newline_spec l r : parse_newline l = Some r ->
  exists b e, l = b ++ e ++ r /\ all_blank b /\ eol_seq r e.
Proof.
  unfold parse_newline. destruct (skip_blanks_spec l) as [b [E Hb]].
  destruct (skip_blanks l) as [|c t] eqn:S; [discriminate|].
  destruct (c =? 10) eqn:C10.
  - intros H. injection H as <-. apply Z.eqb_eq in C10. subst c.
    exists b, [10]. split; [exact E|]. split; [exact Hb|constructor].
  - destruct (c =? 13) eqn:C13; [|discriminate]. apply Z.eqb_eq in C13. subst c.
    destruct t as [|d t'].
    + intros H. injection H as <-. exists b, [13]. split; [exact E|]. split; [exact Hb|].
      apply e_cr. cbn. discriminate.
    + destruct (d =? 10) eqn:D.
      * intros H. injection H as <-. apply Z.eqb_eq in D. subst d.
        exists b, [13; 10]. split; [exact E|]. split; [exact Hb|constructor].
      * intros H. injection H as <-. exists b, [13]. split; [exact E|]. split; [exact Hb|].
        apply e_cr. cbn [hd]. intro X. subst d. discriminate.
Qed.

Lemma hd_prefix (x y : list Z) : hd 0 (x ++ y) <> 10 -> hd 0 x <> 10.
Proof. destruct x; cbn; [discriminate|auto]. Qed.

Lemma eol_seq_prefix x y e : eol_seq (x ++ y) e -> eol_seq x e.
Proof. intros [| |H]; constructor. exact (hd_prefix x y H). Qed.

Lemma off_newlines_spec fuel : forall l n r, off_newlines fuel l = (n, r) ->
  exists c, l = c ++ r
    /\ (forall x y, r = x ++ y -> filter nonblank (lines (c ++ x)) = filter nonblank (lines x))
    /\ (n = O -> r = l) /\ (n <> O -> (length r < length l)%nat).
Proof.
  induction fuel as [|f IH]; intros l n r; cbn [off_newlines].
  - intros H. injection H as <- <-. exists []. repeat split; auto. congruence.
  - destruct (parse_newline l) as [r1|] eqn:P.
    + destruct (off_newlines f r1) as [n' r'] eqn:Ho. intros H. injection H as <- <-.
      destruct (parse_newline_spec l r1 P) as [b [e [El [Hb He]]]].
      destruct (IH r1 n' r' Ho) as [c1 [E1 [F1 [Z1 N1]]]].
      exists (b ++ e ++ c1). split; [rewrite El, E1 at 1; rewrite <- !app_assoc; reflexivity|].
      split; [|split; [discriminate|]].
      * intros x y Hr. rewrite <- !app_assoc.
        rewrite blank_line_filter; [exact (F1 x y Hr)|exact Hb|].
        apply (eol_seq_prefix (c1 ++ x) y). rewrite <- app_assoc, <- Hr, <- E1. exact He.
      * intros _. assert (length r' <= length r1)%nat.
        { destruct n'; [rewrite (Z1 eq_refl); lia|]. specialize (N1 ltac:(discriminate)). lia. }
        rewrite El, !app_length. destruct He; cbn [length]; lia.
    + intros H. injection H as <- <-. exists []. repeat split; auto. congruence.
Qed.

Lemma take_line_spec l : forall a b, take_line l = (a, b) ->
  l = a ++ b /\ no_eol a /\ (b = [] \/ is_eol (hd 0 b) = true).
Proof.
  induction l as [|c r IH]; cbn [take_line]; intros a b H.
  - injection H as <- <-. repeat split. left. reflexivity.
  - destruct (is_eol c) eqn:Hc.
    + injection H as <- <-. repeat split. right. exact Hc.
    + destruct (take_line r) as [a' b'] eqn:T. injection H as <- <-.
      destruct (IH a' b' eq_refl) as [E [Ha Hb]]. split; [cbn [app]; rewrite <- E; reflexivity|].
      split; [|exact Hb]. unfold no_eol. cbn [forallb]. rewrite Hc. exact Ha.
Qed.

(** lines of a text that starts a new line: the first entry is the (empty) rest of the line before it *)
Lemma lines_after_break c : (c = [] \/ is_eol (hd 0 c) = true) -> exists t, lines c = [] :: t.
Proof.
  intros [->|H]; [exists []; reflexivity|].
  destruct c as [|d c']; [exists []; reflexivity|]. cbn [hd] in H. unfold is_eol in H.
  cbn [lines]. destruct (d =? 10); [eexists; reflexivity|]. cbn [orb] in H. rewrite H.
  destruct c' as [|d' c'']; [eexists; reflexivity|]. destruct (d' =? 10); eexists; reflexivity.
Qed.

Lemma prefix_break (x y : list Z) : (x ++ y = [] \/ is_eol (hd 0 (x ++ y)) = true) -> (x = [] \/ is_eol (hd 0 x) = true).
Proof. destruct x; [left; reflexivity|]. cbn. intros [H|H]; [discriminate|right; exact H]. Qed.

Section Scan.
  Variable ends : list Z -> bool.

  (** what the scanner stopped in front of: the end of the text, or a non-empty line holding the enabling text
      (or it ran out of fuel, excluded in the theorems below by [fuel > length]) *)
  Definition stopped (rest : list Z) : Prop :=
    rest = [] \/ (off_newlines (length rest) rest = (O, rest) /\ fst (take_line rest) <> [] /\ ends (fst (take_line rest)) = true).

  Lemma scan_off_spec fuel : forall l cs rest, scan_off ends fuel l = (cs, rest) ->
    exists consumed, l = consumed ++ rest
      /\ filter nonblank (lines consumed) = filter nonblank (ignored_texts cs)
      /\ (forall t, In (RIgnored t) cs -> t <> [] /\ no_eol t /\ ends t = false)
      /\ ((length l < fuel)%nat -> stopped rest).
  Proof.
    induction fuel as [|f IH]; intros l cs rest; cbn [scan_off].
    - intros H. injection H as <- <-. exists []. repeat split; try reflexivity; try (match goal with H : In _ [] |- _ => destruct H end). intros Hl. exfalso. lia.
    - destruct (off_newlines (length l) l) as [n r1] eqn:Ho. destruct n as [|n].
      + destruct (take_line l) as [line b] eqn:T.
        destruct (take_line_spec l line b T) as [El [Hne Hb]].
        assert (R0 : r1 = l).
        { destruct (off_newlines_spec _ _ _ _ Ho) as [c [_ [_ [Z _]]]]. exact (Z eq_refl). }
        destruct line as [|c0 line'].
        * intros H. injection H as <- <-. exists []. repeat split; try reflexivity; try (match goal with H : In _ [] |- _ => destruct H end).
          intros _. cbn [app] in El. subst b. destruct Hb as [Hb|Hb]; [left; exact Hb|].
          (* a text starting with an end-of-line always yields a newline: impossible here *)
          exfalso. destruct l as [|d l']; [discriminate|]. cbn [hd] in Hb. cbn [length off_newlines]  in Ho.
          unfold parse_newline  in Ho. cbn [skip_blanks]  in Ho.
          assert (is_blank d = false).
          { unfold is_eol in Hb. unfold is_blank. apply orb_prop in Hb. destruct Hb as [X|X]; apply Z.eqb_eq in X; subst d; reflexivity. }
          rewrite H  in Ho. unfold is_eol in Hb. destruct (d =? 10).
          { destruct (off_newlines (length l') l'). discriminate. }
          cbn [orb] in Hb. rewrite Hb  in Ho. destruct l' as [|d' l''].
          { destruct (off_newlines (length (@nil Z)) []). discriminate. }
          destruct (d' =? 10).
          { destruct (off_newlines (length (d' :: l'')) l''). discriminate. }
          { destruct (off_newlines (length (d' :: l'')) (d' :: l'')). discriminate. }
        * destruct (ends (c0 :: line')) eqn:En.
          -- intros H. injection H as <- <-. exists []. repeat split; try reflexivity; try (match goal with H : In _ [] |- _ => destruct H end).
             intros _. right. rewrite T. cbn [fst]. rewrite Ho, R0.
             repeat split; [discriminate|exact En].
          -- destruct (scan_off ends f b) as [cs' r'] eqn:S. intros H. injection H as <- <-.
             destruct (IH b cs' r' S) as [c' [Eb [F [I St]]]].
             exists ((c0 :: line') ++ c'). split; [rewrite El, Eb at 1; rewrite app_assoc; reflexivity|].
             split; [|split].
             ++ rewrite (lines_app_noeol _ Hne).
                destruct (lines_after_break c') as [t Ht].
                { apply (prefix_break c' r'). rewrite <- Eb. exact Hb. }
                rewrite Ht, app_nil_r. cbn [ignored_texts flat_map app filter].
                rewrite Ht in F. cbn [filter] in F. replace (nonblank []) with false in F by reflexivity.
                fold (ignored_texts cs'). rewrite F. reflexivity.
             ++ intros t [Ht|Ht]; [injection Ht as <-; repeat split; [discriminate|exact Hne|exact En]|exact (I t Ht)].
             ++ intros Hl. apply St. rewrite El, app_length in Hl. cbn [length] in Hl. lia.
      + destruct (scan_off ends f r1) as [cs' r'] eqn:S. intros H. injection H as <- <-.
        destruct (off_newlines_spec _ _ _ _ Ho) as [c [El [Fc [_ Nc]]]].
        destruct (IH r1 cs' r' S) as [c' [E1 [F [I St]]]].
        exists (c ++ c'). split; [rewrite El, E1 at 1; rewrite app_assoc; reflexivity|].
        split; [|split].
        * rewrite (Fc c' r' E1). cbn [ignored_texts flat_map app]. exact F.
        * intros t [Ht|Ht]; [discriminate|exact (I t Ht)].
        * intros Hl. apply St. specialize (Nc ltac:(discriminate)). lia.
  Qed.

  (** Theorem (lossless, in order): with enough fuel, the non-blank lines of the consumed text are exactly the
      texts of the IGNORED chunks, one chunk per line, in order; what is left starts with the enabling line. *)
  Theorem region_scan l cs rest :
    scan_off ends (S (length l)) l = (cs, rest) ->
    exists consumed, l = consumed ++ rest
      /\ filter nonblank (lines consumed) = filter nonblank (ignored_texts cs)
      /\ (forall t, In (RIgnored t) cs -> t <> [] /\ no_eol t /\ ends t = false)
      /\ stopped rest.
  Proof.
    intros H. destruct (scan_off_spec _ _ _ _ H) as [c [E [F [I St]]]].
    exists c. split; [exact E|]. split; [exact F|]. split; [exact I|]. apply St. lia.
  Qed.
End Scan.
