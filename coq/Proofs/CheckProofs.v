(** Proofs for C12 over Model/FsProto.v: --check writes nothing and tells the truth; --if-changed writes
    the target exactly when the formatted bytes differ. *)
From Coq Require Import List ZArith Bool Arith Lia.
From UV Require Import Model.FsProto Proofs.FsProofs.
Import ListNotations.

(** ** --check never creates, modifies or removes a file: for every fault plan and crash point *)
Section CheckFrame.
  Variable pl : plan.
  Variable md : mode.
  Variable fmt : bytes -> option bytes.
  Hypothesis Hcheck : do_check md = true.

  Lemma touches_after_load_check orig pre : touches (after_load pl md fmt orig pre) [].
  Proof.
    unfold after_load. rewrite Hcheck. destruct (fmt orig); [apply touches_ret|apply touches_exit].
  Qed.

  Lemma touches_check : if_changed md = false -> touches (do_source_file pl md fmt) [].
  Proof.
    intros Hic. unfold do_source_file. rewrite Hic.
    apply touches_bind; [apply touches_load|intros b]. apply touches_after_load_check.
  Qed.

  Theorem check_writes_nothing d0 :
    if_changed md = false -> forall r, r_disk (run pl md fmt d0) r = d0 r.
  Proof.
    intros Hic r. unfold run.
    pose proof (touches_check Hic {| disk := d0; nop := 0; trace := [] |} r (fun x => x)) as H.
    destruct (do_source_file pl md fmt {| disk := d0; nop := 0; trace := [] |}); exact H.
  Qed.
End CheckFrame.

Ltac fs_eval :=
  cbv beta iota zeta delta
    [run do_source_file after_load write_out load backup_copy content_matches create_md5
     bind ret exit_ op_probe op_read op_simple op_close op_fopen_w op_write op_fclose_w op_rename op_unlink
     begin_op get put log no_plan crash faults crashw_here eff_crash eff_fault bites disk nop trace
     in_place to_file no_backup if_changed do_check keep_mtime
     upd role_eqb exists_ negb andb orb r_exit r_disk r_out check_fail stdout content_eqb bytes_of app_content app].

(** ** --check tells the truth (a run without faults) *)
Theorem check_verdict md fmt orig d0 :
  do_check md = true -> if_changed md = false -> d0 RIn = Closed (Data orig) ->
  let r := run no_plan md fmt d0 in
  (r_exit r = Some 0%Z <-> fmt orig = Some orig) /\
  (forall f, fmt orig = Some f -> f <> orig -> r_exit r = Some 1%Z) /\
  (fmt orig = None -> r_exit r = Some EX_FMT).
Proof.
  intros Hc Hic Hin r. subst r. destruct md as [ip tf nb ic dc km]. cbn in Hc, Hic. subst dc ic.
  destruct orig as [|x o]; destruct (fmt _) as [f|] eqn:Hf.
  all: repeat (progress (try rewrite Hin; try rewrite Hf; fs_eval)).
  all: try (destruct (bytes_eqb f _) eqn:Eb; fs_eval).
  all: try (apply bytes_eqb_eq in Eb; subst f).
  all: repeat split; try discriminate; try reflexivity; auto.
  all: try (intros f' Hf' Hne; congruence).
  all: try (intros X; injection X as ->; rewrite bytes_eqb_refl in Eb; discriminate).
Qed.

(** exit status of an invocation with several files: non-zero iff some file failed the check *)
Definition check_exit (fails : list bool) : Z := if existsb (fun b => b) fails then 1%Z else 0%Z.

Theorem check_exit_spec fails : check_exit fails = 0%Z <-> Forall (fun b => b = false) fails.
Proof.
  unfold check_exit. induction fails as [|b l IH]; cbn.
  - split; [constructor|reflexivity].
  - destruct b; cbn.
    + split; [discriminate|]. intros H. inversion H. discriminate.
    + rewrite IH. split; [intros H; constructor; auto|intros H; inversion H; auto].
Qed.

(** ** --if-changed with a separate output file (-f IN -o OUT): OUT is written iff the formatted
    bytes differ from the input, and then holds exactly the formatted bytes *)
Theorem if_changed_separate_output fmt orig f d0 nb km :
  d0 RIn = Closed (Data orig) -> fmt orig = Some f ->
  let md := {| in_place := false; to_file := true; no_backup := nb; if_changed := true;
               do_check := false; keep_mtime := km |} in
  let r := run no_plan md fmt d0 in
  r_exit r = Some 0%Z /\
  r_disk r ROut = (if bytes_eqb f orig then d0 ROut else Closed (Data f)) /\
  (forall x, x <> ROut -> r_disk r x = d0 x).
Proof.
  intros Hin Hf md r. subst md r.
  destruct orig as [|x o].
  all: repeat (progress (try rewrite Hin; try rewrite Hf; fs_eval)).
  all: destruct (bytes_eqb f _) eqn:Eb; fs_eval.
  all: try (repeat split; auto; fail).
  all: destruct f as [|y f']; try (rewrite bytes_eqb_refl in Eb; discriminate).
  all: destruct km; repeat (progress (try rewrite Hin; fs_eval)).
  all: (split; [reflexivity|]); (split; [reflexivity|]); intros z Hz; destruct z; try reflexivity; contradiction.
Qed.

(** --if-changed to stdout (-f IN): nothing is printed for an unchanged file *)
Theorem if_changed_stdout fmt orig f d0 :
  d0 RIn = Closed (Data orig) -> fmt orig = Some f ->
  let md := {| in_place := false; to_file := false; no_backup := false; if_changed := true;
               do_check := false; keep_mtime := false |} in
  r_out (run no_plan md fmt d0) = Some {| stdout := if bytes_eqb f orig then [] else f; check_fail := false |}.
Proof.
  intros Hin Hf md. subst md.
  destruct orig as [|x o].
  all: repeat (progress (try rewrite Hin; try rewrite Hf; fs_eval)).
  all: match goal with |- context [bytes_eqb ?a ?b] => destruct (bytes_eqb a b) end; reflexivity.
Qed.

(** bout_content_matches: the byte comparison is equality *)
Theorem bout_matches_iff a b : bytes_eqb a b = true <-> a = b.
Proof. apply bytes_eqb_eq. Qed.
