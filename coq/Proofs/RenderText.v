(** The output stage is lossless on text: the non-white-space characters it writes are exactly the
    non-white-space characters of the chunk texts, chunk by chunk, in list order (C02: "output writes every chunk's
    text once, in list order"; C03: literal chunks are written verbatim). *)
From Coq Require Import List ZArith Bool Arith Lia.
From UV Require Import Model.Render Proofs.RenderProofs.
Import ListNotations.
Local Open Scope Z_scope.

(** white space the writer itself produces or consumes *)
Definition wsc (c : Z) : bool := (c =? 32) || (c =? 9) || (c =? 10) || (c =? 13).
Definition nws (t : list Z) : list Z := filter (fun c => negb (wsc c)) t.

Definition sym_chars (x : sym) : list Z :=
  match x with NL => [] | Ch c => nws [c] | Raw c => nws [c] | Seg s => nws s end.
(** non-white-space characters of a (reversed) output, in writing order *)
Definition nw (o : list sym) : list Z := flat_map sym_chars (rev o).

Lemma nw_app a b : nw (a ++ b) = nw b ++ nw a.
Proof. unfold nw. rewrite rev_app_distr, flat_map_app. reflexivity. Qed.

Lemma nws_app a b : nws (a ++ b) = nws a ++ nws b.
Proof. unfold nws. apply filter_app. Qed.

(** [extw w s s']: [s'] extends the output of [s], and the new symbols carry exactly the characters [w] *)
Definition extw (w : list Z) (s s' : wstate) : Prop := exists l, out s' = l ++ out s /\ nw l = w.

Lemma extw_refl s : extw [] s s.
Proof. exists []. split; reflexivity. Qed.

Lemma extw_trans w1 w2 s1 s2 s3 : extw w1 s1 s2 -> extw w2 s2 s3 -> extw (w1 ++ w2) s1 s3.
Proof.
  intros (l1 & E1 & F1) (l2 & E2 & F2). exists (l2 ++ l1). split.
  - rewrite E2, E1, app_assoc. reflexivity.
  - rewrite nw_app, F1, F2. reflexivity.
Qed.

Lemma extw_same s s' : out s' = out s -> extw [] s s'.
Proof. intros E. exists []. split; [exact E|reflexivity]. Qed.

Lemma extw_nil_trans s1 s2 s3 w : extw [] s1 s2 -> extw w s2 s3 -> extw w s1 s3.
Proof. intros A B. exact (extw_trans [] w s1 s2 s3 A B). Qed.

Lemma extw_trans_nil s1 s2 s3 w : extw w s1 s2 -> extw [] s2 s3 -> extw w s1 s3.
Proof. intros A B. pose proof (extw_trans w [] s1 s2 s3 A B) as H. rewrite app_nil_r in H. exact H. Qed.

Lemma nw_spaces n : nw (repeat (Ch 32) n) = [].
Proof.
  unfold nw. induction n as [|n IH]; [reflexivity|]. cbn [repeat rev]. rewrite flat_map_app, IH. reflexivity.
Qed.

Section Text.
  Variable o : ropts.

  Lemma w_add_spaces s : extw [] s (add_spaces s).
  Proof. exists (repeat (Ch 32) (Z.to_nat (spaces s))). split; [reflexivity|apply nw_spaces]. Qed.

  Lemma w_cr_fixup s ch : extw [] s (cr_fixup s ch).
  Proof.
    unfold cr_fixup. destruct ((last_char s =? 13) && negb (ch =? 10)); [|apply extw_refl].
    exists [NL]. split; reflexivity.
  Qed.

  Lemma w_add_char1 s ch : extw (nws [ch]) s (add_char1 o s ch).
  Proof.
    unfold add_char1. eapply extw_nil_trans; [apply (w_cr_fixup s ch)|].
    set (s1 := cr_fixup s ch).
    destruct (ch =? 10) eqn:E10.
    - apply Z.eqb_eq in E10. subst ch. eapply extw_nil_trans; [apply (w_add_spaces s1)|].
      exists [NL]. split; reflexivity.
    - destruct (ch =? 13) eqn:E13.
      { apply Z.eqb_eq in E13. subst ch. apply extw_same. reflexivity. }
      destruct ((ch =? 32) && negb (trailspace s1)) eqn:E32.
      { apply andb_prop in E32. destruct E32 as [E32 _]. apply Z.eqb_eq in E32. subst ch. apply extw_same. reflexivity. }
      eapply extw_nil_trans; [apply (w_add_spaces s1)|].
      exists [Ch ch]. split; [reflexivity|]. unfold nw. cbn. rewrite app_nil_r. reflexivity.
  Qed.

  Lemma w_space_n n : forall s, extw [] s (space_n o s n).
  Proof.
    unfold space_n. induction n as [|n IH]; intros s; cbn [repeat fold_left]; [apply extw_refl|].
    eapply extw_nil_trans; [apply (w_add_char1 s 32)|apply IH].
  Qed.

  Lemma w_add_char s ch lit : extw (nws [ch]) s (add_char o s ch lit).
  Proof.
    unfold add_char.
    destruct ((ch =? 10) || (ch =? 13)); [apply w_add_char1|].
    destruct ((ch =? 9) && tab_as_space s) eqn:E9.
    { apply andb_prop in E9. destruct E9 as [E9 _]. apply Z.eqb_eq in E9. subst ch.
      eapply extw_nil_trans; [apply w_cr_fixup|apply w_space_n]. }
    destruct (negb lit && (ch =? 9) && (last_char s =? 32) && (eff_iwt o =? 0)) eqn:E.
    { apply andb_prop in E. destruct E as [E _]. apply andb_prop in E. destruct E as [E _].
      apply andb_prop in E. destruct E as [_ E]. apply Z.eqb_eq in E. subst ch. apply w_space_n. }
    apply w_add_char1.
  Qed.

  Lemma w_add_text t lit : forall s, extw (nws t) s (add_text o s t lit).
  Proof.
    unfold add_text. induction t as [|c t IH]; intros s; cbn [fold_left]; [apply extw_refl|].
    change (c :: t) with ([c] ++ t). rewrite nws_app.
    eapply extw_trans; [apply w_add_char|apply IH].
  Qed.

  Lemma w_add_raw t : forall s, extw (nws (filter (fun c => 0 <=? c) t)) s (add_raw s t).
  Proof.
    unfold add_raw. induction t as [|c t IH]; intros s; cbn [fold_left filter]; [apply extw_refl|].
    destruct (c <? 0) eqn:E.
    - replace (0 <=? c) with false by (symmetry; apply Z.leb_gt; apply Z.ltb_lt; exact E). apply IH.
    - replace (0 <=? c) with true by (symmetry; apply Z.leb_le; apply Z.ltb_ge; exact E).
      change (c :: filter (fun c0 => 0 <=? c0) t) with ([c] ++ filter (fun c0 => 0 <=? c0) t). rewrite nws_app.
      eapply extw_trans; [|apply IH].
      exists [Raw c]. split; [reflexivity|]. unfold nw. cbn. rewrite app_nil_r. reflexivity.
  Qed.

  Lemma w_tabs_loop fuel : forall s col, extw [] s (tabs_loop o fuel s col).
  Proof.
    induction fuel as [|f IH]; intros s col; cbn [tabs_loop]; [apply extw_refl|].
    destruct (next_tab_column o (column s) <=? col); [|apply extw_refl].
    eapply extw_nil_trans; [apply (w_add_char s 9 false)|apply IH].
  Qed.

  Lemma w_output_to_column s col allow : extw [] s (output_to_column o s col allow).
  Proof.
    unfold output_to_column.
    eapply extw_nil_trans; [apply (extw_same s (set_did_newline s false)); reflexivity|].
    destruct allow; [|apply w_space_n].
    eapply extw_nil_trans; [apply w_tabs_loop|apply w_space_n].
  Qed.

  Lemma w_newline_loop n : forall first c s, extw [] s (newline_loop o n first c s).
  Proof.
    induction n as [|n IH]; intros first c s; cbn [newline_loop]; [apply extw_refl|].
    eapply extw_nil_trans; [|apply IH].
    destruct (negb first && (1 <? nl_col c)).
    - eapply extw_nil_trans; [apply w_output_to_column|apply (w_add_char _ 10 false)].
    - apply (w_add_char _ 10 false).
  Qed.

  (** what a chunk contributes to the text of the file *)
  Definition contrib (c : chunk) : list Z :=
    match ck c with
    | CKSkipped | CKNewline => []
    | CKNlCont => [92]
    | CKComment => nws (seg c)
    | CKIgnored => nws (filter (fun x => 0 <=? x) (text c))
    | CKOther => nws (text c)
    end.

  Lemma w_render_nlcont rp c s : extw [92] s (render_nlcont o rp c s).
  Proof.
    unfold render_nlcont.
    match goal with |- extw _ _ (after_newline (add_char o (add_char o (output_to_column o s ?cv ?al) 92 false) 10 false)) =>
      set (colv := cv); set (allow := al) end.
    eapply extw_trans_nil; [|apply extw_same; reflexivity].
    eapply extw_nil_trans; [apply (w_output_to_column s colv allow)|].
    eapply extw_trans_nil; [apply (w_add_char _ 92 false)|apply (w_add_char _ 10 false)].
  Qed.

  Lemma w_render_other prev c s : extw (nws (text c)) s (render_other o prev c s).
  Proof.
    unfold render_other.
    set (s0 := set_flags s (is_string_multi c) false).
    match goal with |- extw _ _ (let '(s1, allow) := ?X in _) => destruct X as [s1 allow] eqn:EX end.
    assert (H1 : extw [] s s1).
    { destruct (did_newline s0).
      - injection EX as <- _.
        destruct ((preproc c && (ppiwt o =? 1)) || (negb (preproc c) && (indent_with_tabs o =? 1))).
        + match goal with |- extw _ _ (if ?b then _ else _) => destruct b end.
          * eapply extw_nil_trans; [apply (extw_same s s0); reflexivity|apply w_output_to_column].
          * apply extw_same. reflexivity.
        + apply extw_same. reflexivity.
      - injection EX as <- _. apply extw_same. reflexivity. }
    eapply extw_trans_nil; [|apply extw_same; reflexivity].
    eapply extw_nil_trans; [exact H1|].
    eapply extw_nil_trans; [apply (w_output_to_column s1 (col c) allow)|].
    destruct (is_pp_define c && force_tab_after_define o).
    - eapply extw_trans_nil; [apply w_add_text|apply (w_add_char _ 9 false)].
    - apply w_add_text.
  Qed.

  Lemma w_render_chunk rp c s : extw (contrib c) s (render_chunk o rp c s).
  Proof.
    unfold render_chunk, contrib. destruct (ck c).
    - eapply extw_trans_nil; [|apply extw_same; reflexivity].
      eapply extw_nil_trans; [apply (extw_same s (set_flags s (trailspace s) false)); reflexivity|apply w_newline_loop].
    - eapply extw_nil_trans; [apply (extw_same s (set_flags s (trailspace s) false)); reflexivity|apply w_render_nlcont].
    - exists [Seg (seg c)]. split; [reflexivity|]. unfold nw. cbn. rewrite app_nil_r. reflexivity.
    - eapply extw_nil_trans; [apply (extw_same s (set_flags s (trailspace s) false)); reflexivity|apply w_add_raw].
    - destruct (text c) eqn:Et.
      + apply extw_same. reflexivity.
      + rewrite <- Et. eapply extw_nil_trans; [apply (extw_same s (set_flags s (trailspace s) false)); reflexivity|apply w_render_other].
    - apply extw_refl.
  Qed.

  Lemma w_render_loop l : forall rp s, extw (flat_map contrib l) s (render_loop o rp l s).
  Proof.
    induction l as [|c l IH]; intros rp s; cbn [render_loop flat_map]; [apply extw_refl|].
    eapply extw_trans; [apply w_render_chunk|apply IH].
  Qed.

  (** Theorem: the text the output stage writes is the chunks' text, every chunk once, in list order *)
  Theorem render_text last sp l :
    flat_map sym_chars (render o last sp l) = flat_map contrib l.
  Proof.
    unfold render. destruct (w_render_loop l [] (init_wstate last sp)) as (new & E & W).
    rewrite E. cbn [init_wstate out]. rewrite app_nil_r. exact W.
  Qed.

  (** and so are the bytes, whatever the configured newline (made of CR/LF) *)
  Theorem render_text_bytes nl last sp l : nws nl = [] ->
    nws (realise nl (render o last sp l)) = flat_map contrib l.
  Proof.
    intros Hnl. rewrite <- (render_text last sp l). unfold realise.
    induction (render o last sp l) as [|x r IH]; [reflexivity|].
    cbn [flat_map]. rewrite nws_app, IH. f_equal.
    destruct x; cbn [sym_chars]; try reflexivity. exact Hnl.
  Qed.
End Text.

(** ** C03: a literal chunk (CT_STRING) is written verbatim - tabs, blanks and all - apart from CR/LF handling *)
Section Literal.
  Variable o : ropts.

  Definition litc (c : Z) : Prop := c <> 10 /\ c <> 13.

  Lemma add_char_literal s ch : quiet s -> litc ch ->
    let s' := add_char o s ch true in
    all_out s' = Ch ch :: all_out s /\ quiet s'.
  Proof.
    intros (Hsp & Hl & Hts & Htas) (H10 & H13). unfold add_char.
    replace (ch =? 10) with false by (symmetry; apply Z.eqb_neq; exact H10).
    replace (ch =? 13) with false by (symmetry; apply Z.eqb_neq; exact H13).
    rewrite Htas. cbn [orb negb andb]. rewrite andb_false_r. cbn [andb].
    unfold add_char1, cr_fixup.
    replace (last_char s =? 13) with false by (symmetry; apply Z.eqb_neq; exact Hl). cbn [andb].
    replace (ch =? 10) with false by (symmetry; apply Z.eqb_neq; exact H10).
    replace (ch =? 13) with false by (symmetry; apply Z.eqb_neq; exact H13).
    rewrite Hts. cbn [negb]. rewrite andb_true_r.
    destruct (ch =? 32) eqn:E32.
    - apply Z.eqb_eq in E32. subst ch. cbn. unfold all_out, quiet. cbn.
      replace (Z.to_nat (spaces s + 1)) with (S (Z.to_nat (spaces s))) by lia. cbn [repeat app].
      repeat split; try assumption; try lia; try discriminate.
    - cbn. unfold all_out, quiet. cbn. repeat split; try assumption; try lia.
  Qed.

  Theorem literal_text_verbatim t : Forall litc t -> forall s, quiet s ->
    let s' := add_text o s t true in
    all_out s' = rev (map Ch t) ++ all_out s /\ quiet s'.
  Proof.
    unfold add_text. induction 1 as [|c t Hc _ IH]; intros s Hq; cbn [fold_left].
    - cbn. auto.
    - destruct (add_char_literal s c Hq Hc) as (A & B). destruct (IH _ B) as (A' & B'). cbn zeta in *.
      rewrite A', A. cbn [map rev]. rewrite <- app_assoc. cbn [app]. auto.
  Qed.
End Literal.
