(** C10 over Model/FsProto.v: without faults every delivery/output mode completes with status 0 and delivers
    exactly the formatter's bytes - to standard output, to the -o file, or to the source path (in place, with or
    without backup, with or without --mtime).  Hence any two modes deliver the same bytes. *)
From Coq Require Import List ZArith Bool Arith Lia.
From UV Require Import Model.FsProto Proofs.FsProofs Proofs.CheckProofs.
Import ListNotations.

(** where a mode puts the formatted text *)
Definition delivered (md : mode) (r : result) : option bytes :=
  if to_file md then
    match r_disk r (if in_place md then RIn else ROut) with
    | Closed (Data b) => Some b
    | _ => None
    end
  else match r_out r with Some o => Some (stdout o) | None => None end.

Ltac fs_eval2 := fs_eval; cbv beta iota zeta delta [delivered to_file in_place r_disk r_out stdout disk0 upd role_eqb]; cbn [length Nat.eqb].

Theorem mode_delivers fmt orig f md :
  fmt orig = Some f -> if_changed md = false -> do_check md = false -> (in_place md = true -> to_file md = true) ->
  let r := run no_plan md fmt (disk0 orig) in
  r_exit r = Some 0%Z /\ delivered md r = Some f.
Proof.
  intros Hf Hic Hdc Himp r. subst r.
  destruct md as [ip tf nb ic dc km]. cbn in Hic, Hdc, Himp. subst ic dc.
  destruct tf.
  2: { destruct ip; [specialize (Himp eq_refl); discriminate|].
       destruct orig as [|x o]; repeat (progress (try rewrite Hf; fs_eval2)); split; reflexivity. }
  destruct ip.
  - (* in place *)
    destruct nb, km, orig as [|x o], f as [|y f'].
    all: repeat (progress (try rewrite Hf; fs_eval2)).
    all: try (split; reflexivity).
    all: destruct (Nat.eqb (length f') (length o)) eqn:El; repeat (progress fs_eval2).
    all: try (split; reflexivity).
    all: cbn [bytes_eqb]; destruct ((y =? x)%Z && bytes_eqb f' o) eqn:Eb; repeat (progress fs_eval2).
    all: try (split; reflexivity).
    all: apply andb_prop in Eb; destruct Eb as [E1 E2]; apply Z.eqb_eq in E1; apply bytes_eqb_eq in E2; subst; split; reflexivity.
  - (* -o file *)
    destruct km, orig as [|x o], f as [|y f'].
    all: repeat (progress (try rewrite Hf; fs_eval2)).
    all: split; reflexivity.
Qed.

Theorem modes_agree fmt orig f md1 md2 :
  fmt orig = Some f ->
  if_changed md1 = false -> do_check md1 = false -> (in_place md1 = true -> to_file md1 = true) ->
  if_changed md2 = false -> do_check md2 = false -> (in_place md2 = true -> to_file md2 = true) ->
  delivered md1 (run no_plan md1 fmt (disk0 orig)) = delivered md2 (run no_plan md2 fmt (disk0 orig)).
Proof.
  intros Hf A1 B1 C1 A2 B2 C2.
  destruct (mode_delivers fmt orig f md1 Hf A1 B1 C1) as [_ ->].
  destruct (mode_delivers fmt orig f md2 Hf A2 B2 C2) as [_ ->]. reflexivity.
Qed.
