(** Every line starts in the column its first chunk was given (C18), for the whole chunk list, in the configurations
    that indent with blanks only: wherever in the file a NEWLINE chunk is followed by a code chunk c, the writer puts
    exactly [col c - 1] blanks between the line break(s) and the text of c.  What the indent pass has to deliver is then
    only the column (contract K_indent). *)
From Coq Require Import List ZArith Bool Arith Lia.
From UV Require Import Model.Render Proofs.RenderProofs Proofs.RenderTrail.
Import ListNotations.
Local Open Scope Z_scope.

Lemma render_loop_app o l1 : forall rp l2 s,
  render_loop o rp (l1 ++ l2) s = render_loop o (rev l1 ++ rp) l2 (render_loop o rp l1 s).
Proof.
  induction l1 as [|c l1 IH]; intros rp l2 s; [reflexivity|].
  cbn [app render_loop rev]. rewrite IH. rewrite <- app_assoc. reflexivity.
Qed.

Lemma rev_rep {A} (a : A) n : rev (repeat a n) = repeat a n.
Proof. induction n as [|n IH]; [reflexivity|]. cbn [repeat rev]. rewrite IH. symmetry. apply repeat_cons. Qed.

Section Indent.
  Variable o : ropts.
  Hypothesis Hiwt : indent_with_tabs o = 0.
  Hypothesis Hpp0 : pp_indent_with_tabs o = 0 \/ pp_indent_with_tabs o = -1.
  Hypothesis Hawt : align_with_tabs o = false.
  Hypothesis Hakt : align_keep_tabs o = false.
  Hypothesis Hftd : force_tab_after_define o = false.

  Lemma Hpp : ppiwt o = 0.
  Proof. unfold ppiwt. destruct Hpp0 as [H|H]; rewrite H; cbn; [reflexivity|exact Hiwt]. Qed.

  (** a chunk that may start a line: code, not a comment, text without blank at its end (K_textws), column >= 1 *)
  Definition code_chunk (c : chunk) : Prop :=
    ck c = CKOther /\ text c <> [] /\ Forall plainc (text c) /\ nonblank_end (text c) /\
    is_string_multi c = false /\ is_comment_kind c = false /\ 1 <= col c.
  Definition break_chunk (c : chunk) : Prop := ck c = CKNewline /\ 1 <= nl_count c /\ nl_col c <= 1.

  Lemma line_start rp nlc c s :
    B s -> ntb (out s) -> break_chunk nlc -> code_chunk c ->
    let s2 := render_chunk o (nlc :: rp) c (render_chunk o rp nlc s) in
    out s2 = rev (map Ch (text c)) ++ repeat (Ch 32) (Z.to_nat (col c - 1)) ++ repeat NL (Z.to_nat (nl_count nlc)) ++ out s
    /\ B s2 /\ ntb (out s2).
  Proof.
    intros HB Hn (Hk & Hcnt & Hnc) (Hkc & Hne & Ht & Hnb & Hsm & Hck & Hcol).
    destruct (start_quiet s HB) as (Hq & H0).
    pose proof HB as (_ & _ & _ & Hh).
    assert (E1 : render_chunk o rp nlc s =
                 after_newline (newline_loop o (Z.to_nat (nl_count nlc)) true nlc (set_flags s (trailspace s) false))).
    { unfold render_chunk. rewrite Hk. reflexivity. }
    destruct (nl_loop_tr o (Z.to_nat (nl_count nlc)) true nlc _ Hq H0 Hnc) as (A & B0 & L & T). cbn zeta in *.
    set (sn := newline_loop o (Z.to_nat (nl_count nlc)) true nlc (set_flags s (trailspace s) false)) in *.
    set (s1 := after_newline sn) in *.
    assert (Eo1 : out s1 = repeat NL (Z.to_nat (nl_count nlc)) ++ out s) by (cbn [s1 after_newline out]; rewrite A; reflexivity).
    destruct (ntb_nls (Z.to_nat (nl_count nlc)) (out s) Hh Hn) as (N1 & N2).
    assert (HB1 : B s1).
    { unfold B. cbn [s1 after_newline spaces last_char trailspace out]. rewrite A. repeat split; assumption. }
    assert (Hn1 : ntb (out s1)) by (rewrite Eo1; exact N1).
    destruct (start_quiet s1 HB1) as (Hq1 & H01).
    set (s1' := set_flags s1 (trailspace s1) false) in *.
    assert (E2 : render_chunk o (nlc :: rp) c s1 = render_other o (Some nlc) c s1').
    { unfold render_chunk. rewrite Hkc. destruct (text c) eqn:Et; [contradiction|reflexivity]. }
    cbn zeta. rewrite E1. fold sn. fold s1. rewrite E2.
    assert (Hpd : (is_pp_define c && force_tab_after_define o) = false) by (rewrite Hftd; apply andb_false_r).
    destruct (first_chunk_on_line o (Some nlc) c s1' Hiwt Hpp0 Hq1 eq_refl H01 eq_refl Hcol Ht Hsm Hpd Hck) as (Ao & _).
    cbn zeta in Ao.
    assert (Hh1 : hd_ok (out s1')) by (destruct HB1 as (_ & _ & _ & X); exact X).
    destruct (other_tr o Hiwt Hpp Hawt Hakt Hftd (Some nlc) c s1' Hq1 H01 Hh1 Hn1 Ht Hne Hnb Hsm Hck) as (HB2 & Hn2).
    cbn zeta in *.
    split; [|split; assumption].
    unfold all_out in Ao. destruct HB2 as (S2 & _). rewrite S2 in Ao. cbn [Z.to_nat repeat app] in Ao.
    rewrite Ao. change (out s1') with (out s1). rewrite Eo1. reflexivity.
  Qed.

  (** Theorem: for every chunk list - any prefix l1 that meets the hygiene contract, any rest l2 - the line that starts
      with c is written as: the line breaks of the NEWLINE chunk, col c - 1 blanks, the text of c *)
  Theorem every_line_starts_in_its_column last l1 nlc c l2 :
    last <> 13 -> Forall tr_ok l1 -> break_chunk nlc -> code_chunk c ->
    exists rest,
      render o last 0 (l1 ++ nlc :: c :: l2) =
      render o last 0 l1 ++ repeat NL (Z.to_nat (nl_count nlc)) ++ repeat (Ch 32) (Z.to_nat (col c - 1)) ++ map Ch (text c) ++ rest.
  Proof.
    intros Hl Hok Hb Hc. unfold render.
    rewrite render_loop_app. rewrite app_nil_r.
    assert (HB : B (init_wstate last 0)) by (unfold B; cbn; repeat split; try assumption).
    destruct (loop_tr o Hiwt Hpp Hawt Hakt Hftd l1 [] (init_wstate last 0) HB I Hok) as (HB1 & Hn1). cbn zeta in *.
    set (s := render_loop o [] l1 (init_wstate last 0)) in *.
    cbn [render_loop].
    destruct (line_start (rev l1) nlc c s HB1 Hn1 Hb Hc) as (Eo & _ & _). cbn zeta in Eo.
    set (s2 := render_chunk o (nlc :: rev l1) c (render_chunk o (rev l1) nlc s)) in *.
    destruct (clean_render_loop o l2 (c :: nlc :: rev l1) s2) as (t & Et & _).
    exists (rev t). rewrite Et, Eo.
    rewrite !rev_app_distr, rev_involutive, !rev_rep, <- !app_assoc. reflexivity.
  Qed.
End Indent.
