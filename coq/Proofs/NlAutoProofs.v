From Coq Require Import List ZArith Bool Arith Lia.
From UV Require Import Model.NlAuto.
Import ListNotations.
Local Open Scope Z_scope.

Lemma cnt_bump t u c : cnt (bump t c) u = (if match t, u with LF, LF | CRLF, CRLF | CR, CR => true | _, _ => false end then S (cnt c u) else cnt c u).
Proof. destruct t, u; reflexivity. Qed.

Lemma census_line ln rest : line_ok ln -> census_of (ln ++ rest) = census_of rest.
Proof.
  induction 1 as [|c ln [H13 H10] _ IH]; [reflexivity|].
  cbn [app census_of].
  destruct (Z.eqb_spec c 13); [contradiction|].
  destruct (Z.eqb_spec c 10); [contradiction|]. exact IH.
Qed.

Lemma scan_lf rest : census_of (10 :: rest) = bump LF (census_of rest).
Proof. reflexivity. Qed.
Lemma scan_crlf rest : census_of (13 :: 10 :: rest) = bump CRLF (census_of rest).
Proof. reflexivity. Qed.
Lemma scan_cr rest : (match rest with 10 :: _ => False | _ => True end) -> census_of (13 :: rest) = bump CR (census_of rest).
Proof.
  destruct rest as [|d rest']; [reflexivity|].
  intros H. cbn [census_of]. change (13 =? 13) with true. cbv iota.
  destruct (Z.eqb_spec d 10) as [->|_]; [contradiction|reflexivity].
Qed.

Lemma head_joinm ln t r : line_ok ln ->
  match ln ++ le_bytes t ++ r with 10 :: _ => ln = [] /\ t = LF | _ => True end.
Proof.
  intros H. destruct H as [|c ln [H13 H10] _].
  - destruct t; cbn; auto.
  - cbn [app]. destruct c; auto. repeat (destruct p; auto). contradiction.
Qed.

Theorem scan_joinm : forall ls t,
  Forall (fun x => line_ok (fst x)) ls -> unamb ls -> cnt (census_of (joinm ls)) t = count_le t ls.
Proof.
  induction ls as [|[ln u] r IH]; intros t Hok Hun; [destruct t; reflexivity|].
  inversion Hok as [|x y Hln Hr]; subst. cbn [fst] in Hln.
  cbn [unamb] in Hun. destruct Hun as [Hhere Hun].
  cbn [joinm]. rewrite census_line by exact Hln.
  unfold count_le. cbn [filter snd]. fold (count_le t r).
  destruct u; cbn [le_bytes app].
  - rewrite scan_lf, cnt_bump. rewrite IH by assumption. destruct t; reflexivity.
  - rewrite scan_crlf, cnt_bump. rewrite IH by assumption. destruct t; reflexivity.
  - rewrite scan_cr.
    + rewrite cnt_bump. rewrite IH by assumption. destruct t; reflexivity.
    + destruct r as [|[ln2 t2] r2]; [exact I|]. cbn [joinm].
      inversion Hr as [|x y Hln2 _]; subst. cbn [fst] in Hln2.
      pose proof (head_joinm ln2 t2 (joinm r2) Hln2) as Hh.
      destruct (ln2 ++ le_bytes t2 ++ joinm r2) as [|d q]; [exact I|].
      destruct d; try exact I. repeat (destruct p; try exact I).
      destruct Hh as [-> ->]. exact Hhere.
Qed.

(** the decision *)
Theorem choose_fixed c : select_le SLf c = LF /\ select_le SCrlf c = CRLF /\ select_le SCr c = CR.
Proof. repeat split. Qed.

Theorem choose_auto_is_most_frequent c t : (cnt c t <= cnt c (select_le SAuto c))%nat.
Proof.
  unfold select_le.
  destruct (Nat.leb_spec (n_crlf c) (n_lf c)), (Nat.leb_spec (n_cr c) (n_lf c)); cbn [andb].
  1: destruct t; cbn [cnt]; lia.
  all: destruct (Nat.leb_spec (n_lf c) (n_crlf c)), (Nat.leb_spec (n_cr c) (n_crlf c)); cbn [andb]; destruct t; cbn [cnt]; lia.
Qed.

Theorem choose_auto_strict_majority c t :
  (forall u, u <> t -> (cnt c u < cnt c t)%nat) -> select_le SAuto c = t.
Proof.
  intros H. pose proof (choose_auto_is_most_frequent c t) as Hm.
  destruct (select_le SAuto c) eqn:E, t; try reflexivity;
    match goal with |- ?a = ?b => specialize (H a ltac:(discriminate)) end; lia.
Qed.

(** ties: LF before CRLF before CR (all-census0 census, e.g. a text without line break: LF) *)
Theorem choose_auto_ties c :
  ((n_crlf c <= n_lf c)%nat -> (n_cr c <= n_lf c)%nat -> select_le SAuto c = LF) /\
  ((n_lf c < n_crlf c)%nat -> (n_cr c <= n_crlf c)%nat -> select_le SAuto c = CRLF).
Proof.
  unfold select_le. split; intros H1 H2.
  - destruct (Nat.leb_spec (n_crlf c) (n_lf c)), (Nat.leb_spec (n_cr c) (n_lf c)); cbn [andb]; try lia; reflexivity.
  - destruct (Nat.leb_spec (n_crlf c) (n_lf c)); cbn [andb]; try lia.
    destruct (Nat.leb_spec (n_lf c) (n_crlf c)), (Nat.leb_spec (n_cr c) (n_crlf c)); cbn [andb]; try lia; reflexivity.
Qed.

(** whole texts *)
Theorem auto_on_mixed_text ls t :
  Forall (fun x => line_ok (fst x)) ls -> unamb ls ->
  (forall u, u <> t -> (count_le u ls < count_le t ls)%nat) ->
  select_le SAuto (census_of (joinm ls)) = t.
Proof.
  intros Hok Hun Hmaj. apply choose_auto_strict_majority.
  intros u Hu. rewrite !scan_joinm by assumption. apply Hmaj, Hu.
Qed.

Lemma unamb_pure t lines : unamb (map (fun ln => (ln, t)) lines).
Proof.
  induction lines as [|ln r IH]; [exact I|]. cbn [map unamb]. split; [|exact IH].
  destruct t; try exact I. destruct r as [|ln2 r2]; cbn [map]; [exact I|]. destruct ln2; exact I.
Qed.

Lemma count_pure t u lines :
  count_le u (map (fun ln => (ln, t)) lines) = (if match t, u with LF, LF | CRLF, CRLF | CR, CR => true | _, _ => false end then length lines else 0%nat).
Proof.
  unfold count_le. induction lines as [|ln r IH]; [destruct t, u; reflexivity|].
  cbn [map filter snd length]. destruct t, u; cbn [length]; rewrite ?IH; reflexivity.
Qed.

(** a text all of whose lines end in t (at least one line): auto selects t *)
Theorem auto_on_pure_text t lines :
  lines <> [] -> Forall line_ok lines ->
  select_le SAuto (census_of (joinm (map (fun ln => (ln, t)) lines))) = t.
Proof.
  intros Hne Hok. apply auto_on_mixed_text.
  - rewrite Forall_map. exact Hok.
  - apply unamb_pure.
  - intros u Hu. rewrite !count_pure. destruct lines; [contradiction|].
    destruct t, u; try contradiction; cbn [length]; lia.
Qed.

(** converting the terminators of a text to t and formatting under auto selects t: the census does not see the line contents *)
Example mixed_example :
  select_le SAuto (census_of (joinm [([97], CRLF); ([], CRLF); ([98; 99], LF); ([100], CR); ([101], CRLF)])) = CRLF.
Proof. reflexivity. Qed.
Example ambiguity_is_real : census_of (joinm [([97], CR); ([], LF)]) = bump CRLF census0.
Proof. reflexivity. Qed.

(** converting every terminator of a text to t (whatever they were) makes auto select t *)
Theorem auto_after_conversion t (ls : list (list Z * le)) :
  ls <> [] -> Forall (fun x => line_ok (fst x)) ls ->
  select_le SAuto (census_of (joinm (map (fun x => (fst x, t)) ls))) = t.
Proof.
  intros Hne Hok.
  rewrite <- (map_map fst (fun ln => (ln, t))).
  apply auto_on_pure_text.
  - destruct ls; [contradiction|discriminate].
  - rewrite Forall_map. exact Hok.
Qed.
