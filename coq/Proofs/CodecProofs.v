(** Proofs about Model/Codec.v.  No axioms. *)
From Coq Require Import List ZArith Bool Lia.
From UV Require Import Model.Codec.
Import ListNotations.
Local Open Scope Z_scope.

Ltac Zify.zify_post_hook ::= Z.div_mod_to_equations.

Definition cp31 (c : Z) : Prop := 0 <= c < 2147483648.
Definition byte (b : Z) : Prop := 0 <= b < 256.

(** decide one comparison occurring in the goal with lia *)
Ltac cmp1 :=
  match goal with
  | |- context [?a <? ?b] =>
    first [ replace (a <? b) with true by (symmetry; apply Z.ltb_lt; lia)
          | replace (a <? b) with false by (symmetry; apply Z.ltb_ge; lia) ]
  | |- context [?a <=? ?b] =>
    first [ replace (a <=? b) with true by (symmetry; apply Z.leb_le; lia)
          | replace (a <=? b) with false by (symmetry; apply Z.leb_gt; lia) ]
  | |- context [?a =? ?b] =>
    first [ replace (a =? b) with true by (symmetry; apply Z.eqb_eq; lia)
          | replace (a =? b) with false by (symmetry; apply Z.eqb_neq; lia) ]
  end.
Ltac cmps := repeat (cmp1; cbn [andb orb negb]).

Lemma lead1 b : 0xC0 <= b < 0xE0 -> utf8_lead b = Some (1%nat, b mod 32).
Proof. intros; unfold utf8_lead; cmps; reflexivity. Qed.
Lemma lead2 b : 0xE0 <= b < 0xF0 -> utf8_lead b = Some (2%nat, b mod 16).
Proof. intros; unfold utf8_lead; cmps; reflexivity. Qed.
Lemma lead3 b : 0xF0 <= b < 0xF8 -> utf8_lead b = Some (3%nat, b mod 8).
Proof. intros; unfold utf8_lead; cmps; reflexivity. Qed.
Lemma lead4 b : 0xF8 <= b < 0xFC -> utf8_lead b = Some (4%nat, b mod 4).
Proof. intros; unfold utf8_lead; cmps; reflexivity. Qed.
Lemma lead5 b : 0xFC <= b < 0xFE -> utf8_lead b = Some (5%nat, b mod 2).
Proof. intros; unfold utf8_lead; cmps; reflexivity. Qed.

Lemma cont_ok x : is_cont (0x80 + x mod 64) = true.
Proof. unfold is_cont; cmps; reflexivity. Qed.

Lemma cont_val x : (0x80 + x mod 64) mod 64 = x mod 64.
Proof. lia. Qed.

(** one continuation step in a pending state *)
Lemma dec8_cont_more cm total c ch x r :
  dec8 cm (Some (total, S (S c), ch)) (0x80 + x mod 64 :: r)
  = dec8 cm (Some (total, S c, ch * 64 + x mod 64)) r.
Proof. cbn [dec8]. rewrite cont_ok, cont_val. reflexivity. Qed.

Lemma dec8_cont_last cm total ch x r :
  (cm && (ch * 64 + x mod 64 <? utf8_min total)) = false ->
  dec8 cm (Some (total, 1%nat, ch)) (0x80 + x mod 64 :: r)
  = option_map (cons (ch * 64 + x mod 64)) (dec8 cm None r).
Proof. intros H. cbn [dec8]. rewrite cont_ok, cont_val, H. reflexivity. Qed.

Lemma dec8_lead cm b r cnt ch0 :
  0x80 <= b -> utf8_lead b = Some (cnt, ch0) ->
  dec8 cm None (b :: r) = dec8 cm (Some (cnt, cnt, ch0)) r.
Proof. intros Hb Hl. cbn [dec8]. cmps. rewrite Hl. reflexivity. Qed.

Lemma minfalse cm a b : b <= a -> (cm && (a <? b)) = false.
Proof. intros. replace (a <? b) with false by (symmetry; apply Z.ltb_ge; lia). apply andb_false_r. Qed.

(** decoding the encoding of one code point *)
Lemma dec8_encode_one cm c r :
  cp31 c ->
  dec8 cm None (encode_utf8 c ++ r) = option_map (cons c) (dec8 cm None r).
Proof.
  unfold cp31; intros Hc. unfold encode_utf8.
  replace (c <? 0) with false by (symmetry; apply Z.ltb_ge; lia).
  destruct (c <? 0x80) eqn:H1; [apply Z.ltb_lt in H1|apply Z.ltb_ge in H1].
  { cbn [app dec8]. cmps. reflexivity. }
  destruct (c <? 0x800) eqn:H2; [apply Z.ltb_lt in H2|apply Z.ltb_ge in H2].
  { cbn [app].
    rewrite (dec8_lead cm _ _ 1%nat ((0xC0 + c / 64) mod 32)) by (try apply lead1; lia).
    rewrite dec8_cont_last by (apply minfalse; cbn [utf8_min]; lia).
    f_equal. f_equal. lia. }
  destruct (c <? 0x10000) eqn:H3; [apply Z.ltb_lt in H3|apply Z.ltb_ge in H3].
  { cbn [app].
    rewrite (dec8_lead cm _ _ 2%nat ((0xE0 + c / 4096) mod 16)) by (try apply lead2; lia).
    rewrite dec8_cont_more.
    rewrite dec8_cont_last by (apply minfalse; cbn [utf8_min]; lia).
    f_equal. f_equal. lia. }
  destruct (c <? 0x200000) eqn:H4; [apply Z.ltb_lt in H4|apply Z.ltb_ge in H4].
  { cbn [app].
    rewrite (dec8_lead cm _ _ 3%nat ((0xF0 + c / 262144) mod 8)) by (try apply lead3; lia).
    rewrite !dec8_cont_more.
    rewrite dec8_cont_last by (apply minfalse; cbn [utf8_min]; lia).
    f_equal. f_equal. lia. }
  destruct (c <? 0x4000000) eqn:H5; [apply Z.ltb_lt in H5|apply Z.ltb_ge in H5].
  { cbn [app].
    rewrite (dec8_lead cm _ _ 4%nat ((0xF8 + c / 16777216) mod 4)) by (try apply lead4; lia).
    rewrite !dec8_cont_more.
    rewrite dec8_cont_last by (apply minfalse; cbn [utf8_min]; lia).
    f_equal. f_equal. lia. }
  { cbn [app].
    rewrite (dec8_lead cm _ _ 5%nat ((0xFC + c / 1073741824) mod 2)) by (try apply lead5; lia).
    rewrite !dec8_cont_more.
    rewrite dec8_cont_last by (apply minfalse; cbn [utf8_min]; lia).
    f_equal. f_equal. lia. }
Qed.

(** ** UTF-8: decode after encode, every code point below 2^31, any length *)
Theorem dec8_encode cm cps :
  Forall cp31 cps -> dec8 cm None (flat_map encode_utf8 cps) = Some cps.
Proof.
  induction 1 as [|c cps Hc _ IH]; [reflexivity|].
  cbn [flat_map]. rewrite dec8_encode_one by exact Hc. rewrite IH. reflexivity.
Qed.

(** ** UTF-8: encode after decode (the decoder is injective: "never silently altered") *)

Lemma dec8_pending_inv total cnt ch bs cps :
  dec8 true (Some (total, S cnt, ch)) bs = Some cps ->
  exists b r, bs = b :: r /\ is_cont b = true /\
    match cnt with
    | O => utf8_min total <= ch * 64 + b mod 64 /\
           exists cps', cps = (ch * 64 + b mod 64) :: cps' /\ dec8 true None r = Some cps'
    | S c => dec8 true (Some (total, S c, ch * 64 + b mod 64)) r = Some cps
    end.
Proof.
  destruct bs as [|b r]; cbn [dec8]; [discriminate|].
  destruct (is_cont b) eqn:Hc; [|discriminate].
  intros H. exists b, r. split; [reflexivity|]. split; [exact Hc|].
  destruct cnt as [|c].
  - cbn [andb] in H.
    destruct (ch * 64 + b mod 64 <? utf8_min total) eqn:Hm; [discriminate|].
    apply Z.ltb_ge in Hm. split; [exact Hm|].
    destruct (dec8 true None r) as [cps'|]; [|discriminate].
    cbn [option_map] in H. injection H as <-. eexists; split; reflexivity.
  - exact H.
Qed.

Lemma is_cont_range b : is_cont b = true -> 0x80 <= b < 0xC0.
Proof. unfold is_cont. intros H. apply andb_prop in H as [H1 H2].
       apply Z.leb_le in H1. apply Z.ltb_lt in H2. lia. Qed.

Lemma utf8_lead_inv b cnt ch0 :
  utf8_lead b = Some (cnt, ch0) ->
  (cnt = 1%nat /\ 0xC0 <= b < 0xE0 /\ ch0 = b mod 32) \/
  (cnt = 2%nat /\ 0xE0 <= b < 0xF0 /\ ch0 = b mod 16) \/
  (cnt = 3%nat /\ 0xF0 <= b < 0xF8 /\ ch0 = b mod 8) \/
  (cnt = 4%nat /\ 0xF8 <= b < 0xFC /\ ch0 = b mod 4) \/
  (cnt = 5%nat /\ 0xFC <= b < 0xFE /\ ch0 = b mod 2).
Proof.
  unfold utf8_lead.
  repeat match goal with
  | |- context [if ?c then _ else _] =>
    let H := fresh "H" in destruct c eqn:H;
    [ apply andb_prop in H as [?H ?H];
      repeat match goal with
             | X : (_ <=? _) = true |- _ => apply Z.leb_le in X
             | X : (_ <? _) = true |- _ => apply Z.ltb_lt in X end;
      intros E; injection E as <- <-; tauto | ]
  end.
  discriminate.
Qed.

Ltac enc_tac :=
  unfold encode_utf8; cmps; repeat f_equal; lia.

Lemma pending1 total ch bs cps :
  dec8 true (Some (total, 1%nat, ch)) bs = Some cps ->
  exists b r cps', bs = b :: r /\ 0x80 <= b < 0xC0 /\
    utf8_min total <= ch * 64 + b mod 64 /\
    cps = (ch * 64 + b mod 64) :: cps' /\ dec8 true None r = Some cps'.
Proof.
  intros H. apply dec8_pending_inv in H as (b & r & -> & Hc & Hm & cps' & -> & Hr).
  exists b, r, cps'. repeat split; try assumption; apply is_cont_range in Hc; lia.
Qed.

Lemma pendingS total c ch bs cps :
  dec8 true (Some (total, S (S c), ch)) bs = Some cps ->
  exists b r, bs = b :: r /\ 0x80 <= b < 0xC0 /\
    dec8 true (Some (total, S c, ch * 64 + b mod 64)) r = Some cps.
Proof.
  intros H. apply dec8_pending_inv in H as (b & r & -> & Hc & Hr).
  exists b, r. repeat split; try assumption; apply is_cont_range in Hc; lia.
Qed.

Theorem dec8_inj_len n : forall bs cps,
  (length bs <= n)%nat -> Forall byte bs ->
  dec8 true None bs = Some cps -> flat_map encode_utf8 cps = bs.
Proof.
  unfold byte.
  induction n as [|n IH]; intros bs cps Hlen Hby H.
  { destruct bs; [|cbn in Hlen; lia]. cbn in H. injection H as <-. reflexivity. }
  destruct bs as [|b r]; [cbn in H; injection H as <-; reflexivity|].
  cbn [length] in Hlen. inversion Hby as [|? ? Hb0 Hbr]; subst.
  cbn [dec8] in H.
  destruct (b <? 0x80) eqn:Hb.
  { destruct (dec8 true None r) as [cps'|] eqn:Hr; [|discriminate].
    cbn [option_map] in H. injection H as <-.
    cbn [flat_map]. rewrite (IH r cps') by (try lia; assumption).
    apply Z.ltb_lt in Hb. unfold encode_utf8. cmps. reflexivity. }
  apply Z.ltb_ge in Hb.
  destruct (utf8_lead b) as [[cnt ch0]|] eqn:Hl; [|discriminate].
  apply utf8_lead_inv in Hl as [(-> & Hr1 & ->)|[(-> & Hr1 & ->)|[(-> & Hr1 & ->)|[(-> & Hr1 & ->)|(-> & Hr1 & ->)]]]].
  - apply pending1 in H as (b1 & r1 & cps' & -> & R1 & Hm & -> & Hd).
    cbn [utf8_min] in Hm. cbn [flat_map].
    rewrite (IH r1 cps') by (cbn [length] in *; try lia; try assumption; inversion Hbr; assumption).
    cbn [app]. set (c := b mod 32 * 64 + b1 mod 64) in *.
    assert (Hc : 0x80 <= c < 0x800) by (subst c; lia).
    assert (E : encode_utf8 c = [b; b1]) by (subst c; enc_tac).
    rewrite E. reflexivity.
  - apply pendingS in H as (b1 & r1 & -> & R1 & H).
    apply pending1 in H as (b2 & r2 & cps' & -> & R2 & Hm & -> & Hd).
    cbn [utf8_min] in Hm. cbn [flat_map].
    rewrite (IH r2 cps') by (cbn [length] in *; try lia; try assumption;
                             inversion Hbr as [|? ? ? Hx]; inversion Hx; assumption).
    set (c := (b mod 16 * 64 + b1 mod 64) * 64 + b2 mod 64) in *.
    assert (Hc : 0x800 <= c < 0x10000) by (subst c; lia).
    assert (E : encode_utf8 c = [b; b1; b2]) by (subst c; enc_tac).
    rewrite E. reflexivity.
  - apply pendingS in H as (b1 & r1 & -> & R1 & H).
    apply pendingS in H as (b2 & r2 & -> & R2 & H).
    apply pending1 in H as (b3 & r3 & cps' & -> & R3 & Hm & -> & Hd).
    cbn [utf8_min] in Hm. cbn [flat_map].
    rewrite (IH r3 cps') by (cbn [length] in *; try lia; try assumption;
                             inversion Hbr as [|? ? ? Hx]; inversion Hx as [|? ? ? Hy];
                             inversion Hy; assumption).
    set (c := ((b mod 8 * 64 + b1 mod 64) * 64 + b2 mod 64) * 64 + b3 mod 64) in *.
    assert (Hc : 0x10000 <= c < 0x200000) by (subst c; lia).
    assert (E : encode_utf8 c = [b; b1; b2; b3]) by (subst c; enc_tac).
    rewrite E. reflexivity.
  - apply pendingS in H as (b1 & r1 & -> & R1 & H).
    apply pendingS in H as (b2 & r2 & -> & R2 & H).
    apply pendingS in H as (b3 & r3 & -> & R3 & H).
    apply pending1 in H as (b4 & r4 & cps' & -> & R4 & Hm & -> & Hd).
    cbn [utf8_min] in Hm. cbn [flat_map].
    rewrite (IH r4 cps') by (cbn [length] in *; try lia; try assumption;
                             inversion Hbr as [|? ? ? Hx]; inversion Hx as [|? ? ? Hy];
                             inversion Hy as [|? ? ? Hz]; inversion Hz; assumption).
    set (c := (((b mod 4 * 64 + b1 mod 64) * 64 + b2 mod 64) * 64 + b3 mod 64) * 64 + b4 mod 64) in *.
    assert (Hc : 0x200000 <= c < 0x4000000) by (subst c; lia).
    assert (E : encode_utf8 c = [b; b1; b2; b3; b4]) by (subst c; enc_tac).
    rewrite E. reflexivity.
  - apply pendingS in H as (b1 & r1 & -> & R1 & H).
    apply pendingS in H as (b2 & r2 & -> & R2 & H).
    apply pendingS in H as (b3 & r3 & -> & R3 & H).
    apply pendingS in H as (b4 & r4 & -> & R4 & H).
    apply pending1 in H as (b5 & r5 & cps' & -> & R5 & Hm & -> & Hd).
    cbn [utf8_min] in Hm. cbn [flat_map].
    rewrite (IH r5 cps') by (cbn [length] in *; try lia; try assumption;
                             inversion Hbr as [|? ? ? Hx]; inversion Hx as [|? ? ? Hy];
                             inversion Hy as [|? ? ? Hz]; inversion Hz as [|? ? ? Hw];
                             inversion Hw; assumption).
    set (c := ((((b mod 2 * 64 + b1 mod 64) * 64 + b2 mod 64) * 64 + b3 mod 64) * 64 + b4 mod 64) * 64 + b5 mod 64) in *.
    assert (Hc : 0x4000000 <= c < 0x80000000) by (subst c; lia).
    assert (E : encode_utf8 c = [b; b1; b2; b3; b4; b5]) by (subst c; enc_tac).
    rewrite E. reflexivity.
Qed.

Theorem dec8_inj bs cps :
  Forall byte bs -> dec8 true None bs = Some cps -> flat_map encode_utf8 cps = bs.
Proof. intros. eapply dec8_inj_len; eauto. Qed.

(** ** UTF-16 *)
Definition scalar (c : Z) : Prop := 0 <= c < 0xD800 \/ 0xE000 <= c < 0x110000.

Lemma write_byte_ok b : byte b -> write_byte b = [b].
Proof. unfold byte, write_byte; intros; cmps; reflexivity. Qed.

Lemma dec16_write_one be c r :
  scalar c ->
  dec16 be None (write_utf16 be c ++ r) = option_map (cons c) (dec16 be None r).
Proof.
  unfold scalar; intros Hc. unfold write_utf16.
  destruct (((0 <=? c) && (c <? 0xD800)) || ((0xE000 <=? c) && (c <? 0x10000))) eqn:H1.
  - assert (Hr : 0 <= c < 0xD800 \/ 0xE000 <= c < 0x10000).
    { apply orb_prop in H1 as [H|H]; apply andb_prop in H as [Ha Hb];
      [apply Z.leb_le in Ha|apply Z.leb_le in Ha]; apply Z.ltb_lt in Hb; lia. }
    rewrite !write_byte_ok by (unfold byte; lia).
    destruct be; cbn [app dec16 word];
      [replace (c / 256 * 256 + c mod 256) with c by lia
      |replace (c mod 256 + c / 256 * 256) with c by lia];
      (destruct Hr as [Hr|Hr]; cmps; reflexivity).
  - assert (Hr : 0x10000 <= c < 0x110000).
    { apply orb_false_elim in H1 as [Ha Hb].
      destruct Hc as [Hc|Hc]; [exfalso|].
      - replace (0 <=? c) with true in Ha by (symmetry; apply Z.leb_le; lia).
        replace (c <? 0xD800) with true in Ha by (symmetry; apply Z.ltb_lt; lia). discriminate.
      - destruct (c <? 0x10000) eqn:Hx; [|apply Z.ltb_ge in Hx; lia].
        replace (0xE000 <=? c) with true in Hb by (symmetry; apply Z.leb_le; lia). discriminate. }
    cmps.
    set (v1 := c - 0x10000). set (w1 := 0xD800 + v1 / 1024). set (w2 := 0xDC00 + v1 mod 1024).
    assert (Hw1 : 0xD800 <= w1 < 0xDC00) by (subst w1 v1; lia).
    assert (Hw2 : 0xDC00 <= w2 < 0xE000) by (subst w2 v1; lia).
    rewrite !write_byte_ok by (unfold byte; lia).
    assert (E : w1 mod 1024 * 1024 + w2 mod 1024 + 0x10000 = c) by (subst w1 w2 v1; lia).
    destruct be; cbn [app dec16 word].
    + replace (w1 / 256 * 256 + w1 mod 256) with w1 by lia. cmps.
      replace (w2 / 256 * 256 + w2 mod 256) with w2 by lia. cmps.
      rewrite E. reflexivity.
    + replace (w1 mod 256 + w1 / 256 * 256) with w1 by lia. cmps.
      replace (w2 mod 256 + w2 / 256 * 256) with w2 by lia. cmps.
      rewrite E. reflexivity.
Qed.

Theorem dec16_write be cps :
  Forall scalar cps -> dec16 be None (flat_map (write_utf16 be) cps) = Some cps.
Proof.
  induction 1 as [|c cps Hc _ IH]; [reflexivity|].
  cbn [flat_map]. rewrite dec16_write_one by exact Hc. rewrite IH. reflexivity.
Qed.

(** every decoded UTF-16 value is a scalar value *)
Lemma word_range be b0 b1 : byte b0 -> byte b1 -> 0 <= word be b0 b1 < 65536.
Proof. unfold byte, word; destruct be; lia. Qed.

Lemma word_bytes (be : bool) b0 b1 : byte b0 -> byte b1 ->
  (if be then [word be b0 b1 / 256; word be b0 b1 mod 256]
   else [word be b0 b1 mod 256; word be b0 b1 / 256]) = [b0; b1].
Proof. unfold byte, word; destruct be; intros; f_equal; try f_equal; lia. Qed.

Theorem dec16_inj_len n : forall be bs cps,
  (length bs <= n)%nat -> Forall byte bs ->
  dec16 be None bs = Some cps -> flat_map (write_utf16 be) cps = bs /\ Forall scalar cps.
Proof.
  induction n as [|n IH]; intros be bs cps Hlen Hby H.
  { destruct bs; [|cbn in Hlen; lia]. cbn in H. injection H as <-. split; [reflexivity|constructor]. }
  destruct bs as [|b0 [|b1 r]]; [cbn in H; injection H as <-; split; [reflexivity|constructor] | discriminate |].
  inversion Hby as [|? ? Hb0 Hx]; subst. inversion Hx as [|? ? Hb1 Hr]; subst.
  cbn [length] in Hlen. cbn [dec16] in H.
  pose proof (word_range be b0 b1 Hb0 Hb1) as Hw.
  pose proof (word_bytes be b0 b1 Hb0 Hb1) as Hwb.
  set (w := word be b0 b1) in *.
  destruct ((0xD800 <=? w) && (w <? 0xDC00)) eqn:Hhi.
  - (* surrogate pair *)
    apply andb_prop in Hhi as [Ha Hb]. apply Z.leb_le in Ha. apply Z.ltb_lt in Hb.
    destruct r as [|c0 [|c1 r']]; [discriminate|discriminate|].
    inversion Hr as [|? ? Hc0 Hy]; subst. inversion Hy as [|? ? Hc1 Hr']; subst.
    cbn [dec16] in H.
    pose proof (word_range be c0 c1 Hc0 Hc1) as Hw2.
    pose proof (word_bytes be c0 c1 Hc0 Hc1) as Hwb2.
    set (w2 := word be c0 c1) in *.
    destruct ((0xDC00 <=? w2) && (w2 <? 0xE000)) eqn:Hlo; [|discriminate].
    apply andb_prop in Hlo as [Hc Hd]. apply Z.leb_le in Hc. apply Z.ltb_lt in Hd.
    destruct (dec16 be None r') as [cps'|] eqn:Hrec; [|discriminate].
    cbn [option_map] in H. injection H as <-.
    destruct (IH be r' cps') as [IH1 IH2]; [cbn [length] in *; lia|assumption|assumption|].
    set (c := w mod 1024 * 1024 + w2 mod 1024 + 0x10000).
    assert (Hcr : 0x10000 <= c < 0x110000) by (subst c; lia).
    split; [|constructor; [right; lia|assumption]].
    cbn [flat_map]. rewrite IH1. unfold write_utf16. cmps.
    assert (E1 : 0xD800 + (c - 0x10000) / 1024 = w) by (subst c; lia).
    assert (E2 : 0xDC00 + (c - 0x10000) mod 1024 = w2) by (subst c; lia).
    rewrite E1, E2.
    rewrite !write_byte_ok by (unfold byte; lia).
    destruct be; cbn [app] in *; injection Hwb as -> ->; injection Hwb2 as -> ->; reflexivity.
  - destruct ((w <? 0xD800) || (0xE000 <=? w)) eqn:Hbmp; [|discriminate].
    destruct (dec16 be None r) as [cps'|] eqn:Hrec; [|discriminate].
    cbn [option_map] in H. injection H as <-.
    destruct (IH be r cps') as [IH1 IH2]; [cbn [length] in *; lia|assumption|assumption|].
    assert (Hs : 0 <= w < 0xD800 \/ 0xE000 <= w < 0x10000).
    { apply orb_prop in Hbmp as [Hx1|Hx1]; [apply Z.ltb_lt in Hx1|apply Z.leb_le in Hx1]; lia. }
    split; [|constructor; [unfold scalar; lia|assumption]].
    cbn [flat_map]. rewrite IH1. unfold write_utf16.
    replace (((0 <=? w) && (w <? 0xD800)) || ((0xE000 <=? w) && (w <? 0x10000))) with true.
    2:{ symmetry. destruct Hs as [Hs|Hs].
        - replace (0 <=? w) with true by (symmetry; apply Z.leb_le; lia).
          replace (w <? 0xD800) with true by (symmetry; apply Z.ltb_lt; lia). reflexivity.
        - replace (0xE000 <=? w) with true by (symmetry; apply Z.leb_le; lia).
          replace (w <? 0x10000) with true by (symmetry; apply Z.ltb_lt; lia). apply orb_true_r. }
    rewrite !write_byte_ok by (unfold byte; lia).
    destruct be; cbn [app] in *; injection Hwb as -> ->; reflexivity.
Qed.

Theorem dec16_inj be bs cps :
  Forall byte bs -> dec16 be None bs = Some cps ->
  flat_map (write_utf16 be) cps = bs /\ Forall scalar cps.
Proof. intros. eapply dec16_inj_len; eauto. Qed.
