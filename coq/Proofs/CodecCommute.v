(** Forward direction at file level: valid files in each supported encoding are
    decoded to their code points and written back in the same encoding; hence
    formatting commutes with transcoding (property C09 (a)-(c)). *)
From Coq Require Import List ZArith Bool Lia Arith.
From UV Require Import Model.Codec Proofs.CodecProofs Proofs.CodecFile.
Import ListNotations.
Local Open Scope Z_scope.
Ltac Zify.zify_post_hook ::= Z.div_mod_to_equations.

Lemma scalar_cp31 c : scalar c -> cp31 c.
Proof. unfold scalar, cp31; lia. Qed.

Lemma encode_utf8_bytes c : cp31 c -> Forall byte (encode_utf8 c).
Proof.
  unfold cp31, byte, encode_utf8; intros H.
  repeat match goal with
  | |- context [if ?a <? ?b then _ else _] =>
    let E := fresh "E" in destruct (a <? b) eqn:E; [apply Z.ltb_lt in E|apply Z.ltb_ge in E]
  end; repeat constructor; lia.
Qed.

Lemma encode_utf8_nonzero c : cp31 c -> c <> 0 -> Forall (fun b => b <> 0) (encode_utf8 c).
Proof.
  unfold cp31, encode_utf8; intros H Hz.
  repeat match goal with
  | |- context [if ?a <? ?b then _ else _] =>
    let E := fresh "E" in destruct (a <? b) eqn:E; [apply Z.ltb_lt in E|apply Z.ltb_ge in E]
  end; repeat constructor; lia.
Qed.

Lemma encode_utf8_lead c : cp31 c -> forall b r, encode_utf8 c = b :: r -> 0 <= b < 0xFE.
Proof.
  unfold cp31, encode_utf8; intros H b r.
  repeat match goal with
  | |- context [if ?a <? ?b then _ else _] =>
    let E := fresh "E" in destruct (a <? b) eqn:E; [apply Z.ltb_lt in E|apply Z.ltb_ge in E]
  end; intros Q; try discriminate;
    (assert (Hb : hd 0 (b :: r) = b) by reflexivity; rewrite <- Q in Hb; cbn [hd] in Hb; subst b; lia).
Qed.

Lemma encode_utf8_nonempty c : cp31 c -> encode_utf8 c <> [].
Proof.
  unfold cp31, encode_utf8; intros H.
  repeat match goal with
  | |- context [if ?a <? ?b then _ else _] =>
    let E := fresh "E" in destruct (a <? b) eqn:E; [apply Z.ltb_lt in E|apply Z.ltb_ge in E]
  end; try discriminate; lia.
Qed.

Lemma Forall_flat_map {A B} (P : A -> Prop) (Q : B -> Prop) (f : A -> list B) l :
  (forall a, P a -> Forall Q (f a)) -> Forall P l -> Forall Q (flat_map f l).
Proof. intros Hf. induction 1; cbn [flat_map]; [constructor|]. apply Forall_app; auto. Qed.

Lemma count_if_zero p (l : list Z) : Forall (fun b => p b = false) l -> count_if p l = O.
Proof. induction 1 as [|b l Hb _ IH]; cbn [count_if]; [reflexivity|]. rewrite Hb. exact IH. Qed.

Lemma enc8_string_bytes cps : Forall cp31 cps -> Forall byte (flat_map encode_utf8 cps).
Proof. apply Forall_flat_map. apply encode_utf8_bytes. Qed.

Lemma write_utf8_string_cp31 cps :
  Forall cp31 cps -> write_string E_UTF8 cps = flat_map encode_utf8 cps.
Proof. intros. apply write_utf8_string, enc8_string_bytes. assumption. Qed.

(** first byte of a non-empty UTF-8 encoded string is never FE or FF *)
Lemma bom16_enc8 cps : Forall cp31 cps -> bom16 (flat_map encode_utf8 cps) = None.
Proof.
  intros H. destruct cps as [|c cps]; [reflexivity|].
  inversion H as [|? ? Hc Hr]; subst. cbn [flat_map].
  destruct (encode_utf8 c) as [|b r] eqn:E; [exfalso; eapply encode_utf8_nonempty; eauto|].
  pose proof (encode_utf8_lead c Hc b r E) as Hb.
  cbn [app]. destruct (r ++ flat_map encode_utf8 cps) as [|b1 r1]; [reflexivity|].
  cbn [bom16].
  replace (b =? 0xFE) with false by (symmetry; apply Z.eqb_neq; lia).
  replace (b =? 0xFF) with false by (symmetry; apply Z.eqb_neq; lia).
  reflexivity.
Qed.

(** ** UTF-8 with BOM *)
Definition file_utf8_bom (cps : list Z) : list Z := [0xEF; 0xBB; 0xBF] ++ flat_map encode_utf8 cps.
Definition file_utf8 (cps : list Z) : list Z := flat_map encode_utf8 cps.
Definition file_utf16 (be : bool) (cps : list Z) : list Z :=
  write_bom (enc16 be) ++ flat_map (write_utf16 be) cps.

Section Commute.
  Variable F : list Z -> list Z.      (* the formatter on code points: tokenize, passes, render *)

  Theorem utf8_bom_commute cps :
    Forall cp31 cps -> Forall cp31 (F cps) -> has_embedded_nul cps = false ->
    run_file true default_enc_opts F (file_utf8_bom cps) = Written (file_utf8_bom (F cps)).
  Proof.
    intros Hc HF Hn. unfold run_file, decode_unicode, decode_bom, file_utf8_bom.
    cbn [app bom16 has_utf8_bom]. cbn [Z.eqb Pos.eqb andb].
    unfold decode_utf8. cbn [app has_utf8_bom]. cbn [Z.eqb Pos.eqb andb skipn].
    rewrite dec8_encode by exact Hc. cbn [option_map d_data d_enc d_bom].
    rewrite Hn. cbn [out_enc out_bom default_enc_opts utf8_force utf8_byte utf8_bom enc_eqb orb andb write_bom].
    rewrite write_utf8_string_cp31 by exact HF. reflexivity.
  Qed.

  Lemma write_utf16_len be c : scalar c -> exists k, length (write_utf16 be c) = (2 * k)%nat.
  Proof.
    intros Hc. unfold write_utf16.
    destruct (((0 <=? c) && (c <? 0xD800)) || ((0xE000 <=? c) && (c <? 0x10000))) eqn:H1.
    - assert (Hr : 0 <= c < 0x10000).
      { apply orb_prop in H1 as [H|H]; apply andb_prop in H as [Ha Hb];
        apply Z.leb_le in Ha; apply Z.ltb_lt in Hb; lia. }
      rewrite !write_byte_ok by (unfold byte; lia). exists 1%nat. destruct be; reflexivity.
    - assert (Hr : 0x10000 <= c < 0x110000).
      { unfold scalar in Hc. apply orb_false_elim in H1 as [Ha Hb].
        destruct Hc as [Hc|Hc]; [exfalso|].
        - replace (0 <=? c) with true in Ha by (symmetry; apply Z.leb_le; lia).
          replace (c <? 0xD800) with true in Ha by (symmetry; apply Z.ltb_lt; lia). discriminate.
        - destruct (c <? 0x10000) eqn:Hx; [|apply Z.ltb_ge in Hx; lia].
          replace (0xE000 <=? c) with true in Hb by (symmetry; apply Z.leb_le; lia). discriminate. }
      cmps. rewrite !write_byte_ok by (unfold byte; lia). exists 2%nat. destruct be; reflexivity.
  Qed.

  Lemma utf16_string_even be cps :
    Forall scalar cps -> exists k, length (flat_map (write_utf16 be) cps) = (2 * k)%nat.
  Proof.
    induction 1 as [|c l Hc _ [k IH]]; [exists O; reflexivity|].
    cbn [flat_map]. rewrite app_length, IH.
    destruct (write_utf16_len be c Hc) as [j ->]. exists (j + k)%nat. lia.
  Qed.

  Theorem utf16_commute be cps :
    Forall scalar cps -> Forall scalar (F cps) -> has_embedded_nul cps = false ->
    run_file true default_enc_opts F (file_utf16 be cps) = Written (file_utf16 be (F cps)).
  Proof.
    intros Hc HF Hn. unfold run_file, decode_unicode, decode_bom, file_utf16.
    rewrite write_bom16.
    assert (Hb : bom16 ((if be then [254; 255] else [255; 254]) ++ flat_map (write_utf16 be) cps) = Some be)
      by (destruct be; reflexivity).
    rewrite Hb.
    replace (match enc16 be with E_UTF8 => _ | _ => _ end)
      with (option_map (fun ed => {| d_enc := fst ed; d_bom := true; d_data := snd ed |})
              (decode_utf16 ((if be then [254; 255] else [255; 254]) ++ flat_map (write_utf16 be) cps)))
      by (destruct be; reflexivity).
    unfold decode_utf16. rewrite Hb.
    destruct (utf16_string_even be cps Hc) as [k Hk].
    assert (Hlen : length ((if be then [254; 255] else [255; 254]) ++ flat_map (write_utf16 be) cps)
                   = (2 * (S k))%nat) by (rewrite app_length, Hk; destruct be; cbn [length]; lia).
    rewrite Hlen.
    replace (Nat.odd (2 * S k)) with false
      by (symmetry; rewrite <- Nat.negb_even, Nat.even_mul; reflexivity).
    replace (2 * S k <? 2)%nat with false by (symmetry; apply Nat.ltb_ge; lia).
    replace (skipn 2 ((if be then [254; 255] else [255; 254]) ++ flat_map (write_utf16 be) cps))
      with (flat_map (write_utf16 be) cps) by (destruct be; reflexivity).
    rewrite dec16_write by exact Hc.
    cbn [option_map d_data d_enc d_bom fst snd]. rewrite Hn.
    replace (out_enc default_enc_opts (enc16 be)) with (enc16 be) by (destruct be; reflexivity).
    replace (out_bom default_enc_opts (enc16 be) true) with true by (destruct be; reflexivity).
    rewrite write_utf16_string by exact HF. rewrite write_bom16. reflexivity.
  Qed.

  (** BOM-less UTF-8 / ASCII.  [ascii_closed]: the formatter does not invent
      non-ASCII text in a pure-ASCII file (otherwise the ASCII writer would
      truncate it; uncrustify only inserts ASCII). *)
  Definition ascii (c : Z) : Prop := 0 <= c < 0x80.

  Lemma ascii_enc8 cps : Forall ascii cps -> flat_map encode_utf8 cps = cps.
  Proof.
    induction 1 as [|c l Hc _ IH]; [reflexivity|]. cbn [flat_map]. rewrite IH.
    unfold ascii in Hc. unfold encode_utf8. cmps. reflexivity.
  Qed.

  Lemma count_hi_zero_ascii (l : list Z) :
    Forall byte l -> count_if (fun b => 0x80 <=? b) l = O -> Forall ascii l.
  Proof.
    induction 1 as [|b l Hb _ IH]; cbn [count_if]; [constructor|].
    destruct (0x80 <=? b) eqn:E; [discriminate|]. apply Z.leb_gt in E.
    intros H. constructor; [unfold ascii, byte in *; lia|auto].
  Qed.

  Lemma enc8_ascii_inv cps :
    Forall cp31 cps -> Forall ascii (flat_map encode_utf8 cps) -> Forall ascii cps.
  Proof.
    induction 1 as [|c l Hc _ IH]; cbn [flat_map]; intros H; [constructor|].
    apply Forall_app in H as [H1 H2]. constructor; [|auto].
    unfold cp31, ascii in *. unfold encode_utf8 in H1.
    destruct (c <? 0) eqn:E0; [apply Z.ltb_lt in E0; lia|].
    destruct (c <? 0x80) eqn:E1; [apply Z.ltb_lt in E1; lia|apply Z.ltb_ge in E1].
    exfalso.
    repeat match type of H1 with
    | context [if ?a <? ?b then _ else _] =>
      let E := fresh "E" in destruct (a <? b) eqn:E; [apply Z.ltb_lt in E|apply Z.ltb_ge in E]
    end; apply Forall_inv in H1; lia.
  Qed.

  Theorem utf8_nobom_commute cps :
    Forall cp31 cps -> Forall (fun c => c <> 0) cps -> Forall cp31 (F cps) ->
    has_utf8_bom (file_utf8 cps) = false ->
    (Forall ascii cps -> Forall ascii (F cps)) ->
    run_file true default_enc_opts F (file_utf8 cps) = Written (file_utf8 (F cps)).
  Proof.
    intros Hc Hnz HF Hnb Hasc. unfold run_file, decode_unicode, decode_bom, file_utf8 in *.
    rewrite bom16_enc8 by exact Hc. rewrite Hnb.
    assert (Hz : count_if (fun b => b =? 0) (flat_map encode_utf8 cps) = O).
    { apply count_if_zero.
      assert (Hall : Forall (fun c => cp31 c /\ c <> 0) cps).
      { clear - Hc Hnz. induction Hc; inversion Hnz; subst; constructor; auto. }
      eapply Forall_flat_map; [|exact Hall].
      intros a [Ha1 Ha2]. eapply Forall_impl; [|apply encode_utf8_nonzero; eauto].
      cbn beta. intros b Hb. apply Z.eqb_neq. exact Hb. }
    rewrite Hz.
    assert (Hnul : has_embedded_nul cps = false).
    { clear - Hnz. induction Hnz as [|c l Hcz _ IH]; [reflexivity|].
      cbn [has_embedded_nul]. destruct l; [reflexivity|].
      replace (c =? 0) with false by (symmetry; apply Z.eqb_neq; exact Hcz). exact IH. }
    destruct (count_if (fun b => 0x80 <=? b) (flat_map encode_utf8 cps)) as [|n] eqn:Hhi.
    - (* pure ASCII file *)
      cbn [Nat.add Nat.eqb d_data d_enc d_bom].
      assert (Ha : Forall ascii cps).
      { apply enc8_ascii_inv; [exact Hc|]. apply count_hi_zero_ascii; [|exact Hhi].
        apply enc8_string_bytes. exact Hc. }
      rewrite (ascii_enc8 cps Ha). rewrite Hnul.
      cbn [out_enc out_bom default_enc_opts utf8_force utf8_byte utf8_bom enc_eqb orb andb app].
      specialize (Hasc Ha). rewrite (ascii_enc8 _ Hasc).
      f_equal. apply write_ascii_string.
      eapply Forall_impl; [|exact Hasc]. unfold ascii, byte; intros; lia.
    - replace (S n + 0 =? 0)%nat with false by (symmetry; apply Nat.eqb_neq; lia).
      replace ((length (flat_map encode_utf8 cps) / 4 <? 0)%nat) with false
        by (symmetry; apply Nat.ltb_ge; lia).
      cbn [andb]. unfold decode_utf8. rewrite Hnb. rewrite dec8_encode by exact Hc.
      cbn [d_data d_enc d_bom]. rewrite Hnul.
      cbn [out_enc out_bom default_enc_opts utf8_force utf8_byte utf8_bom enc_eqb orb andb app].
      f_equal. apply write_utf8_string_cp31. exact HF.
  Qed.
End Commute.

(** ** Formatting commutes with transcoding.
    [transcode] maps a file in one encoding to the file with the same code
    points in another; both sides below are [Written (file e2 (F cps))]. *)
Inductive fenc := FUtf8 | FUtf8Bom | FUtf16 (be : bool).

Definition file_of (e : fenc) (cps : list Z) : list Z :=
  match e with
  | FUtf8 => file_utf8 cps
  | FUtf8Bom => file_utf8_bom cps
  | FUtf16 be => file_utf16 be cps
  end.

Definition valid_text (F : list Z -> list Z) (cps : list Z) : Prop :=
  Forall scalar cps /\ Forall (fun c => c <> 0) cps /\ Forall scalar (F cps) /\
  hd 0 cps <> 0xFEFF /\ cps <> [] /\ (Forall (ascii) cps -> Forall ascii (F cps)).

Lemma nul_free_no_embedded cps : Forall (fun c => c <> 0) cps -> has_embedded_nul cps = false.
Proof.
  induction 1 as [|c l Hcz _ IH]; [reflexivity|].
  cbn [has_embedded_nul]. destruct l; [reflexivity|].
  replace (c =? 0) with false by (symmetry; apply Z.eqb_neq; exact Hcz). exact IH.
Qed.

Lemma no_bom_hd cps : Forall cp31 cps -> hd 0 cps <> 0xFEFF -> has_utf8_bom (file_utf8 cps) = false.
Proof.
  intros Hc Hh. destruct cps as [|c l]; [reflexivity|]. cbn [hd] in Hh.
  inversion Hc as [|? ? Hc1 Hl]; subst. unfold file_utf8. cbn [flat_map].
  destruct (has_utf8_bom (encode_utf8 c ++ flat_map encode_utf8 l)) eqn:E; [|reflexivity].
  exfalso. apply has_utf8_bom_inv in E as [r E].
  (* the first code point would decode to U+FEFF *)
  pose proof (dec8_encode true (c :: l) Hc) as D. cbn [flat_map] in D. rewrite E in D.
  change ([239; 187; 191] ++ r) with (encode_utf8 0xFEFF ++ r) in D.
  rewrite dec8_encode_one in D by (unfold cp31; lia).
  destruct (dec8 true None r); [|discriminate]. cbn in D. injection D as D _. congruence.
Qed.

Theorem run_valid_file F e cps :
  valid_text F cps ->
  run_file true default_enc_opts F (file_of e cps) = Written (file_of e (F cps)).
Proof.
  intros (Hs & Hnz & HFs & Hhd & Hne & Hasc).
  assert (Hc : Forall cp31 cps) by (eapply Forall_impl; [apply scalar_cp31|exact Hs]).
  assert (HFc : Forall cp31 (F cps)) by (eapply Forall_impl; [apply scalar_cp31|exact HFs]).
  destruct e as [| |be]; cbn [file_of].
  - apply utf8_nobom_commute; auto using no_bom_hd.
  - apply utf8_bom_commute; auto using nul_free_no_embedded.
  - apply utf16_commute; auto using nul_free_no_embedded.
Qed.

Definition written (o : outcome) : list Z := match o with Written b => b | Refused => [] end.

Theorem format_commutes_with_transcoding F e1 e2 cps :
  valid_text F cps ->
  (* format (transcode x) *)
  run_file true default_enc_opts F (file_of e2 cps)
  (* = transcode (format x) *)
  = Written (file_of e2 (F cps))
  /\ run_file true default_enc_opts F (file_of e1 cps) = Written (file_of e1 (F cps)).
Proof. intros H. split; apply run_valid_file; exact H. Qed.

(** ** BOM policy, all option values (finite case analysis) *)
Theorem bom_policy_spec o e bom_in :
  out_bom o e bom_in = true <->
  match e with
  | E_UTF16LE | E_UTF16BE => True
  | E_UTF8 => match utf8_bom o with
              | Add | Force => True | Remove => False | Ignore => bom_in = true end
  | E_ASCII | E_BYTE => bom_in = true
  end.
Proof.
  unfold out_bom. destruct e, (utf8_bom o), bom_in; cbn; intuition congruence.
Qed.

Theorem out_enc_spec o e :
  out_enc o e = if utf8_force o then E_UTF8
                else match e with E_BYTE => if utf8_byte o then E_UTF8 else E_BYTE | _ => e end.
Proof. unfold out_enc. destruct (utf8_force o), e, (utf8_byte o); reflexivity. Qed.

(** non-vacuity: a concrete text satisfies [valid_text] for the identity formatter *)
Example valid_text_example : valid_text (fun x => x) [0x2F; 0x2A; 0x20AC; 0x1F600; 0x2A; 0x2F].
Proof.
  unfold valid_text, scalar, ascii. cbn [hd].
  repeat split; try (repeat constructor; lia); try lia; try discriminate.
  intros H. exact H.
Qed.
