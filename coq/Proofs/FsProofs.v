(** Proofs about Model/FsProto.v: frame reasoning for the monadic operation list, then the
    all-or-nothing theorem (C13), --check/--if-changed (C12).  No axioms. *)
From Coq Require Import List ZArith Bool Arith Lia.
From UV Require Import Model.FsProto.
Import ListNotations.

Lemma bytes_eqb_refl a : bytes_eqb a a = true.
Proof. induction a as [|x a IH]; cbn; [reflexivity|]. rewrite Z.eqb_refl, IH. reflexivity. Qed.

Lemma bytes_eqb_eq a : forall b, bytes_eqb a b = true <-> a = b.
Proof.
  induction a as [|x a IH]; intros [|y b]; cbn; split; intros H; try reflexivity; try discriminate.
  - apply andb_prop in H as [H1 H2]. apply Z.eqb_eq in H1. apply IH in H2. subst. reflexivity.
  - injection H as -> ->. rewrite Z.eqb_refl. cbn. apply bytes_eqb_refl.
Qed.

Lemma role_eqb_eq a b : role_eqb a b = true <-> a = b.
Proof. destruct a, b; cbn; split; intros H; try reflexivity; try discriminate. Qed.

Lemma upd_same d r f : upd d r f r = f.
Proof. unfold upd. destruct r; reflexivity. Qed.

Lemma upd_other d r f r' : r <> r' -> upd d r f r' = d r'.
Proof. unfold upd. intros H. destruct (role_eqb r r') eqn:E; [apply role_eqb_eq in E; contradiction|reflexivity]. Qed.

(** ** frame: which files a computation can change *)
Definition final_st {A} (x : res A) : st := match x with Ok _ s => s | Stop _ s => s end.

Definition touches {A} (m : M A) (rs : list role) : Prop :=
  forall s r, ~ In r rs -> disk (final_st (m s)) r = disk s r.

Lemma touches_ret {A} (a : A) rs : touches (ret a) rs.
Proof. intros s r _. reflexivity. Qed.

Lemma touches_exit {A} c rs : touches (@exit_ A c) rs.
Proof. intros s r _. reflexivity. Qed.

Lemma touches_bind {A B} (m : M A) (f : A -> M B) rs :
  touches m rs -> (forall a, touches (f a) rs) -> touches (bind m f) rs.
Proof.
  intros Hm Hf s r Hr. unfold bind. specialize (Hm s r Hr).
  destruct (m s) as [a s'|c s']; cbn [final_st] in *.
  - rewrite (Hf a s' r Hr). exact Hm.
  - exact Hm.
Qed.

Lemma touches_weaken {A} (m : M A) rs rs' : touches m rs -> incl rs rs' -> touches m rs'.
Proof. intros H Hi s r Hr. apply H. intros Hin. apply Hr, Hi, Hin. Qed.

Lemma touches_if {A} (b : bool) (m1 m2 : M A) rs : touches m1 rs -> touches m2 rs -> touches (if b then m1 else m2) rs.
Proof. destruct b; auto. Qed.

Section WithPlan.
  Variable pl : plan.

  Lemma touches_begin rs : touches (begin_op pl) rs.
  Proof.
    intros s r _. unfold begin_op.
    destruct (crash pl) as [[k [j|]]|]; try reflexivity.
    destruct (Nat.eqb k (nop s)); reflexivity.
  Qed.

  Lemma touches_log o r0 ok rs : touches (log o r0 ok) rs.
  Proof. intros s r _. reflexivity. Qed.

  Lemma touches_get r0 rs : touches (get r0) rs.
  Proof. intros s r _. reflexivity. Qed.

  Lemma touches_put r0 f rs : In r0 rs -> touches (put r0 f) rs.
  Proof.
    intros Hin s r Hr. cbn. apply upd_other. intros ->. contradiction.
  Qed.

  Ltac tch :=
    repeat first
      [ apply touches_begin | apply touches_log | apply touches_get
      | apply touches_ret | apply touches_exit
      | apply touches_put; cbn; tauto
      | apply touches_if
      | match goal with |- touches (match ?x with _ => _ end) _ => destruct x end
      | apply touches_bind; [|intros ?] ].

  Lemma touches_probe o r0 : touches (op_probe pl o r0) [].
  Proof. unfold op_probe. tch. Qed.

  Lemma touches_read o r0 : touches (op_read pl o r0) [].
  Proof. unfold op_read. tch. Qed.

  Lemma touches_simple o r0 : touches (op_simple pl o r0) [].
  Proof. unfold op_simple. tch. Qed.

  Lemma touches_close r0 : touches (op_close pl r0) [].
  Proof. unfold op_close. tch. Qed.

  Lemma touches_fopen_w r0 : touches (op_fopen_w pl r0) [r0].
  Proof. unfold op_fopen_w. tch. Qed.

  Lemma touches_write r0 d : touches (op_write pl r0 d) [r0].
  Proof.
    unfold op_write. apply touches_bind; [apply touches_begin|intros f].
    apply touches_bind; [apply touches_log|intros _].
    apply touches_bind; [apply touches_get|intros cur].
    intros s r Hr.
    assert (Hne : r0 <> r) by (intros ->; apply Hr; cbn; tauto).
    destruct cur as [|c|c e]; try reflexivity.
    destruct (eff_crash d (crashw_here pl s)); cbn [final_st disk]; [apply upd_other; exact Hne|].
    destruct (eff_fault d f) as [[|j]|]; [cbn; apply upd_other; exact Hne| |].
    - destruct e; cbn; [reflexivity|apply upd_other; exact Hne].
    - destruct e; cbn; [reflexivity|apply upd_other; exact Hne].
  Qed.

  Lemma touches_fclose_w r0 : touches (op_fclose_w pl r0) [r0].
  Proof. unfold op_fclose_w. tch. Qed.

  Lemma touches_rename a b : touches (op_rename pl a b) [a; b].
  Proof. unfold op_rename. tch. Qed.

  Lemma touches_unlink r0 : touches (op_unlink pl r0) [r0].
  Proof. unfold op_unlink. tch. Qed.

  Lemma touches_load : touches (load pl) [].
  Proof.
    unfold load.
    repeat first
      [ apply touches_probe | apply touches_read | apply touches_simple | apply touches_get
      | apply touches_ret | apply touches_exit | apply touches_if
      | match goal with |- touches (match ?x with _ => _ end) _ => destruct x end
      | apply touches_bind; [|intros ?] ].
  Qed.

  Lemma touches_backup_copy orig : touches (backup_copy pl orig) [RBackup].
  Proof.
    unfold backup_copy.
    repeat first
      [ eapply touches_weaken; [apply touches_probe|intros ? []]
      | eapply touches_weaken; [apply touches_read|intros ? []]
      | eapply touches_weaken; [apply touches_simple|intros ? []]
      | apply touches_fopen_w | apply touches_write | apply touches_fclose_w
      | apply touches_ret | apply touches_exit | apply touches_if
      | match goal with |- touches (match ?x with _ => _ end) _ => destruct x end
      | apply touches_bind; [|intros ?] ].
  Qed.

  Lemma touches_content_matches a b : touches (content_matches pl a b) [].
  Proof.
    unfold content_matches.
    repeat first
      [ apply touches_probe | apply touches_read | apply touches_close | apply touches_get
      | apply touches_ret | apply touches_exit | apply touches_if
      | match goal with |- touches (match ?x with _ => _ end) _ => destruct x end
      | apply touches_bind; [|intros ?] ].
  Qed.

  Lemma touches_create_md5 src : touches (create_md5 pl src) [RMd5].
  Proof.
    unfold create_md5.
    repeat first
      [ eapply touches_weaken; [apply touches_probe|intros ? []]
      | eapply touches_weaken; [apply touches_read|intros ? []]
      | eapply touches_weaken; [apply touches_simple|intros ? []]
      | apply touches_fopen_w | apply touches_write | apply touches_fclose_w
      | apply touches_ret | apply touches_exit | apply touches_if
      | match goal with |- touches (match ?x with _ => _ end) _ => destruct x end
      | apply touches_bind; [|intros ?] ].
  Qed.
End WithPlan.

(** ** Hoare-style specifications over the disk *)
Definition dpred := (role -> fstate) -> Prop.

Definition spec {A} (m : M A) (P : dpred) (Q : A -> dpred) (E : dpred) : Prop :=
  forall s, P (disk s) ->
    match m s with
    | Ok a s' => Q a (disk s')
    | Stop c s' => E (disk s') /\ c <> Some 0%Z
    end.

Lemma spec_bind {A B} (m : M A) (f : A -> M B) P Q R E :
  spec m P Q E -> (forall a, spec (f a) (Q a) R E) -> spec (bind m f) P R E.
Proof.
  intros Hm Hf s HP. unfold bind. specialize (Hm s HP).
  destruct (m s) as [a s'|c s']; [apply Hf; exact Hm|exact Hm].
Qed.

Lemma spec_ret {A} (a : A) (P : dpred) (Q : A -> dpred) E : (forall d, P d -> Q a d) -> spec (ret a) P Q E.
Proof. intros H s HP. cbn. auto. Qed.

Lemma spec_exit {A} c (P : dpred) (Q : A -> dpred) (E : dpred) :
  c <> 0%Z -> (forall d, P d -> E d) -> spec (exit_ c) P Q E.
Proof. intros Hc H s HP. cbn. split; [auto|]. intros X. injection X as X. contradiction. Qed.

Lemma spec_conseq {A} (m : M A) (P P' : dpred) (Q Q' : A -> dpred) (E E' : dpred) :
  spec m P Q E -> (forall d, P' d -> P d) -> (forall a d, Q a d -> Q' a d) -> (forall d, E d -> E' d) ->
  spec m P' Q' E'.
Proof.
  intros H HP HQ HE s HP'. specialize (H s (HP _ HP')).
  destruct (m s); [auto|]. destruct H; split; auto.
Qed.

Lemma spec_if {A} (b : bool) (m1 m2 : M A) P Q E :
  (b = true -> spec m1 P Q E) -> (b = false -> spec m2 P Q E) -> spec (if b then m1 else m2) P Q E.
Proof. destruct b; auto. Qed.

(** exits of every computation are non-zero, kills are [None] *)
Definition nonzero {A} (m : M A) : Prop := forall s c s', m s = Stop c s' -> c <> Some 0%Z.

Lemma nz_ret {A} (a : A) : nonzero (ret a).
Proof. intros s c s' H. discriminate. Qed.
Lemma nz_exit {A} c : c <> 0%Z -> nonzero (@exit_ A c).
Proof. intros Hc s c' s' H. cbn in H. injection H as <- _. intros X. injection X as X. contradiction. Qed.
Lemma nz_bind {A B} (m : M A) (f : A -> M B) : nonzero m -> (forall a, nonzero (f a)) -> nonzero (bind m f).
Proof.
  intros Hm Hf s c s' H. unfold bind in H. destruct (m s) as [a s1|c1 s1] eqn:E.
  - eapply Hf; eauto.
  - injection H as <- <-. eapply Hm; eauto.
Qed.
Lemma nz_if {A} (b : bool) (m1 m2 : M A) : nonzero m1 -> nonzero m2 -> nonzero (if b then m1 else m2).
Proof. destruct b; auto. Qed.

Definition stable (P : dpred) (rs : list role) : Prop :=
  forall d d', (forall r, ~ In r rs -> d' r = d r) -> P d -> P d'.

Lemma spec_frame {A} (m : M A) rs (P : dpred) :
  touches m rs -> nonzero m -> stable P rs -> spec m P (fun _ => P) P.
Proof.
  intros Ht Hn Hs s HP. pose proof (Ht s) as Hd. specialize (Hn s).
  destruct (m s) as [a s'|c s']; cbn [final_st] in Hd.
  - eapply Hs; eauto.
  - split; [eapply Hs; eauto|eapply Hn; reflexivity].
Qed.

Section WithPlan2.
  Variable pl : plan.

  Lemma nz_begin : nonzero (begin_op pl).
  Proof.
    intros s c s' H. unfold begin_op in H.
    destruct (crash pl) as [[k [j|]]|]; try discriminate.
    destruct (Nat.eqb k (nop s)); [|discriminate]. injection H as <- _. discriminate.
  Qed.
  Lemma nz_log o r ok : nonzero (log o r ok).
  Proof. intros s c s' H. discriminate. Qed.
  Lemma nz_get r : nonzero (get r).
  Proof. intros s c s' H. discriminate. Qed.
  Lemma nz_put r f : nonzero (put r f).
  Proof. intros s c s' H. discriminate. Qed.

  Ltac nz :=
    repeat first
      [ apply nz_begin | apply nz_log | apply nz_get | apply nz_put | apply nz_ret
      | apply nz_exit; discriminate | apply nz_if
      | match goal with |- nonzero (match ?x with _ => _ end) => destruct x end
      | apply nz_bind; [|intros ?] ].

  Lemma nz_probe o r : nonzero (op_probe pl o r). Proof. unfold op_probe. nz. Qed.
  Lemma nz_read o r : nonzero (op_read pl o r). Proof. unfold op_read. nz. Qed.
  Lemma nz_simple o r : nonzero (op_simple pl o r). Proof. unfold op_simple. nz. Qed.
  Lemma nz_close r : nonzero (op_close pl r). Proof. unfold op_close. nz. Qed.
  Lemma nz_fopen_w r : nonzero (op_fopen_w pl r). Proof. unfold op_fopen_w. nz. Qed.
  Lemma nz_fclose_w r : nonzero (op_fclose_w pl r). Proof. unfold op_fclose_w. nz. Qed.
  Lemma nz_rename a b : nonzero (op_rename pl a b). Proof. unfold op_rename. nz. Qed.
  Lemma nz_unlink r : nonzero (op_unlink pl r). Proof. unfold op_unlink. nz. Qed.
  Lemma nz_write r d : nonzero (op_write pl r d).
  Proof.
    unfold op_write. apply nz_bind; [apply nz_begin|intros f].
    apply nz_bind; [apply nz_log|intros _]. apply nz_bind; [apply nz_get|intros cur].
    intros s c s' H. destruct cur as [|x|x e]; try discriminate.
    destruct (eff_crash d (crashw_here pl s)); [injection H as <- _; discriminate|].
    destruct (eff_fault d f) as [[|j]|]; try discriminate; destruct e; discriminate.
  Qed.

  Ltac nz2 :=
    repeat first
      [ apply nz_probe | apply nz_read | apply nz_simple | apply nz_close | apply nz_fopen_w
      | apply nz_fclose_w | apply nz_rename | apply nz_unlink | apply nz_write
      | apply nz_get | apply nz_ret | apply nz_exit; discriminate | apply nz_if
      | match goal with |- nonzero (match ?x with _ => _ end) => destruct x end
      | apply nz_bind; [|intros ?] ].

  Lemma nz_load : nonzero (load pl). Proof. unfold load. nz2. Qed.
  Lemma nz_backup_copy o : nonzero (backup_copy pl o). Proof. unfold backup_copy. nz2. Qed.
  Lemma nz_content_matches a b : nonzero (content_matches pl a b). Proof. unfold content_matches. nz2. Qed.
  Lemma nz_create_md5 src : nonzero (create_md5 pl src). Proof. unfold create_md5. nz2. Qed.
End WithPlan2.

(** ** outcome lemmas for the primitives (what an [Ok] result tells) *)
Lemma bind_ok_inv {A B} (m : M A) (f : A -> M B) s b s2 :
  bind m f s = Ok b s2 -> exists a s1, m s = Ok a s1 /\ f a s1 = Ok b s2.
Proof. unfold bind. destruct (m s) as [a s1|c s1]; [eauto|discriminate]. Qed.

Ltac binv H :=
  let a := fresh "a" in let s1 := fresh "s" in let H1 := fresh "H" in
  apply bind_ok_inv in H as (a & s1 & H1 & H).
Tactic Notation "binvn" hyp(H) "as" ident(a) ident(s1) ident(H1) :=
  apply bind_ok_inv in H as (a & s1 & H1 & H).

Lemma touches_ok {A} (m : M A) rs s a s1 r :
  touches m rs -> m s = Ok a s1 -> ~ In r rs -> disk s1 r = disk s r.
Proof. intros Ht H Hr. specialize (Ht s r Hr). rewrite H in Ht. exact Ht. Qed.

Section Outcomes.
  Variable pl : plan.

  Lemma begin_ok s f s1 : begin_op pl s = Ok f s1 -> disk s1 = disk s.
  Proof.
    unfold begin_op. destruct (crash pl) as [[k [j|]]|]; try (intros H; injection H as _ <-; reflexivity).
    destruct (Nat.eqb k (nop s)); [discriminate|]. intros H; injection H as _ <-; reflexivity.
  Qed.

  Lemma log_ok o r ok s u s1 : log o r ok s = Ok u s1 -> disk s1 = disk s.
  Proof. intros H; injection H as _ <-; reflexivity. Qed.

  Lemma get_ok r s x s1 : get r s = Ok x s1 -> s1 = s /\ x = disk s r.
  Proof. intros H; injection H as <- <-; auto. Qed.

  Lemma put_ok r f s u s1 : put r f s = Ok u s1 -> disk s1 = upd (disk s) r f.
  Proof. intros H; injection H as _ <-; reflexivity. Qed.

  Lemma ret_ok {A} (a : A) s x s1 : ret a s = Ok x s1 -> s1 = s /\ x = a.
  Proof. intros H; injection H as <- <-; auto. Qed.

  Lemma probe_ok o r s b s1 :
    op_probe pl o r s = Ok b s1 -> b = true -> exists_ (disk s r) = true.
  Proof.
    unfold op_probe. intros H. binv H. binv H. binv H.
    apply begin_ok in H0. apply get_ok in H1 as [-> ->]. apply log_ok in H2.
    apply ret_ok in H as [-> ->].
    destruct a; [discriminate|]. rewrite H0. auto.
  Qed.

  Lemma read_ok o r s x s1 c :
    op_read pl o r s = Ok x s1 -> x = Some c ->
    disk s r = Closed c \/ exists e, disk s r = Writing c e.
  Proof.
    unfold op_read. intros H. binv H. binv H. binv H.
    apply begin_ok in H0. apply get_ok in H1 as [-> ->]. apply log_ok in H2.
    apply ret_ok in H as [-> ->].
    intros Hc. rewrite H0 in Hc. destruct a; [discriminate|].
    destruct (disk s r) as [|c'|c' e]; try discriminate; injection Hc as ->; eauto.
  Qed.

  Lemma fopen_w_ok r s b s1 :
    op_fopen_w pl r s = Ok b s1 -> b = true -> disk s1 r = Writing (Data []) false.
  Proof.
    unfold op_fopen_w. intros H. binv H. apply begin_ok in H0. destruct a.
    - binv H. apply ret_ok in H as [-> ->]. discriminate.
    - binv H. binv H. apply put_ok in H1. apply log_ok in H2. apply ret_ok in H as [-> ->].
      intros _. rewrite H2, H1. apply upd_same.
  Qed.

  Lemma write_ok r d s u s1 c e :
    op_write pl r d s = Ok u s1 -> disk s r = Writing c e ->
    exists c' e', disk s1 r = Writing c' e' /\ (e' = false -> e = false /\ c' = app_content c d None).
  Proof.
    unfold op_write. intros H Hd. binv H. binv H. binv H.
    apply begin_ok in H0. apply log_ok in H1. apply get_ok in H2 as [-> ->].
    assert (Hd2 : disk s2 r = Writing c e) by congruence. rewrite Hd2 in H.
    destruct (eff_crash d (crashw_here pl s2)); [discriminate|].
    destruct (eff_fault d a) as [[|j]|].
    - injection H as _ <-. cbn [disk]. exists c, true. rewrite upd_same. split; [reflexivity|discriminate].
    - destruct e; injection H as _ <-; cbn [disk].
      + exists c, true. split; [exact Hd2|discriminate].
      + eexists _, true. rewrite upd_same. split; [reflexivity|discriminate].
    - destruct e; injection H as _ <-; cbn [disk].
      + exists c, true. split; [exact Hd2|discriminate].
      + eexists _, false. rewrite upd_same. split; [reflexivity|]. intros _. split; reflexivity.
  Qed.

  Lemma fclose_w_ok r s b s1 c e :
    op_fclose_w pl r s = Ok b s1 -> disk s r = Writing c e ->
    disk s1 r = Closed c /\ (b = true -> e = false).
  Proof.
    unfold op_fclose_w. intros H Hd. binv H. binv H.
    apply begin_ok in H0. apply get_ok in H1 as [-> ->].
    assert (Hd2 : disk s0 r = Writing c e) by congruence. rewrite Hd2 in H.
    binv H. binv H. apply put_ok in H1. apply log_ok in H2. apply ret_ok in H as [-> ->].
    split; [rewrite H2, H1; apply upd_same|].
    intros Hb. apply andb_prop in Hb as [Hb _]. destruct e; [discriminate|reflexivity].
  Qed.

  Lemma rename_ok a b s x s1 :
    op_rename pl a b s = Ok x s1 -> x = true -> a <> b ->
    exists c, disk s a = Closed c /\ disk s1 b = Closed c /\ disk s1 a = Absent.
  Proof.
    unfold op_rename. intros H Hx Hab. binv H. binv H.
    apply begin_ok in H0. apply get_ok in H1 as [-> ->].
    destruct a0 as [f|].
    { binv H. apply ret_ok in H as [-> ->]. discriminate. }
    destruct (disk s0 a) as [|c|c e] eqn:Hda;
      try (binv H; apply ret_ok in H as [-> ->]; discriminate).
    binv H. binv H. binv H. apply put_ok in H1. apply put_ok in H2. apply log_ok in H3.
    apply ret_ok in H as [-> _].
    exists c. split; [congruence|]. rewrite H3, H2, H1. split.
    - rewrite upd_other by exact Hab. apply upd_same.
    - apply upd_same.
  Qed.
End Outcomes.

Lemma spec_block {A} (m : M A) rs (P : dpred) (Q : A -> dpred) (E : dpred) :
  touches m rs -> nonzero m -> stable E rs -> (forall d, P d -> E d) ->
  (forall s a s1, m s = Ok a s1 -> P (disk s) -> Q a (disk s1)) ->
  spec m P Q E.
Proof.
  intros Ht Hn Hs HPE Hok s HP. pose proof (Ht s) as Hd. specialize (Hn s).
  destruct (m s) as [a s'|c s'] eqn:Em; cbn [final_st] in Hd.
  - eapply Hok; eauto.
  - split; [eapply Hs; eauto|eapply Hn; reflexivity].
Qed.

Definition holds (f : fstate) (c : content) : Prop := f = Closed c \/ exists e, f = Writing c e.

Definition digest_match (c : content) (orig : bytes) : bool :=
  match c with
  | Digest b => bytes_eqb b orig
  | DigestPrefix b j => (32 <=? j)%nat && bytes_eqb b orig
  | Data _ => false
  end.

(** ** C13: in-place rewriting is all-or-nothing *)
Section AllOrNothing.
  Variable pl : plan.
  Variable md : mode.
  Variable fmt : bytes -> option bytes.
  Variable orig : bytes.
  Hypothesis Hin_place : in_place md = true.
  Hypothesis Hto_file : to_file md = true.
  Hypothesis Hno_check : do_check md = false.

  Variable d0 : role -> fstate.      (* the file system when the run starts *)

  (** [bk]: a backup is due: backups enabled and the recorded md5 does not describe [orig] *)
  Definition bk : Prop :=
    no_backup md = false /\ forall c, holds (d0 RMd5) c -> digest_match c orig = false.

  Definition I0 : dpred := fun d => d RIn = Closed (Data orig).
  Definition Done : dpred := fun d =>
    exists f, fmt orig = Some f /\ d RIn = Closed (Data f) /\
              (bk -> f <> orig -> d RBackup = Closed (Data orig)).
  Definition Safe : dpred := fun d => I0 d \/ Done d.
  Definition I1 : dpred := fun d => I0 d /\ (bk -> d RBackup = Closed (Data orig)).

  Lemma stable_I0 rs : ~ In RIn rs -> stable I0 rs.
  Proof. intros H d d' Hd HI. unfold I0 in *. rewrite Hd; assumption. Qed.

  Lemma stable_I1 rs : ~ In RIn rs -> ~ In RBackup rs -> stable I1 rs.
  Proof. intros H1 H2 d d' Hd [HI Hb]. unfold I1, I0 in *. rewrite !Hd by assumption. auto. Qed.

  Lemma stable_Done rs : ~ In RIn rs -> ~ In RBackup rs -> stable Done rs.
  Proof.
    intros H1 H2 d d' Hd (f & Hf & Hi & Hb). exists f. rewrite !Hd by assumption. auto.
  Qed.

  Lemma stable_Safe rs : ~ In RIn rs -> ~ In RBackup rs -> stable Safe rs.
  Proof.
    intros H1 H2 d d' Hd [H|H]; [left; eapply stable_I0; eauto|right; eapply stable_Done; eauto].
  Qed.

  (** load returns the bytes of the file *)
  Lemma load_value s b s1 : load pl s = Ok b s1 -> disk s RIn = Closed (Data orig) -> b = orig.
  Proof.
    unfold load. intros H Hd. binv H.
    pose proof (touches_ok _ _ _ _ _ RIn (touches_probe pl KStat RIn) H0 (fun x => x)) as D0.
    destruct (negb a); [discriminate|].
    binv H. apply get_ok in H1 as [-> ->]. binv H.
    pose proof (touches_ok _ _ _ _ _ RIn (touches_probe pl KFopenR RIn) H1 (fun x => x)) as D1.
    destruct (negb a0); [discriminate|].
    rewrite D0, Hd in H.
    destruct orig as [|x o].
    - binv H. apply ret_ok in H as [_ ->]. reflexivity.
    - binv H. destruct a1 as [[b'| |]|]; try discriminate.
      eapply read_ok in H2; [|reflexivity]. rewrite D1, D0, Hd in H2.
      binv H. apply ret_ok in H as [_ ->].
      destruct H2 as [H2|[e H2]]; [injection H2 as ->; reflexivity|discriminate].
  Qed.

  Lemma spec_load (P : dpred) :
    stable P [] -> (forall d, P d -> I0 d) ->
    spec (load pl) P (fun b d => b = orig /\ P d) P.
  Proof.
    intros Hs HP. eapply spec_block with (rs := []).
    - apply touches_load. - apply nz_load. - exact Hs. - auto.
    - intros s b s1 H HPs. split.
      + eapply load_value; eauto. apply HP. exact HPs.
      + eapply Hs; [|exact HPs]. intros r Hr. eapply touches_ok; eauto using touches_load.
  Qed.

  (** backup_copy: when it returns, a due backup has been written completely *)
  Lemma backup_copy_value s u s1 :
    backup_copy pl orig s = Ok u s1 ->
    (forall c, holds (disk s RMd5) c -> digest_match c orig = false) ->
    disk s1 RBackup = Closed (Data orig).
  Proof.
    unfold backup_copy. intros H Hnm. binv H.
    pose proof (touches_ok _ _ _ _ _ RMd5 (touches_probe pl KFopenR RMd5) H0 (fun x => x)) as D0.
    binv H.
    assert (Hrec : forall c, a0 = Some c -> digest_match c orig = false).
    { destruct a.
      - binv H1. binv H1. apply ret_ok in H1 as [_ ->].
        intros c Hc. eapply read_ok in H2; [|exact Hc]. apply Hnm. rewrite <- D0. exact H2.
      - apply ret_ok in H1 as [_ ->]. discriminate. }
    assert (Hsame : (match a0 with
                     | Some (Digest b) => bytes_eqb b orig
                     | Some (DigestPrefix b j) => (32 <=? j)%nat && bytes_eqb b orig
                     | _ => false end) = false).
    { destruct a0 as [[b|b|b j]|]; try reflexivity; exact (Hrec _ eq_refl). }
    rewrite Hsame in H. binvn H as okb sb Hb. destruct (negb okb) eqn:Ea; [discriminate|].
    apply negb_false_iff in Ea. subst okb.
    pose proof (fopen_w_ok pl _ _ _ _ Hb eq_refl) as W0.
    binvn H as uw sw Hw.
    destruct (write_ok pl _ _ _ _ _ _ _ Hw W0) as (c' & e' & W1 & W1e).
    binvn H as okc sc Hc. destruct okc; [|discriminate].
    destruct (fclose_w_ok pl _ _ _ _ _ _ Hc W1) as [W2 W2e].
    apply ret_ok in H as [-> _]. rewrite W2.
    specialize (W2e eq_refl). subst e'. destruct (W1e eq_refl) as [_ ->]. reflexivity.
  Qed.

  Lemma spec_backup_copy :
    spec (backup_copy pl orig) (fun d => I0 d /\ d RMd5 = d0 RMd5) (fun _ => I1) I0.
  Proof.
    eapply spec_block with (rs := [RBackup]).
    - apply touches_backup_copy. - apply nz_backup_copy.
    - apply stable_I0. cbn; intuition discriminate.
    - intros d [H _]; exact H.
    - intros s u s1 H [HI Hm]. split.
      + unfold I0. erewrite touches_ok; eauto using touches_backup_copy. cbn; intuition discriminate.
      + intros [_ Hnm]. eapply backup_copy_value; eauto. rewrite Hm. exact Hnm.
  Qed.

  (** file_content_matches answers true only for equal contents *)
  Lemma content_matches_value a b s x s1 ca cb :
    content_matches pl a b s = Ok x s1 -> x = true ->
    disk s a = Closed (Data ca) -> disk s b = Closed (Data cb) -> ca = cb.
  Proof.
    unfold content_matches. intros H Hx Ha Hb.
    binvn H as sa s2 Hsa.
    pose proof (touches_ok _ _ _ _ _ a (touches_probe pl KStat a) Hsa (fun z => z)) as Da.
    pose proof (touches_ok _ _ _ _ _ b (touches_probe pl KStat a) Hsa (fun z => z)) as Db.
    binvn H as fa s3 Hfa. apply get_ok in Hfa as [-> ->].
    destruct (negb sa); [apply ret_ok in H as [_ ->]; discriminate|].
    binvn H as sb s4 Hsb.
    pose proof (touches_ok _ _ _ _ _ a (touches_probe pl KStat b) Hsb (fun z => z)) as Da2.
    pose proof (touches_ok _ _ _ _ _ b (touches_probe pl KStat b) Hsb (fun z => z)) as Db2.
    binvn H as fb s5 Hfb. apply get_ok in Hfb as [-> ->].
    destruct (negb sb); [apply ret_ok in H as [_ ->]; discriminate|].
    rewrite Da, Ha in H. rewrite Db2, Db, Hb in H. cbn [bytes_of] in H.
    destruct (Nat.eqb (length ca) (length cb)) eqn:El; cbn [negb] in H;
      [|apply ret_ok in H as [_ ->]; discriminate].
    apply Nat.eqb_eq in El.
    binvn H as oa s6 Hoa. destruct (negb oa); [apply ret_ok in H as [_ ->]; discriminate|].
    pose proof (touches_ok _ _ _ _ _ a (touches_probe pl KOpen a) Hoa (fun z => z)) as Da3.
    pose proof (touches_ok _ _ _ _ _ b (touches_probe pl KOpen a) Hoa (fun z => z)) as Db3.
    binvn H as ob s7 Hob.
    pose proof (touches_ok _ _ _ _ _ a (touches_probe pl KOpen b) Hob (fun z => z)) as Da4.
    pose proof (touches_ok _ _ _ _ _ b (touches_probe pl KOpen b) Hob (fun z => z)) as Db4.
    destruct (negb ob).
    { binvn H as u1 s8 Hu. apply ret_ok in H as [_ ->]. discriminate. }
    binvn H as ra s8 Hra.
    pose proof (touches_ok _ _ _ _ _ b (touches_read pl KRead a) Hra (fun z => z)) as Db5.
    binvn H as rb s9 Hrb.
    destruct ra as [xa|]; [|binvn H as u1 s10 Hu1; binvn H as u2 s11 Hu2; apply ret_ok in H as [_ ->]; discriminate].
    destruct rb as [xb|]; [|binvn H as u1 s10 Hu1; binvn H as u2 s11 Hu2; apply ret_ok in H as [_ ->]; discriminate].
    eapply read_ok in Hra; [|reflexivity]. eapply read_ok in Hrb; [|reflexivity].
    rewrite Da4, Da3, Da2, Da, Ha in Hra. rewrite Db5, Db4, Db3, Db2, Db, Hb in Hrb.
    destruct Hra as [Hra|[e Hra]]; [injection Hra as <-|discriminate].
    destruct Hrb as [Hrb|[e Hrb]]; [injection Hrb as <-|discriminate].
    destruct (Nat.eqb (length ca) 0) eqn:E0.
    { apply Nat.eqb_eq in E0. destruct ca; [|discriminate]. destruct cb; [reflexivity|discriminate]. }
    cbn [content_eqb] in H. destruct (bytes_eqb ca cb) eqn:Eb.
    - apply bytes_eqb_eq in Eb. exact Eb.
    - binvn H as u1 s10 Hu1. binvn H as u2 s11 Hu2. apply ret_ok in H as [_ ->]. discriminate.
  Qed.

  Lemma rename_spec f :
    fmt orig = Some f ->
    spec (op_rename pl RTmp RIn) (fun d => I1 d /\ d RTmp = Closed (Data f))
         (fun okr d => if okr then Done d else I1 d) Safe.
  Proof.
    intros Hf s [[HI Hb] Ht].
    destruct (op_rename pl RTmp RIn s) as [okr s1|c s1] eqn:E.
    - destruct okr.
      + destruct (rename_ok pl _ _ _ _ _ E eq_refl) as (c & Hc & Hin & _); [discriminate|].
        rewrite Ht in Hc. injection Hc as <-.
        exists f. split; [exact Hf|]. split; [exact Hin|].
        intros Hbk _. erewrite touches_ok; eauto using touches_rename. cbn; intuition discriminate.
      + (* rename failed: nothing changed *)
        unfold op_rename in E. binvn E as fl s2 Hb0. apply begin_ok in Hb0.
        binvn E as cur s3 Hg. apply get_ok in Hg as [-> ->].
        assert (X : disk s1 = disk s).
        { destruct fl; [|destruct (disk s2 RTmp)].
          all: try (binvn E as u1 s4 Hl; apply log_ok in Hl; apply ret_ok in E as [-> _]; congruence).
          binvn E as u1 s4 Hp1. binvn E as u2 s5 Hp2. binvn E as u3 s6 Hl. apply ret_ok in E as [_ E]. discriminate. }
        unfold I1, I0. rewrite X. auto.
    - (* killed before the rename took effect *)
      unfold op_rename, bind in E.
      destruct (begin_op pl s) as [fl s2|c2 s2] eqn:Eb.
      + exfalso. apply begin_ok in Eb. cbn in E.
        destruct fl; [discriminate|]. destruct (disk s2 RTmp); discriminate.
      + injection E as <- <-.
        unfold begin_op in Eb. destruct (crash pl) as [[k [j|]]|]; try discriminate.
        destruct (Nat.eqb k (nop s)); [|discriminate]. injection Eb as <- <-.
        split; [left; exact HI|discriminate].
  Qed.

  Lemma I1_Safe d : I1 d -> Safe d.
  Proof. intros [H _]. left. exact H. Qed.

  Lemma Done_of_same d : I1 d -> fmt orig = Some orig -> Done d.
  Proof. intros [HI Hb] Hf. exists orig. split; [exact Hf|]. split; [exact HI|]. intros _ X. contradiction. Qed.

  Lemma spec_write_out pre :
    match pre with Some f => Some f | None => fmt orig end = fmt orig ->
    spec (write_out pl md fmt pre orig) (fun d => I0 d /\ d RMd5 = d0 RMd5) (fun _ => Done) Safe.
  Proof.
    intros Hpre. unfold write_out. rewrite Hin_place. cbn [andb].
    (* 1. backup *)
    eapply spec_bind with (Q := fun _ => I1).
    { destruct (negb (no_backup md)) eqn:Enb.
      - eapply spec_conseq; [apply spec_backup_copy|auto|auto|intros d H; left; exact H].
      - apply spec_ret. intros d [HI _]. split; [exact HI|].
        intros [Hnb _]. rewrite Hnb in Enb. discriminate. }
    intros _.
    (* 2. fopen tmp *)
    eapply spec_bind with (Q := fun okt d => I1 d /\ (okt = true -> d RTmp = Writing (Data []) false)).
    { eapply spec_block with (rs := [RTmp]).
      - apply touches_fopen_w. - apply nz_fopen_w.
      - apply stable_Safe; cbn; intuition discriminate.
      - apply I1_Safe.
      - intros s okt s1 H HI. split.
        + eapply (stable_I1 [RTmp]); [| |intros r Hr; eapply touches_ok; eauto using touches_fopen_w|exact HI];
            cbn; intuition discriminate.
        + intros ->. eapply fopen_w_ok; eauto. }
    intros okt. destruct okt; cbn [negb].
    2:{ apply spec_exit; [discriminate|]. intros d [H _]. apply I1_Safe, H. }
    rewrite Hpre. destruct (fmt orig) as [f|] eqn:Hf.
    2:{ apply spec_exit; [discriminate|]. intros d [H _]. apply I1_Safe, H. }
    (* 3. write *)
    eapply spec_bind with
        (Q := fun _ d => I1 d /\ exists c' e', d RTmp = Writing c' e' /\ (e' = false -> c' = Data f)).
    { destruct f as [|x f'].
      - apply spec_ret. intros d [HI Ht]. split; [exact HI|]. exists (Data []), false. split; [auto|reflexivity].
      - eapply spec_block with (rs := [RTmp]).
        + apply touches_write. + apply nz_write.
        + apply stable_Safe; cbn; intuition discriminate.
        + intros d [H _]. apply I1_Safe, H.
        + intros s u s1 H [HI Ht]. split.
          * eapply (stable_I1 [RTmp]); [| |intros r Hr; eapply touches_ok; eauto using touches_write|exact HI];
              cbn; intuition discriminate.
          * destruct (write_ok pl _ _ _ _ _ _ _ H (Ht eq_refl)) as (c' & e' & W & We).
            exists c', e'. split; [exact W|]. intros He. destruct (We He) as [_ ->]. reflexivity. }
    intros _.
    (* 4. fclose tmp *)
    eapply spec_bind with (Q := fun okc d => I1 d /\ (okc = true -> d RTmp = Closed (Data f))).
    { eapply spec_block with (rs := [RTmp]).
      - apply touches_fclose_w. - apply nz_fclose_w.
      - apply stable_Safe; cbn; intuition discriminate.
      - intros d [H _]. apply I1_Safe, H.
      - intros s okc s1 H [HI (c' & e' & W & We)]. split.
        + eapply (stable_I1 [RTmp]); [| |intros r Hr; eapply touches_ok; eauto using touches_fclose_w|exact HI];
            cbn; intuition discriminate.
        + intros ->. destruct (fclose_w_ok pl _ _ _ _ _ _ H W) as [W2 W2e].
          rewrite W2. rewrite (We (W2e eq_refl)). reflexivity. }
    intros okc. destruct okc; cbn [negb].
    2:{ eapply spec_bind with (Q := fun _ => I1).
        - eapply spec_block with (rs := [RTmp]).
          + apply touches_unlink. + apply nz_unlink.
          + apply stable_Safe; cbn; intuition discriminate.
          + intros d [H _]. apply I1_Safe, H.
          + intros s u s1 H [HI _].
            eapply (stable_I1 [RTmp]); [| |intros r Hr; eapply touches_ok; eauto using touches_unlink|exact HI];
              cbn; intuition discriminate.
        - intros _. apply spec_exit; [discriminate|apply I1_Safe]. }
    (* 5. md5 file (before the rename) *)
    eapply spec_bind with (Q := fun _ d => I1 d /\ d RTmp = Closed (Data f)).
    { destruct (negb (no_backup md)).
      - eapply spec_block with (rs := [RMd5]).
        + apply touches_create_md5. + apply nz_create_md5.
        + apply stable_Safe; cbn; intuition discriminate.
        + intros d [H _]. apply I1_Safe, H.
        + intros s u s1 H [HI Ht].
          assert (Hd : forall r, r <> RMd5 -> disk s1 r = disk s r).
          { intros r Hr. eapply touches_ok; eauto using touches_create_md5. cbn; intuition. }
          split.
          * eapply (stable_I1 [RMd5]); [| |intros r Hr; apply Hd; intros ->; apply Hr; cbn; tauto|exact HI];
              cbn; intuition discriminate.
          * rewrite Hd by discriminate. auto.
      - apply spec_ret. intros d [HI Ht]. split; auto. }
    intros _.
    (* 6. compare / rename *)
    eapply spec_bind with (Q := fun _ => Done).
    { eapply spec_bind with
          (Q := fun same d => I1 d /\ d RTmp = Closed (Data f) /\ (same = true -> f = orig)).
      - destruct (if_changed md).
        + apply spec_ret. intros d [HI Ht]. split; [exact HI|]. split; [auto|discriminate].
        + eapply spec_block with (rs := []).
          * apply touches_content_matches. * apply nz_content_matches.
          * apply stable_Safe; cbn; tauto.
          * intros d [H _]. apply I1_Safe, H.
          * intros s same s1 H [HI Ht].
            assert (Hd : forall r, disk s1 r = disk s r)
              by (intros r; eapply touches_ok; eauto using touches_content_matches).
            split; [|split].
            -- eapply (stable_I1 []); [| |intros r _; apply Hd|exact HI]; cbn; tauto.
            -- rewrite Hd. auto.
            -- intros ->. destruct HI as [HI _].
               eapply content_matches_value; eauto.
      - intros same. destruct same.
        + eapply spec_bind with (Q := fun _ => Done).
          * eapply spec_block with (rs := [RTmp]).
            -- apply touches_unlink. -- apply nz_unlink.
            -- apply stable_Safe; cbn; intuition discriminate.
            -- intros d [H _]. apply I1_Safe, H.
            -- intros s u s1 H [HI [_ Hs]]. specialize (Hs eq_refl). subst f.
               apply Done_of_same; [|exact Hf].
               eapply (stable_I1 [RTmp]); [| |intros r Hr; eapply touches_ok; eauto using touches_unlink|exact HI];
                 cbn; intuition discriminate.
          * intros _. apply spec_ret. auto.
        + eapply spec_bind; [eapply spec_conseq; [apply (rename_spec f Hf)| | |]|].
          * intros d [HI [Ht _]]. split; assumption.
          * intros a d H. exact H.
          * auto.
          * intros okr. destruct okr; [apply spec_ret; auto|apply spec_exit; [discriminate|apply I1_Safe]]. }
    intros _.
    eapply spec_bind with (Q := fun _ => Done).
    { destruct (keep_mtime md).
      - eapply spec_bind with (Q := fun _ => Done); [|intros _; apply spec_ret; auto].
        eapply spec_block with (rs := []).
        + apply touches_simple. + apply nz_simple.
        + apply stable_Safe; cbn; tauto.
        + intros d H. right. exact H.
        + intros s u s1 H HD.
          eapply (stable_Done []); [| |intros r Hr; eapply touches_ok; eauto using touches_simple|exact HD]; cbn; tauto.
      - apply spec_ret. auto. }
    intros _. apply spec_ret. auto.
  Qed.

  Lemma spec_do_source_file :
    spec (do_source_file pl md fmt) (fun d => I0 d /\ d RMd5 = d0 RMd5) (fun _ => Done) Safe.
  Proof.
    unfold do_source_file.
    eapply spec_bind with (Q := fun b d => b = orig /\ (I0 d /\ d RMd5 = d0 RMd5)).
    { eapply spec_conseq.
      - apply (spec_load (fun d => I0 d /\ d RMd5 = d0 RMd5)).
        + intros d d' Hd [HI Hm]. unfold I0 in *. rewrite !Hd by (cbn; tauto). auto.
        + intros d [H _]. exact H.
      - auto. - auto. - intros d [H _]. left. exact H. }
    intros b. unfold after_load. rewrite Hno_check, Hto_file. cbn [negb].
    destruct (if_changed md).
    - destruct (fmt b) as [f|] eqn:Hf.
      + destruct (bytes_eqb f b) eqn:Eb.
        * apply spec_ret. intros d [-> [HI _]]. apply bytes_eqb_eq in Eb. subst f.
          exists orig. split; [exact Hf|]. split; [exact HI|]. intros _ X. contradiction.
        * intros s [-> HP]. apply (spec_write_out (Some f)); [symmetry; exact Hf|exact HP].
      + apply spec_exit; [discriminate|]. intros d [_ [H _]]. left. exact H.
    - intros s [-> HP]. apply (spec_write_out None); [reflexivity|exact HP].
  Qed.

  (** The theorem.  [pl] (faults and crash point) is arbitrary: the final state of a run killed before
      operation k is the state "at that instant", so this covers every instant of every run. *)
  Theorem replace_all_or_nothing :
    d0 RIn = Closed (Data orig) ->
    let r := run pl md fmt d0 in
    Safe (r_disk r) /\ (r_exit r = Some 0%Z -> Done (r_disk r)).
  Proof.
    intros Hd0 r. subst r. unfold run.
    pose proof (spec_do_source_file {| disk := d0; nop := O; trace := [] |}) as H.
    cbn [disk] in H. specialize (H (conj Hd0 eq_refl)).
    destruct (do_source_file pl md fmt {| disk := d0; nop := 0; trace := [] |}) as [o s|c s];
      cbn [r_disk r_exit].
    - split; [right; exact H|intros _; exact H].
    - destruct H as [HS Hc]. split; [exact HS|]. intros X. contradiction.
  Qed.
End AllOrNothing.

Lemma replace_all_or_nothing_stmt :
  forall (pl : plan) (md : mode) (fmt : bytes -> option bytes) (orig : bytes) (d0 : role -> fstate),
    in_place md = true -> to_file md = true -> do_check md = false ->
    d0 RIn = Closed (Data orig) ->
    let r := run pl md fmt d0 in
    Safe md fmt orig d0 (r_disk r) /\ (r_exit r = Some 0%Z -> Done md fmt orig d0 (r_disk r)).
Proof. intros. apply replace_all_or_nothing; assumption. Qed.
