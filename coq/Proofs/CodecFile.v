(** File-level theorems about Model/Codec.v: what a whole run does to the bytes. *)
From Coq Require Import List ZArith Bool Lia.
From UV Require Import Model.Codec Proofs.CodecProofs.
Import ListNotations.
Local Open Scope Z_scope.
Ltac Zify.zify_post_hook ::= Z.div_mod_to_equations.

Lemma Forall_flat_map_inv {A B} (P : B -> Prop) (f : A -> list B) l :
  Forall P (flat_map f l) -> Forall (fun a => Forall P (f a)) l.
Proof.
  induction l as [|a l IH]; cbn [flat_map]; intros H; constructor.
  - apply Forall_app in H. tauto.
  - apply IH. apply Forall_app in H. tauto.
Qed.

Lemma flat_map_ext_Forall {A B} (P : A -> Prop) (f g : A -> list B) l :
  Forall P l -> (forall a, P a -> f a = g a) -> flat_map f l = flat_map g l.
Proof. induction 1 as [|a l Ha _ IH]; intros E; cbn [flat_map]; [reflexivity|]. rewrite E, IH; auto. Qed.

Lemma write_bytes_id l : Forall byte l -> flat_map write_byte l = l.
Proof. induction 1 as [|b l Hb _ IH]; [reflexivity|]. cbn [flat_map]. rewrite write_byte_ok, IH by assumption. reflexivity. Qed.

Lemma encode_utf8_neg c : c < 0 -> encode_utf8 c = [].
Proof. intros. unfold encode_utf8. cmps. reflexivity. Qed.

(** UTF-8 writer = encoder, whenever the encoder's output consists of bytes *)
Lemma write_utf8_string cps :
  Forall byte (flat_map encode_utf8 cps) ->
  write_string E_UTF8 cps = flat_map encode_utf8 cps.
Proof.
  intros H. apply Forall_flat_map_inv in H. unfold write_string.
  eapply flat_map_ext_Forall; [exact H|].
  intros c Hc. unfold write_char. cbn beta.
  destruct (c <? 0) eqn:Hn.
  - apply Z.ltb_lt in Hn. rewrite encode_utf8_neg by lia. reflexivity.
  - unfold write_utf8. apply write_bytes_id. exact Hc.
Qed.

Lemma write_utf16_string be cps :
  Forall scalar cps -> write_string (enc16 be) cps = flat_map (write_utf16 be) cps.
Proof.
  intros H. unfold write_string. eapply flat_map_ext_Forall; [exact H|].
  intros c Hc. unfold write_char, scalar in *.
  replace (c <? 0) with false by (symmetry; apply Z.ltb_ge; lia).
  destruct be; reflexivity.
Qed.

Lemma write_ascii_string bs : Forall byte bs -> write_string E_ASCII bs = bs.
Proof.
  induction 1 as [|b l Hb _ IH]; [reflexivity|].
  unfold write_string in *. cbn [flat_map]. rewrite IH.
  unfold write_char, byte in *. replace (b <? 0) with false by (symmetry; apply Z.ltb_ge; lia).
  rewrite write_byte_ok by exact Hb. reflexivity.
Qed.

Lemma write_byte_string bs : Forall byte bs -> write_string E_BYTE bs = bs.
Proof.
  induction 1 as [|b l Hb _ IH]; [reflexivity|].
  unfold write_string in *. cbn [flat_map]. rewrite IH.
  unfold write_char, byte in *. replace (b <? 0) with false by (symmetry; apply Z.ltb_ge; lia).
  rewrite Z.mod_small by lia. rewrite write_byte_ok by exact Hb. reflexivity.
Qed.

Lemma bom16_inv bs be : bom16 bs = Some be ->
  exists r, bs = (if be then [0xFE; 0xFF] else [0xFF; 0xFE]) ++ r.
Proof.
  destruct bs as [|b0 [|b1 r]]; cbn [bom16]; try discriminate.
  destruct ((b0 =? 0xFE) && (b1 =? 0xFF)) eqn:H1.
  - intros E; injection E as <-. apply andb_prop in H1 as [Ha Hb].
    apply Z.eqb_eq in Ha, Hb. subst. exists r. reflexivity.
  - destruct ((b0 =? 0xFF) && (b1 =? 0xFE)) eqn:H2; [|discriminate].
    intros E; injection E as <-. apply andb_prop in H2 as [Ha Hb].
    apply Z.eqb_eq in Ha, Hb. subst. exists r. reflexivity.
Qed.

Lemma has_utf8_bom_inv bs : has_utf8_bom bs = true -> exists r, bs = [0xEF; 0xBB; 0xBF] ++ r.
Proof.
  destruct bs as [|b0 [|b1 [|b2 r]]]; cbn [has_utf8_bom]; try discriminate.
  intros H. apply andb_prop in H as [H H3]. apply andb_prop in H as [H1 H2].
  apply Z.eqb_eq in H1, H2, H3. subst. exists r. reflexivity.
Qed.

Lemma write_bom16 be : write_bom (enc16 be) = if be then [0xFE; 0xFF] else [0xFF; 0xFE].
Proof. destruct be; reflexivity. Qed.

(** ** Property C09 (d): input is never silently altered.
    For EVERY byte string, a run with the identity formatter and the default
    options either refuses the file, or writes exactly the bytes read, or (the
    one documented exception) the input was BOM-less UTF-16 and the output is
    the input with a BOM in front. *)
Definition outcome_ok (bs : list Z) (o : outcome) : Prop :=
  o = Refused \/ o = Written bs \/
  (bom16 bs = None /\ exists be, o = Written (write_bom (enc16 be) ++ bs)).

Lemma decode_utf16_sound bs e d :
  Forall byte bs -> decode_utf16 bs = Some (e, d) ->
  exists be, e = enc16 be /\ Forall scalar d /\
    match bom16 bs with
    | Some be' => be' = be /\ write_bom (enc16 be) ++ flat_map (write_utf16 be) d = bs
    | None => flat_map (write_utf16 be) d = bs
    end.
Proof.
  intros Hb. unfold decode_utf16.
  destruct (Nat.odd (length bs)); [discriminate|].
  destruct (length bs <? 2)%nat; [discriminate|].
  destruct (bom16 bs) as [be|] eqn:Hbom.
  - destruct (dec16 be None (skipn 2 bs)) as [d'|] eqn:Hd; [|discriminate].
    cbn [option_map]. intros E; injection E as <- <-.
    apply bom16_inv in Hbom as [r ->].
    assert (Hs : skipn 2 ((if be then [254; 255] else [255; 254]) ++ r) = r) by (destruct be; reflexivity).
    rewrite Hs in Hd.
    assert (Hbr : Forall byte r) by (apply Forall_app in Hb; tauto).
    destruct (dec16_inj be r d' Hbr Hd) as [E1 E2].
    exists be. repeat split; try assumption. rewrite write_bom16, E1. reflexivity.
  - destruct (6 <=? length bs)%nat; [|discriminate].
    destruct ((nth_byte bs 0 =? 0) && (nth_byte bs 2 =? 0) && (nth_byte bs 4 =? 0)).
    + destruct (dec16 true None bs) as [d'|] eqn:Hd; [|discriminate].
      cbn [option_map]. intros E; injection E as <- <-.
      destruct (dec16_inj true bs d' Hb Hd) as [E1 E2]. exists true. auto.
    + destruct ((nth_byte bs 1 =? 0) && (nth_byte bs 3 =? 0) && (nth_byte bs 5 =? 0)); [|discriminate].
      destruct (dec16 false None bs) as [d'|] eqn:Hd; [|discriminate].
      cbn [option_map]. intros E; injection E as <- <-.
      destruct (dec16_inj false bs d' Hb Hd) as [E1 E2]. exists false. auto.
Qed.

Lemma decode_utf8_sound bs d :
  Forall byte bs -> decode_utf8 true bs = Some d ->
  (if has_utf8_bom bs then [0xEF; 0xBB; 0xBF] else []) ++ write_string E_UTF8 d = bs.
Proof.
  intros Hb. unfold decode_utf8.
  destruct (has_utf8_bom bs) eqn:Hbom.
  - apply has_utf8_bom_inv in Hbom as [r ->].
    change (skipn 3 ([239; 187; 191] ++ r)) with r. intros Hd.
    assert (Hbr : Forall byte r) by (apply Forall_app in Hb; tauto).
    pose proof (dec8_inj r d Hbr Hd) as E.
    rewrite write_utf8_string by (rewrite E; exact Hbr). rewrite E. reflexivity.
  - intros Hd. pose proof (dec8_inj bs d Hb Hd) as E.
    rewrite write_utf8_string by (rewrite E; exact Hb). rewrite E. reflexivity.
Qed.

Theorem never_silently_altered bs :
  Forall byte bs -> outcome_ok bs (run_file true default_enc_opts (fun x => x) bs).
Proof.
  intros Hb. unfold run_file, outcome_ok, decode_unicode, decode_bom.
  destruct (bom16 bs) as [be|] eqn:Hbom.
  - (* UTF-16 with BOM *)
    replace (match enc16 be with E_UTF8 => _ | _ => _ end)
      with (option_map (fun ed => {| d_enc := fst ed; d_bom := true; d_data := snd ed |}) (decode_utf16 bs))
      by (destruct be; reflexivity).
    destruct (decode_utf16 bs) as [[e d]|] eqn:Hd; [|left; reflexivity].
    cbn [option_map d_data d_enc d_bom fst snd].
    destruct (has_embedded_nul d); [left; reflexivity|].
    destruct (decode_utf16_sound bs e d Hb Hd) as (be' & -> & Hsc & Hx).
    rewrite Hbom in Hx. destruct Hx as [-> Hx].
    right; left. f_equal.
    replace (out_enc default_enc_opts (enc16 be')) with (enc16 be') by (destruct be'; reflexivity).
    replace (out_bom default_enc_opts (enc16 be') true) with true by (destruct be'; reflexivity).
    rewrite write_utf16_string by assumption. exact Hx.
  - destruct (has_utf8_bom bs) eqn:Hbom8.
    + (* UTF-8 with BOM *)
      destruct (decode_utf8 true bs) as [d|] eqn:Hd; [|left; reflexivity].
      cbn [option_map d_data d_enc d_bom].
      destruct (has_embedded_nul d); [left; reflexivity|].
      right; left. f_equal.
      pose proof (decode_utf8_sound bs d Hb Hd) as E. rewrite Hbom8 in E. exact E.
    + match goal with |- context [if Nat.eqb ?a ?b then _ else _] => destruct (Nat.eqb a b) end.
      * (* ASCII *)
        cbn [d_data d_enc d_bom].
        destruct (has_embedded_nul bs); [left; reflexivity|].
        right; left. f_equal. cbn. apply write_ascii_string. exact Hb.
      * match goal with |- context [if ?c then decode_utf16 bs else None] =>
          set (cond16 := c); set (try16 := if cond16 then decode_utf16 bs else None) end.
        destruct try16 as [[e d]|] eqn:H16.
        -- (* BOM-less UTF-16 *)
           cbn [d_data d_enc d_bom fst snd].
           destruct (has_embedded_nul d); [left; reflexivity|].
           subst try16.
           destruct cond16; [|discriminate].
           destruct (decode_utf16_sound bs e d Hb H16) as (be' & -> & Hsc & Hx).
           rewrite Hbom in Hx.
           right; right. split; [reflexivity|]. exists be'. f_equal.
           replace (out_enc default_enc_opts (enc16 be')) with (enc16 be') by (destruct be'; reflexivity).
           replace (out_bom default_enc_opts (enc16 be') false) with true by (destruct be'; reflexivity).
           rewrite write_utf16_string by assumption. rewrite Hx. reflexivity.
        -- destruct (decode_utf8 true bs) as [d|] eqn:Hd.
           ++ (* UTF-8 without BOM *)
              cbn [d_data d_enc d_bom].
              destruct (has_embedded_nul d); [left; reflexivity|].
              right; left. f_equal.
              pose proof (decode_utf8_sound bs d Hb Hd) as E. rewrite Hbom8 in E. exact E.
           ++ (* BYTE *)
              cbn [d_data d_enc d_bom].
              destruct (has_embedded_nul bs); [left; reflexivity|].
              right; left. f_equal. cbn. apply write_byte_string. exact Hb.
Qed.

(** The same statement is FALSE for the decoder without the overlong check
    (the tree before fix 0d0f6c8): C1 81 was written back as 41. *)
Theorem never_silently_altered_refuted_without_min_check :
  exists bs, Forall byte bs /\
    ~ outcome_ok bs (run_file false default_enc_opts (fun x => x) bs).
Proof.
  exists [0xC1; 0x81]. split.
  - repeat constructor; unfold byte; lia.
  - vm_compute. intros [H|[H|[_ [be H]]]]; try discriminate. destruct be; discriminate.
Qed.
