(** Indentation written with tabs: the leading white space of a line is a run of tabs followed by a run of spaces,
    never a space before a tab (C17), and it ends exactly in the chunk's column (C18). *)
From Coq Require Import List ZArith Bool Arith Lia.
From UV Require Import Model.Render Proofs.RenderProofs.
Import ListNotations.
Local Open Scope Z_scope.
Ltac Zify.zify_post_hook ::= Z.div_mod_to_equations.

Section Tabs.
  Variable o : ropts.
  Hypothesis Hts : 1 <= output_tab_size o.

  Lemma next_tab_column_gt c : 1 <= c -> c < next_tab_column o c /\ next_tab_column o c <= c + output_tab_size o.
  Proof.
    intros Hc. unfold next_tab_column. replace (c =? 0) with false by (symmetry; apply Z.eqb_neq; lia).
    set (ts := output_tab_size o) in *. split; nia.
  Qed.

  (** one tab through add_char: written as a tab (indentation mode is not "spaces only", or no space before it) *)
  Lemma add_char_tab s :
    quiet s -> spaces s = 0 -> (eff_iwt o <> 0 \/ last_char s <> 32) ->
    let s' := add_char o s 9 false in
    out s' = Ch 9 :: out s /\ column s' = next_tab_column o (column s) /\ spaces s' = 0 /\ quiet s' /\ last_char s' = 9
    /\ did_newline s' = did_newline s.
  Proof.
    intros (Hsp & Hl & Htr & Htas) H0 Hmode. unfold add_char.
    change (9 =? 10) with false. change (9 =? 13) with false. change (9 =? 9) with true.
    rewrite Htas. cbn [orb andb negb].
    assert (E : ((last_char s =? 32) && (eff_iwt o =? 0)) = false).
    { destruct Hmode as [H|H].
      - replace (eff_iwt o =? 0) with false by (symmetry; apply Z.eqb_neq; exact H). apply andb_false_r.
      - replace (last_char s =? 32) with false by (symmetry; apply Z.eqb_neq; exact H). reflexivity. }
    rewrite E.
    unfold add_char1, cr_fixup.
    replace (last_char s =? 13) with false by (symmetry; apply Z.eqb_neq; exact Hl). cbn [andb].
    change (9 =? 10) with false. change (9 =? 13) with false. change (9 =? 32) with false. change (9 =? 9) with true. cbn [andb].
    unfold add_spaces. rewrite H0. cbn [Z.to_nat repeat app set_last out column spaces last_char did_newline].
    unfold quiet. cbn. repeat split; try assumption; try lia; try discriminate.
  Qed.

  (** the tab loop: tabs while the next tab stop does not pass the target column *)
  Lemma tabs_loop_spec fuel : forall s col,
    quiet s -> spaces s = 0 -> eff_iwt o <> 0 -> 1 <= column s -> column s <= col -> (Z.to_nat (col - column s) < fuel)%nat ->
    let s' := tabs_loop o fuel s col in
    exists m : nat,
      out s' = repeat (Ch 9) m ++ out s /\ spaces s' = 0 /\ quiet s' /\
      column s <= column s' <= col /\ col < next_tab_column o (column s') /\ did_newline s' = did_newline s.
  Proof.
    induction fuel as [|f IH]; intros s col Hq H0 Hm Hc1 Hc Hf; [exfalso; lia|].
    cbn [tabs_loop]. destruct (next_tab_column o (column s) <=? col) eqn:E.
    - apply Z.leb_le in E.
      destruct (add_char_tab s Hq H0 (or_introl Hm)) as (A & B & C & D & _ & G). cbn zeta in *.
      destruct (next_tab_column_gt (column s) Hc1) as [G1 G2].
      destruct (IH (add_char o s 9 false) col D C Hm) as (m & A' & B' & C' & D' & E' & F'); try (rewrite B; lia).
      cbn zeta in *. exists (S m). rewrite A', A, B in *. rewrite F', G.
      split; [rewrite <- rep_mid; reflexivity|]. split; [exact B'|]. split; [exact C'|]. split; [lia|]. split; [exact E'|reflexivity].
    - apply Z.leb_gt in E. exists O. cbn [repeat app]. split; [reflexivity|]. split; [exact H0|]. split; [exact Hq|]. split; [lia|]. split; [exact E|reflexivity].
  Qed.

  (** a chunk that starts a line, indentation with tabs allowed up to its column (indent_with_tabs = 2):
      tabs, then fewer than a tab stop of spaces, then the text - never a space before a tab *)
  Theorem first_chunk_on_line_tabs prev c s :
    indent_with_tabs o = 2 -> preproc c = false ->
    quiet s -> column s = 1 -> spaces s = 0 -> did_newline s = true ->
    1 <= col c -> Forall plainc (text c) -> is_string_multi c = false ->
    (is_pp_define c && force_tab_after_define o) = false -> in_preproc_at_output o = false ->
    let s' := render_other o prev c s in
    exists m k : nat,
      all_out s' = rev (map Ch (text c)) ++ repeat (Ch 32) k ++ repeat (Ch 9) m ++ out s
      /\ (Z.of_nat k < output_tab_size o) /\ column s' = col c + Z.of_nat (length (text c)).
  Proof.
    intros Hiwt Hnp Hq Hcol Hsp Hdn Hc Ht Hsm Hpd Hip.
    assert (Heff : eff_iwt o <> 0) by (unfold eff_iwt; rewrite Hip, Hiwt; cbn; discriminate).
    unfold render_other. rewrite Hsm, Hnp, Hiwt, Hpd.
    set (s0 := set_flags s false false).
    assert (Hq0 : quiet s0) by (destruct Hq as (A & B & _ & _); repeat split; assumption).
    change (did_newline s0) with (did_newline s). rewrite Hdn.
    change (2 =? 1) with false. change (2 =? 2) with true. cbn [andb orb negb].
    unfold output_to_column.
    set (s1 := set_did_newline s0 false).
    assert (Hq1 : quiet s1) by exact Hq0.
    destruct (tabs_loop_spec (Z.to_nat (col c) + 1) s1 (col c) Hq1) as (m & A & B & C & D & E & F);
      try assumption; try (change (column s1) with (column s); change (spaces s1) with (spaces s); lia).
    cbn zeta in *. change (column s1) with (column s) in *. rewrite Hcol in *.
    set (s2 := tabs_loop o (Z.to_nat (col c) + 1) s1 (col c)) in *.
    destruct (space_n_spec o (Z.to_nat (col c - column s2)) s2 C) as (A2 & B2 & C2 & D2 & E2). cbn zeta in *.
    set (s3 := space_n o s2 (Z.to_nat (col c - column s2))) in *.
    destruct (add_text_plain o (text c) (is_string c) Ht s3 C2) as (A3 & B3 & C3 & D3). cbn zeta in *.
    exists m, (Z.to_nat (col c - column s2)). split; [|split].
    - unfold all_out at 1. cbn [spaces out set_flags set_did_newline].
      match goal with |- repeat (Ch 32) (Z.to_nat (spaces ?x)) ++ out ?x = _ => change (repeat (Ch 32) (Z.to_nat (spaces x)) ++ out x) with (all_out x) end.
      rewrite A3, A2. unfold all_out. rewrite B, A. cbn [Z.to_nat repeat app].
      change (out s1) with (out s). reflexivity.
    - destruct (next_tab_column_gt (column s2)) as [G1 G2]; lia.
    - cbn [column set_flags set_did_newline]. rewrite B3, B2. lia.
  Qed.
End Tabs.
