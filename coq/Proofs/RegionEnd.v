(** Disabled regions end to end: lexer model (Region) + contract K_region on the middle passes + output stage model
    (Render): the non-blank lines of the region come out byte-identical and in order. *)
From Coq Require Import List ZArith Bool Arith Lia.
From UV Require Import Model.Region Model.Render Proofs.RegionProofs Proofs.RenderProofs Proofs.RegionRender.
Import ListNotations.
Local Open Scope Z_scope.

Definition nl_ok (nl : list Z) : Prop := nl = [10] \/ nl = [13; 10] \/ nl = [13].

Definition region_bytes (nl : list Z) (ps : list (list Z * nat)) : list Z :=
  flat_map (fun p => fst p ++ concat (repeat nl (snd p))) ps.

Definition line_ok (p : list Z * nat) : Prop := fst p <> [] /\ no_eol (fst p) /\ (1 <= snd p)%nat.

Lemma no_eol_hd t : t <> [] -> no_eol t -> hd 0 t <> 10 /\ hd 0 t <> 13.
Proof.
  destruct t as [|c t]; [congruence|]. unfold no_eol. cbn [forallb hd]. intros _ H.
  apply andb_prop in H. destruct H as [H _]. apply negb_true_iff in H. unfold is_eol in H.
  apply orb_false_elim in H. destruct H as [H1 H2]. split; intro X; subst c; discriminate.
Qed.

Lemma region_bytes_hd nl ps : Forall line_ok ps -> hd 0 (region_bytes nl ps) <> 10.
Proof.
  destruct 1 as [|[t n] ps (Hne & Hno & _) _]; [cbn; discriminate|].
  cbn [fst snd] in *. unfold region_bytes. cbn [flat_map fst snd].
  destruct t as [|c t]; [congruence|]. cbn [app hd]. exact (proj1 (no_eol_hd (c :: t) Hne Hno)).
Qed.

Lemma lines_nl_rep nl n X : nl_ok nl -> hd 0 X <> 10 ->
  filter nonblank (lines (concat (repeat nl n) ++ X)) = filter nonblank (lines X)
  /\ (hd 0 (concat (repeat nl n) ++ X) <> 10 \/ nl <> [13]).
Proof.
  intros Hnl HX. induction n as [|n IHn]; cbn [repeat concat app]; [split; [reflexivity|left; exact HX]|].
  destruct IHn as [IH Hh].
  rewrite <- app_assoc. destruct Hnl as [-> | [-> | ->]].
  - split; [|right; discriminate]. rewrite (lines_eol [10]) by constructor. cbn [filter]. exact IH.
  - split; [|right; discriminate]. rewrite (lines_eol [13; 10]) by constructor. cbn [filter]. exact IH.
  - split; [|left; cbn; discriminate]. rewrite (lines_eol [13]).
    + cbn [filter]. exact IH.
    + constructor. destruct Hh as [Hh|Hh]; [exact Hh|congruence].
Qed.

Theorem region_bytes_lines nl ps : nl_ok nl -> Forall line_ok ps ->
  filter nonblank (lines (region_bytes nl ps)) = filter nonblank (map fst ps).
Proof.
  intros Hnl. induction 1 as [|[t n] ps (Hne & Hno & Hn) Hps IH]; [reflexivity|].
  cbn [fst snd] in *. unfold region_bytes. cbn [flat_map fst snd map]. fold (region_bytes nl ps).
  rewrite <- app_assoc. rewrite (lines_app_noeol t Hno).
  destruct n as [|n]; [cbn in Hn; lia|]. cbn [repeat concat]. rewrite <- app_assoc.
  assert (Hhd : hd 0 (region_bytes nl ps) <> 10) by (apply region_bytes_hd; exact Hps).
  destruct (lines_nl_rep nl n (region_bytes nl ps) Hnl Hhd) as [Hf Hh].
  assert (El : lines (nl ++ concat (repeat nl n) ++ region_bytes nl ps) = [] :: lines (concat (repeat nl n) ++ region_bytes nl ps)).
  { apply lines_eol. destruct Hnl as [-> | [-> | ->]]; constructor. destruct Hh as [Hh|Hh]; [exact Hh|congruence]. }
  rewrite El, app_nil_r. cbn [filter]. rewrite Hf, IH. reflexivity.
Qed.

(** ** the end-to-end statement.
    [l]: the input text from the start of the region (the tokenizer is in its "off" state);
    [lF]: the chunks of the region as they reach the output stage;
    contract K_region (hypothesis, evaluated on every explored run): apart from chunks without text, those chunks
    are the IGNORED chunks the tokenizer made, texts unchanged and in order, each followed by a NEWLINE chunk with
    a count of at least one. *)
Theorem region_end_to_end ends o nl l cs rest lF its ps rp s :
  scan_off ends (S (length l)) l = (cs, rest) ->
  is_region lF its -> drop_empty its = alternate ps ->
  map fst ps = ignored_texts cs -> Forall (fun p => (1 <= snd p)%nat) ps ->       (* K_region *)
  nl_ok nl -> quiet s -> spaces s = 0 ->
  exists consumed written,
    l = consumed ++ rest /\ stopped ends rest
    /\ out (render_loop o rp lF s) = rev written ++ out s
    /\ filter nonblank (lines (realise nl written)) = filter nonblank (lines consumed).
Proof.
  intros Hs Hr Hd Hk Hn Hnl Hq H0.
  destruct (region_scan ends l cs rest Hs) as (consumed & E & F & I & St).
  destruct (region_render o lF its Hr rp s Hq H0) as (A & _ & _). cbn zeta in A.
  exists consumed, (region_syms its). split; [exact E|]. split; [exact St|]. split; [exact A|].
  rewrite <- region_syms_drop, Hd, realise_region. fold (region_bytes nl ps).
  assert (Hok : Forall line_ok ps).
  { apply Forall_forall. intros [t n] Hin. rewrite Forall_forall in Hn. specialize (Hn _ Hin).
    assert (Ht : In t (ignored_texts cs)) by (rewrite <- Hk; apply (in_map fst _ _ Hin)).
    unfold ignored_texts in Ht. apply in_flat_map in Ht. destruct Ht as [c [Hc Hx]].
    destruct c as [t'|k]; [|destruct Hx]. destruct Hx as [<-|[]].
    destruct (I t' Hc) as (X & Y & _). repeat split; assumption. }
  rewrite (region_bytes_lines nl ps Hnl Hok), Hk, <- F. reflexivity.
Qed.
