(** Proofs for C19: the generated table of do_space() sites is faithful (finite, by computation against the
    generated registry), and the application of a decision means what the property says. *)
From Coq Require Import List ZArith Bool Lia.
From UV Require Import Model.ConfigDefs Model.Config Gen.Registry Model.SpaceDefs Model.SpaceApply Gen.SpaceRules.
Import ListNotations.
Local Open Scope Z_scope.

(** the rule name up to the first blank *)
Fixpoint rule_base (r : list Z) : list Z :=
  match r with [] => [] | c :: t => if c =? 32 then [] else c :: rule_base t end.

Definition is_iarf_option (n : list Z) : bool :=
  match lookup_kind registry n with Some KIarf => true | _ => false end.

Fixpoint contains (needle hay : list Z) : bool :=
  match hay with
  | [] => match needle with [] => true | _ => false end
  | _ :: t => (beqb needle (firstn (length needle) hay)) || contains needle t
  end.

Definition w_REMOVE : list Z := [82;69;77;79;86;69].
Definition w_FORCE : list Z := [70;79;82;67;69].
Definition w_IGNORE : list Z := [73;71;78;79;82;69].
Definition w_ADD : list Z := [65;68;68].

(** a site is faithful when
    - it returns (a function of) the value of an option and the rule it logs is either that very option
      or a label that is not a spacing option at all;
    - or it returns a constant under a label that is not a spacing option, and a constant named in the
      label is the constant returned. *)
Definition site_ok (s : site) : bool :=
  let base := rule_base (s_rule s) in
  match s_shape s with
  | SConst =>
    negb (is_iarf_option base) &&
    (if contains w_REMOVE (s_rule s) then s_const s =? 2
     else if contains w_FORCE (s_rule s) then s_const s =? 3
     else if contains w_IGNORE (s_rule s) then s_const s =? 0
     else if contains w_ADD (s_rule s) then s_const s =? 1 else true)
  | _ => is_iarf_option (s_opt s) && (if is_iarf_option base then beqb base (s_opt s) else true)
  end.

(** re-proved on every run against the regenerated tables *)
Theorem space_rules_faithful : forallb site_ok space_sites = true.
Proof. vm_compute. reflexivity. Qed.

(** what a faithful site returns, relative to the configured value [v] of the option it names:
    exactly [v], except that the listed shapes may turn it into Add/Force (never into Remove or Ignore
    when [v] asked for a space), or a MaybeIgnore site may decline to decide *)
Theorem ret_values_spec sh c v r :
  0 <= v <= 3 -> In r (ret_values sh c v) ->
  match sh with
  | SOpt => r = v
  | SConst => r = c
  | SOrAdd | SMaybeOrAdd => r = v \/ r = ior v 1
  | SAddUnlessIgnore => (v = 0 /\ r = 0) \/ (v <> 0 /\ r = ior v 1)
  | SRemoveToForce => r = 3
  | SMaybeIgnore => r = v \/ r = 0
  end.
Proof.
  intros Hv Hin. destruct sh; cbn in Hin; intuition.
  destruct (v =? 0) eqn:E; [apply Z.eqb_eq in E; subst; left; auto|apply Z.eqb_neq in E; right; auto].
Qed.

Lemma ior_add_cases v : 0 <= v <= 3 -> ior v 1 = (if (v =? 0) || (v =? 1) then 1 else 3).
Proof. intros H. assert (Hc : v = 0 \/ v = 1 \/ v = 2 \/ v = 3) by lia. destruct Hc as [Hc|[Hc|[Hc|Hc]]]; subst v; reflexivity. Qed.

(** or-ing ADD never yields Remove or Ignore: Remove becomes Force, Ignore becomes Add *)
Theorem ensure_force_spec forced av : 0 <= av <= 3 ->
  ensure_force forced av = (if forced then (if (av =? 0) || (av =? 1) then 1 else 3) else av).
Proof. intros H. unfold ensure_force. destruct forced; [apply ior_add_cases; exact H|reflexivity]. Qed.

(** the gap realised for a decision: Remove none, Force exactly max(1,min_sp), Add at least that,
    Ignore keeps presence or absence as in the input *)
Theorem apply_gap_spec av min_sp noc pce :
  0 <= av <= 3 -> 0 <= pce -> 0 <= noc ->
  let g := apply_gap av min_sp noc pce in
  (av = 2 -> g = 0) /\
  (av = 3 -> g = Z.max 1 min_sp) /\
  (av = 1 -> g >= Z.max 1 min_sp /\ g >= 1) /\
  (av = 0 -> pce <> 0 -> pce <= noc -> (g > 0 <-> noc - pce > 0) /\ g = noc - pce).
Proof.
  intros Hav Hp Hn g. subst g. unfold apply_gap.
  assert (Hc : av = 0 \/ av = 1 \/ av = 2 \/ av = 3) by lia. destruct Hc as [Hc|[Hc|[Hc|Hc]]]; subst av; cbn [Z.eqb Pos.eqb].
  - split; [intros E; discriminate E|]. split; [intros E; discriminate E|]. split; [intros E; discriminate E|].
    intros _ Hz Hle.
    replace (pce <=? noc) with true by (symmetry; apply Z.leb_le; lia).
    replace (pce =? 0) with false by (symmetry; apply Z.eqb_neq; lia). cbn. lia.
  - split; [intros E; discriminate E|]. split; [intros E; discriminate E|]. split; [|intros E; discriminate E].
    intros _. destruct ((pce <=? noc) && negb (pce =? 0)); lia.
  - split; [reflexivity|]. split; [intros E; discriminate E|]. split; intros E; discriminate E.
  - split; [intros E; discriminate E|]. split; [reflexivity|]. split; intros E; discriminate E.
Qed.
